import MCHap.Model.Loci
import MCHap.Proofs.LociPrior
import Mathlib.Algebra.Order.Field.Rat
import Mathlib.Data.List.Basic
import Mathlib.Data.List.Forall2
import Mathlib.Data.List.Range
import Mathlib.Tactic

/-!
# C16 — input allele filtering and prior-frequency options

`locusPrior r tag filter` is `LocusPrior.from_variant_record(record, frequency_tag=tag, allele_filter=filter)`
restricted to the mask / filter / frequency fields; `callLabels`, `callScenario`, `exactScenario`,
`relabel`, `relabelNAllele`, `posteriorCounts` are the masking / sub-setting / relabelling and the NOA / AF0
short circuit of `call`, `call-pedigree` and `call-exact`.  All theorems are about every record
(any number of ALTs, any INFO values incl. zeros, all-zero and negative values, missing entries) and every
tag / filter string on which the code does not raise.
-/
namespace MCHap.C16
open MCHap

variable {r : RecordM} {tag filter : Option String} {P : LocusPriorM}

/-- shape of a successfully built prior: one `keep` flag per record allele, REF always kept, one
    frequency per retained allele and at least one retained allele -/
theorem locusPrior_shape (h : locusPrior r tag filter = .ok P) :
    P.keep.length = r.nAlts + 1 ∧ P.keep.head? = some true ∧
    P.raw.length = (P.keep.filter id).length ∧ 1 ≤ P.raw.length ∧
    ∀ fs, P.freqs = some fs → fs.length = P.raw.length := by
  obtain ⟨keep, m, vals, hk, hf, rfl⟩ := locusPrior_inv h
  obtain ⟨hklen, hkhead, _, _⟩ := filterKeep_inv hk
  obtain ⟨hvlen, _, _⟩ := frequencyArray_inv hf
  obtain ⟨hkeep, hmask, _, hraw, hfr⟩ := finishPrior_spec keep m vals
  have hmlen : (maskedVals m vals).length = vals.length := by
    unfold maskedVals; split <;> simp
  have hsel : ∀ (xs : List (Option ℚ)) (ks : List Bool), xs.length = ks.length →
      (select xs ks).length = (ks.filter id).length := by
    intro xs
    induction xs with
    | nil => intro ks hl; cases ks <;> simp_all [select]
    | cons x xs ih =>
      intro ks hl
      cases ks with
      | nil => simp at hl
      | cons k ks =>
        cases k
        · rw [select_cons_false]; simpa using ih ks (by simpa using hl)
        · rw [select_cons_true]; simpa using ih ks (by simpa using hl)
  have hrl : (finishPrior keep m vals).raw.length = (keep.filter id).length := by
    rw [hraw, List.length_map, hsel _ _ (by rw [hmlen, hvlen, hklen])]
  rw [hkeep]
  refine ⟨hklen, hkhead, hrl, ?_, ?_⟩
  · rw [hrl]
    cases hkeep' : keep with
    | nil => simp [hkeep'] at hkhead
    | cons b t =>
      simp only [hkeep', List.head?_cons, Option.some.injEq] at hkhead
      subst hkhead; simp
  · intro fs hfs
    rw [hfr] at hfs
    split at hfs
    · exact absurd hfs (by simp)
    · rw [(normalise_some hfs).2.1]; simp

/-- **Prior frequencies.** The reported frequencies are the retained raw values rescaled by their sum:
    they sum to one and keep the ratios of the INFO values; the all-NaN vector arises exactly when a retained
    value is missing or the retained values do not have a positive sum. -/
theorem freq_normalised (h : locusPrior r tag filter = .ok P) :
    (∀ fs, P.freqs = some fs →
        P.nanRaw = false ∧ 0 < sumRat P.raw ∧ sumRat fs = 1 ∧ fs = P.raw.map (· / sumRat P.raw)) ∧
    (P.freqs = none ↔ P.nanRaw = true ∨ sumRat P.raw ≤ 0) := by
  obtain ⟨keep, m, vals, _, _, rfl⟩ := locusPrior_inv h
  obtain ⟨_, _, _, _, hfr⟩ := finishPrior_spec keep m vals
  constructor
  · intro fs hfs
    rw [hfr] at hfs
    split at hfs
    · exact absurd hfs (by simp)
    · rename_i hn
      obtain ⟨h1, h2, h3⟩ := normalise_some hfs
      exact ⟨by simpa using hn, h1, h3, h2⟩
  · rw [hfr]
    split
    · rename_i hn; simp [hn]
    · rename_i hn
      have : (finishPrior keep m vals).nanRaw = false := by simpa using hn
      rw [normalise_eq_none]; simp [this]

/-- the raw values are the named INFO values (Integer or Float alike; or the flat `1/n`), with the masked
    reference set to zero, restricted to the retained alleles; `nanRaw` says that one of them is missing -/
theorem raw_is_named_info (h : locusPrior r tag filter = .ok P) :
    ∃ vals : List (Option ℚ),
      (∀ t, tag = some t → t ≠ "" → ∃ f, findField r t = some f ∧ f.values = some vals) ∧
      ((tag = none ∨ tag = some "") →
          vals = List.replicate (r.nAlts + 1) (some (1 / ((r.nAlts + 1 : ℕ) : ℚ)))) ∧
      P.nanRaw = (select (maskedVals P.maskRef vals) P.keep).any Option.isNone ∧
      P.raw = (select (maskedVals P.maskRef vals) P.keep).map (fun x => x.getD 0) ∧
      (P.nanRaw = false → P.raw.map some = select (maskedVals P.maskRef vals) P.keep) := by
  obtain ⟨keep, m, vals, _, hf, rfl⟩ := locusPrior_inv h
  obtain ⟨_, hflat, htag⟩ := frequencyArray_inv hf
  refine ⟨vals, htag, hflat, rfl, rfl, ?_⟩
  intro hnone
  have hnone' : (select (maskedVals m vals) keep).any Option.isNone = false := hnone
  show ((select (maskedVals m vals) keep).map (fun x => x.getD 0)).map some = select (maskedVals m vals) keep
  rw [List.map_map]
  conv_rhs => rw [← List.map_id (select (maskedVals m vals) keep)]
  apply List.map_congr_left
  intro x hx
  have hx' := List.any_eq_false.mp hnone' x hx
  cases x with
  | none => simp at hx'
  | some y => simp

/-- the observation the filter compares for record allele `i ≥ 1` -/
def altObservation (fld : InfoField) (obs : List (Option ℚ)) (i : ℕ) : Option (Option ℚ) :=
  match fld.number with
  | .R => obs[i]?
  | _ => obs[i - 1]?

/-- **Filter.** With `--filter-input-haplotypes <field><op><value>` on a record carrying the field, ALT allele
    `i` is retained exactly when its observation passes the predicate. -/
theorem filter_removes_exactly_failing_alts {fs : String} {f : Filter} {fld : InfoField}
    {obs : List (Option ℚ)}
    (h : locusPrior r tag (some fs) = .ok P) (hp : parseAlleleFilter fs = .ok f)
    (hf : findField r f.field = some fld) (ho : fld.values = some obs) :
    ∀ i, 1 ≤ i → i ≤ r.nAlts →
      ∃ x, altObservation fld obs i = some x ∧ cmpObs f.op f.value x = .ok (P.keep.getD i false) := by
  obtain ⟨keep, m, vals, hk, _, rfl⟩ := locusPrior_inv h
  show ∀ i, 1 ≤ i → i ≤ r.nAlts →
      ∃ x, altObservation fld obs i = some x ∧ cmpObs f.op f.value x = .ok (keep.getD i false)
  obtain ⟨_, _, _, hsome⟩ := filterKeep_inv hk
  obtain ⟨f', keep0, hp', ha, hkeep, _⟩ := hsome fs rfl
  rw [hp] at hp'
  cases hp'
  intro i hi1 hi2
  obtain ⟨fld', hf', hcase⟩ := applyAlleleFilter_inv ha
  rw [hf] at hf'
  cases hf'
  have hget : keep.getD i false = keep0.getD i false := by
    rw [hkeep]
    cases keep0 with
    | nil => cases i <;> simp at hi1 ⊢
    | cons b t => cases i with
      | zero => simp at hi1
      | succ j => simp
  rw [hget]
  rcases hcase with ⟨hnone, _, _⟩ | ⟨obs', ho', hnum, hlen, hc⟩ | ⟨obs', bs, ho', hnum, hlen, hc, rfl⟩
  · rcases hnone with hn | ⟨_, h0⟩
    · rw [ho] at hn; cases hn
    · omega
  · rw [ho] at ho'; cases ho'
    have hfa := cmpAll_forall₂ hc
    obtain ⟨hl, hg⟩ := List.forall₂_iff_get.mp hfa
    have hi : i < obs.length := by omega
    refine ⟨obs[i], by simp [altObservation, hnum, hi], ?_⟩
    have := hg i hi (hl ▸ hi)
    simp only [List.get_eq_getElem] at this
    rw [this]
    simp [List.getD_eq_getElem?_getD, List.getElem?_eq_getElem (hl ▸ hi)]
  · rw [ho] at ho'; cases ho'
    have hfa := cmpAll_forall₂ hc
    obtain ⟨hl, hg⟩ := List.forall₂_iff_get.mp hfa
    have hi : i - 1 < obs.length := by omega
    refine ⟨obs[i - 1], by simp [altObservation, hnum, hi], ?_⟩
    have := hg (i - 1) hi (hl ▸ hi)
    simp only [List.get_eq_getElem] at this
    rw [this]
    obtain ⟨j, rfl⟩ : ∃ j, i = j + 1 := ⟨i - 1, by omega⟩
    have hj : j < bs.length := by simpa using (hl ▸ hi)
    simp [List.getD_eq_getElem?_getD, List.getElem?_eq_getElem hj]

/-- the retained sequences / values are exactly those whose `keep` flag is set -/
theorem select_spec {α} (xs : List α) (keep : List Bool) (a : α) :
    a ∈ select xs keep ↔ ∃ i : ℕ, xs[i]? = some a ∧ keep[i]? = some true := mem_select

/-- **Reference.** The reference allele is never removed; it is masked exactly when the record carries
    REFMASKED or the reference fails the filter predicate (only possible for an R-length field). -/
theorem failing_ref_masked_not_removed (h : locusPrior r tag filter = .ok P) :
    P.keep.head? = some true ∧
    (filter = none → P.maskRef = r.refMasked) ∧
    (∀ fs, filter = some fs → ∃ f keep0, parseAlleleFilter fs = .ok f ∧
        applyAlleleFilter r f.field f.op f.value = .ok keep0 ∧
        P.maskRef = (r.refMasked || !keep0.headD true) ∧ P.keep.tail = keep0.tail) := by
  obtain ⟨keep, m, vals, hk, _, rfl⟩ := locusPrior_inv h
  obtain ⟨_, hhead, hnone, hsome⟩ := filterKeep_inv hk
  refine ⟨hhead, fun hn => (hnone hn).2, ?_⟩
  intro fs hfs
  obtain ⟨f, keep0, hp, ha, hkeep, hm⟩ := hsome fs hfs
  exact ⟨f, keep0, hp, ha, hm, by rw [hkeep]; rfl⟩

/-- a masked reference has raw value (hence prior) zero -/
theorem masked_ref_zero_prior (h : locusPrior r tag filter = .ok P) (hm : P.maskRef = true) :
    P.raw.head? = some 0 := by
  obtain ⟨keep, m, vals, hk, hf, rfl⟩ := locusPrior_inv h
  obtain ⟨hklen, hkhead, _, _⟩ := filterKeep_inv hk
  obtain ⟨hvlen, _, _⟩ := frequencyArray_inv hf
  have hm' : m = true := hm
  show ((select (maskedVals m vals) keep).map (fun x => x.getD 0)).head? = some 0
  cases hkeep : keep with
  | nil => simp [hkeep] at hkhead
  | cons b t =>
    simp only [hkeep, List.head?_cons, Option.some.injEq] at hkhead
    subst hkhead
    cases hvals : vals with
    | nil => simp [hvals] at hvlen
    | cons v vs => simp [maskedVals, hm', select_cons_true]

/-- **Masked alleles are never called.** Whatever genotype the sampler returns over the sub-set of
    haplotypes it was given, its relabelled alleles are record alleles that are neither the masked reference
    nor of zero prior. -/
theorem masked_never_called (g g' : List ℕ) (h : relabel (callLabels P) g = some g') :
    ∀ a ∈ g', a < P.raw.length ∧ maskAt P a = false ∧ ¬ (a = 0 ∧ P.maskRef = true) ∧
      ∀ fs, P.freqs = some fs → fs.getD a 1 ≠ 0 := by
  intro a ha
  have hmem := relabel_mem h a ha
  obtain ⟨hlt, hmask⟩ := mem_callLabels.mp hmem
  refine ⟨hlt, hmask, ?_, ?_⟩
  · rintro ⟨rfl, hm⟩
    simp [maskAt, hm] at hmask
  · intro fs hfs
    simp only [maskAt, Bool.or_eq_false_iff, freqIsZero, hfs] at hmask
    simpa using hmask.2

/-- **Zero posterior.** In the allele-count summary of any relabelled trace every masked / zero-prior
    allele has count zero (hence AFP = ACP = AOP = 0 for it). -/
theorem masked_zero_posterior (n : ℕ) (trace : List (List ℕ))
    (htrace : ∀ g' ∈ trace, ∀ a ∈ g', a ∈ callLabels P) (a : ℕ) (ha : a ∉ callLabels P) :
    (posteriorCounts n trace).getD a 0 = 0 := by
  unfold posteriorCounts
  by_cases hlt : a < n
  · simp only [List.getD_eq_getElem?_getD, List.getElem?_map, List.getElem?_range hlt, Option.map_some,
      Option.getD_some]
    induction trace with
    | nil => simp
    | cons g t ih =>
      simp only [List.map_cons, List.foldr_cons]
      have hc : g.count a = 0 := by
        apply List.count_eq_zero_of_not_mem
        intro hmem
        exact ha (htrace g (by simp) a hmem)
      rw [hc, ih (fun g' hg' => htrace g' (by simp [hg']))]
  · simp [List.getD_eq_getElem?_getD, List.getElem?_eq_none (by simpa using hlt : (List.map _ (List.range n)).length ≤ a)]

/-- the haplotypes handed to the sampler all have non-zero prior -/
theorem unmasked_positive_prior (h : locusPrior r tag filter = .ok P) :
    ∀ x ∈ callFrequencies P, x ≠ 0 := by
  intro x hx
  unfold callFrequencies at hx
  split at hx
  · simp at hx
  · rename_i fs hfs
    obtain ⟨a, ha, rfl⟩ := List.mem_map.mp hx
    obtain ⟨hlt, hmask⟩ := mem_callLabels.mp ha
    simp only [maskAt, Bool.or_eq_false_iff, freqIsZero, hfs] at hmask
    have h2 : ¬ fs.getD a 1 = 0 := by simpa using hmask.2
    have hl : a < fs.length := by rw [(locusPrior_shape h).2.2.2.2 fs hfs]; exact hlt
    simpa [List.getD_eq_getElem?_getD, List.getElem?_eq_getElem hl] using h2

/-! ### the invalid-scenario short circuit -/

theorem callLabels_nonempty_of_freqs (h : locusPrior r tag filter = .ok P) {fs : List ℚ}
    (hfs : P.freqs = some fs) : callLabels P ≠ [] := by
  obtain ⟨_, hpos, _, hmap⟩ := (freq_normalised h).1 fs hfs
  obtain ⟨x, hx, hx0⟩ := sumRat_pos_exists hpos
  obtain ⟨a, ha, rfl⟩ := List.getElem_of_mem hx
  have hmem : a ∈ callLabels P := by
    rw [mem_callLabels]
    refine ⟨ha, ?_⟩
    simp only [maskAt, Bool.or_eq_false_iff, Bool.and_eq_false_imp, beq_iff_eq, freqIsZero, hfs]
    constructor
    · rintro rfl
      by_contra hm
      have hm' : P.maskRef = true := by simpa using hm
      have h0 := masked_ref_zero_prior h hm'
      rw [List.head?_eq_getElem?, List.getElem?_eq_getElem ha] at h0
      have : P.raw[0] = 0 := Option.some.inj h0
      linarith
    · have hl : a < fs.length := by rw [(locusPrior_shape h).2.2.2.2 fs hfs]; exact ha
      have hval : fs[a] = P.raw[a] / sumRat P.raw := by simp [hmap]
      have : fs[a] ≠ 0 := by
        rw [hval]; exact ne_of_gt (div_pos hx0 hpos)
      simpa [List.getD_eq_getElem?_getD, List.getElem?_eq_getElem hl] using this
  intro hnil
  rw [hnil] at hmem
  simp at hmem

/-- `call` / `call-pedigree` and `call-exact` take the same branch on every record -/
theorem call_exact_same_scenario (h : locusPrior r tag filter = .ok P) :
    callScenario P = exactScenario P := by
  obtain ⟨_, _, _, hn1, _⟩ := locusPrior_shape h
  cases hfs : P.freqs with
  | some fs =>
    have hne := callLabels_nonempty_of_freqs h hfs
    have hpos := ((freq_normalised h).1 fs hfs).2.1
    have hex : ¬ (P.maskRef = true ∧ P.raw.length = 1) := by
      rintro ⟨hm, hl⟩
      have h0 := masked_ref_zero_prior h hm
      obtain ⟨x, hx⟩ : ∃ x, P.raw = [x] := List.length_eq_one_iff.mp hl
      rw [hx] at h0 hpos
      simp only [List.head?_cons, Option.some.injEq] at h0
      subst h0
      simp [sumRat] at hpos
    have hne' : (callLabels P).isEmpty = false := by
      cases hc : callLabels P with
      | nil => exact absurd hc hne
      | cons _ _ => rfl
    have hex' : (P.maskRef && P.raw.length == 1) = false := by
      by_contra hcon
      have : (P.maskRef && P.raw.length == 1) = true := by simpa using hcon
      simp only [Bool.and_eq_true, beq_iff_eq] at this
      exact hex this
    simp [callScenario, exactScenario, hne', hex', hfs]
  | none =>
    have hlab : callLabels P = (List.range P.raw.length).filter (fun i => !(i == 0 && P.maskRef)) := by
      unfold callLabels
      apply List.filter_congr
      intro i _
      simp [maskAt, freqIsZero, hfs]
    by_cases hm : P.maskRef = true
    · by_cases hl : P.raw.length = 1
      · have : callLabels P = [] := by rw [hlab, hl]; simp [hm, List.range_succ]
        simp [callScenario, exactScenario, this, hm, hl]
      · have h1 : 1 ∈ callLabels P := by
          rw [hlab, List.mem_filter]
          exact ⟨List.mem_range.mpr (by omega), by simp⟩
        have hne' : (callLabels P).isEmpty = false := by
          cases hc : callLabels P with
          | nil => rw [hc] at h1; simp at h1
          | cons _ _ => rfl
        simp [callScenario, exactScenario, hne', hm, hl, hfs]
    · have hm' : P.maskRef = false := by simpa using hm
      have h0 : 0 ∈ callLabels P := by
        rw [hlab, List.mem_filter]
        exact ⟨List.mem_range.mpr (by omega), by simp [hm']⟩
      have hne' : (callLabels P).isEmpty = false := by
        cases hc : callLabels P with
        | nil => rw [hc] at h0; simp at h0
        | cons _ _ => rfl
      simp [callScenario, exactScenario, hne', hm', hfs]

/-- **No usable allele.** The record is processed normally exactly when no retained value is missing and the
    retained values have a positive sum; otherwise it takes the NOA / AF0 branch (missing calls, no sampler
    run). In particular a record whose retained alleles all have value zero — or whose only allele is the masked
    reference — is never sampled. With non-negative values "positive sum" is "some retained allele has a
    positive value". -/
theorem no_usable_allele_is_filtered (h : locusPrior r tag filter = .ok P) :
    (callScenario P = .valid ↔ P.nanRaw = false ∧ 0 < sumRat P.raw) ∧
    (exactScenario P = .valid ↔ P.nanRaw = false ∧ 0 < sumRat P.raw) ∧
    ((∀ x ∈ P.raw, x = 0) → callScenario P ≠ .valid) ∧
    ((∀ x ∈ P.raw, 0 ≤ x) → (callScenario P = .valid ↔ P.nanRaw = false ∧ ∃ x ∈ P.raw, 0 < x)) ∧
    (callScenario P = .noa ↔ P.maskRef = true ∧ P.raw.length = 1) := by
  have hsame := call_exact_same_scenario h
  have hvalid : callScenario P = .valid ↔ P.nanRaw = false ∧ 0 < sumRat P.raw := by
    cases hfs : P.freqs with
    | some fs =>
      have hne := callLabels_nonempty_of_freqs h hfs
      obtain ⟨hnan, hpos, _, _⟩ := (freq_normalised h).1 fs hfs
      have hne' : (callLabels P).isEmpty = false := by
        cases hc : callLabels P with
        | nil => exact absurd hc hne
        | cons _ _ => rfl
      simp [callScenario, hne', hfs, hpos, hnan]
    | none =>
      have hle := (freq_normalised h).2.mp hfs
      have : ¬ (P.nanRaw = false ∧ 0 < sumRat P.raw) := by
        rintro ⟨h1, h2⟩
        rcases hle with h3 | h3
        · rw [h1] at h3; cases h3
        · exact absurd h2 (not_lt.mpr h3)
      simp only [this, iff_false]
      unfold callScenario
      split
      · simp
      · simp [hfs]
  refine ⟨hvalid, hsame ▸ hvalid, ?_, ?_, ?_⟩
  · intro hz hv
    have := (hvalid.mp hv).2
    rw [sumRat_zero_of_all_zero hz] at this
    exact lt_irrefl _ this
  · intro hnn
    rw [hvalid]
    exact and_congr_right (fun _ => ⟨sumRat_pos_exists, sumRat_pos_of_nonneg hnn⟩)
  · rw [hsame]
    unfold exactScenario
    by_cases hc : (P.maskRef && P.raw.length == 1) = true
    · simp only [hc, if_true, true_iff]
      simpa using hc
    · have hc' : (P.maskRef && P.raw.length == 1) = false := by simpa using hc
      simp only [hc', Bool.false_eq_true, if_false]
      constructor
      · intro hx; split at hx <;> cases hx
      · intro hx
        exfalso
        apply hc
        simpa using hx

/-! ### length of the reported arrays -/

/-- **Array length (program path).** `call` / `call-pedigree` relabel with `n_allele = len(haplotypes)`: the
    relabelled trace has one slot per retained record allele (= 1 + number of ALTs printed), every relabelled
    allele indexes inside it, and so does the per-allele summary (AFP / ACP / AOP) of any trace. -/
theorem arrays_have_record_length (h : locusPrior r tag filter = .ok P) :
    callNAllele P = P.raw.length ∧ callNAllele P = (P.keep.filter id).length ∧
    (∀ trace, (posteriorCounts (callNAllele P) trace).length = (P.keep.filter id).length) ∧
    (∀ g g', relabel (callLabels P) g = some g' → ∀ a ∈ g', a < callNAllele P) := by
  have hlen := (locusPrior_shape h).2.2.1
  refine ⟨rfl, hlen, ?_, ?_⟩
  · intro trace
    simp only [posteriorCounts, List.length_map, List.length_range]
    exact hlen
  · intro g g' hg a ha
    exact (mem_callLabels.mp (relabel_mem hg a ha)).1

/-- **Default of `relabel`.** Without `n_allele` the trace believes it has `labels.max()+1` alleles.  That is the
    number of retained record alleles exactly when the highest-numbered retained allele is not masked. -/
theorem relabel_default_n_allele_iff (hne : callLabels P ≠ []) :
    relabelNAllele (callLabels P) = P.raw.length ↔ maskAt P (P.raw.length - 1) = false := by
  unfold relabelNAllele
  have hall : ∀ a ∈ callLabels P, a < P.raw.length := fun a ha => (mem_callLabels.mp ha).1
  have hmem : (callLabels P).foldl max 0 ∈ callLabels P := by
    rcases foldl_max_mem (l := callLabels P) (init := 0) with h0 | hm
    · cases hc : callLabels P with
      | nil => exact absurd hc hne
      | cons x t =>
        have hx : x ≤ (callLabels P).foldl max 0 := le_foldl_max (by rw [hc]; simp)
        rw [h0] at hx
        have : x = 0 := by omega
        rw [hc] at h0; rw [h0, this]; simp
    · exact hm
  constructor
  · intro heq
    have : (callLabels P).foldl max 0 = P.raw.length - 1 := by omega
    rw [this] at hmem
    exact (mem_callLabels.mp hmem).2
  · intro hmask
    have hpos : 0 < P.raw.length := by
      cases hc : callLabels P with
      | nil => exact absurd hc hne
      | cons x t => have := hall x (by rw [hc]; simp); omega
    have hlast : P.raw.length - 1 ∈ callLabels P := mem_callLabels.mpr ⟨by omega, hmask⟩
    have h1 := le_foldl_max (init := 0) hlast
    have h2 := hall _ hmem
    omega

/-- machine-checked counter-example for the default: three retained alleles, the last with zero prior — the
    sampler sees labels `[0, 1]`, `relabel(labels)` alone would report 2 alleles, the program path reports 3 -/
theorem relabel_n_allele_counterexample :
    let P : LocusPriorM := { keep := [true, true, true], maskRef := false, raw := [1, 1, 0], nanRaw := false,
                             freqs := some [1/2, 1/2, 0] }
    callLabels P = [0, 1] ∧ callScenario P = .valid ∧ relabelNAllele (callLabels P) = 2 ∧ P.raw.length = 3 ∧
      callNAllele P = 3 := by
  decide +kernel

/-! ### non-vacuity and concrete instances -/

/-- the record `PF=0.5,0.25,0,0.25` with `--prior-frequencies PF --filter-input-haplotypes PF<0.5`:
    the failing reference is kept and masked, nothing else is removed, the prior is `0, 1/2, 0, 1/2` -/
example :
    let r : RecordM := RecordM.mk 3 false
      [InfoField.mk "PF" .R false (some [some (1/2), some (1/4), some 0, some (1/4)])]
    (locusPrior r (some "PF") (some "PF<0.5")).toOption.map (fun P => (P.keep, P.maskRef, P.freqs, callLabels P))
      = some ([true, true, true, true], true, some [0, 1/2, 0, 1/2], [1, 3]) := by
  decide +kernel

/-- an all-zero vector gives the NaN prior and the AF0 branch; a masked lone reference gives NOA -/
example :
    let r : RecordM := RecordM.mk 1 false
      [InfoField.mk "PF" .R false (some [some 0, some 0])]
    (locusPrior r (some "PF") none).toOption.map (fun P => (P.freqs, callScenario P, exactScenario P))
      = some (none, .af0, .af0) := by
  decide +kernel

example :
    let r : RecordM := RecordM.mk 0 true []
    (locusPrior r none none).toOption.map (fun P => (callScenario P, exactScenario P)) = some (.noa, .noa) := by
  decide +kernel

/-- the regex's oddities: `==` is accepted, `<>` matches but is no comparator, `,` is a decimal separator
    the conversion rejects, one trailing newline is tolerated -/
example : parseAlleleFilter "AF>=0.5" = .ok { field := "AF", op := .ge, value := 1/2, isInt := false } := by decide +kernel
example : parseAlleleFilter "AF==3" = .ok { field := "AF", op := .eq, value := 3, isInt := true } := by decide +kernel
example : parseAlleleFilter "AF<>1" = .error .invalidOperator := by decide +kernel
example : parseAlleleFilter "AF=1,5" = .error .nonNumeric := by decide +kernel
example : parseAlleleFilter "AF>1\n" = .ok { field := "AF", op := .gt, value := 1, isInt := true } := by decide +kernel
example : parseAlleleFilter "AF=<1" = .error .invalidFilter := by decide +kernel

/-- an Integer INFO field as frequency tag is normalised like a Float one -/
example :
    let r : RecordM := RecordM.mk 1 false
      [InfoField.mk "IR" .R true (some [some 1, some 2])]
    (locusPrior r (some "IR") none).toOption.map (·.freqs) = some (some [1/3, 2/3]) := by
  decide +kernel

/-- a missing entry among the retained frequency values gives the all-NaN prior (AF0), not an exception -/
example :
    let r : RecordM := RecordM.mk 1 false
      [InfoField.mk "PF" .R false (some [some 1, none])]
    (locusPrior r (some "PF") none).toOption.map (fun P => (P.nanRaw, P.freqs, callScenario P))
      = some (true, none, .af0) := by
  decide +kernel

end MCHap.C16
