import MCHap.Model.Comb
/-
Model of the VCF record layer of `mchap assemble / call / call-exact / call-pedigree`:

* producers (mirroring the code as it is)
  - `genotypeAsAlleles`, `gtEntries`, `formatGT`   : `assemble._genotype_as_alleles`, `io/vcf/records.py:format_sample_field`
  - `countAlleles`, `summarise`                    : `baseclass.py:sumarise_vcf_record` (AC / AN / UAN / NS / MCI / DP / RCOUNT, R-length sums)
  - `gpArraySize`, `assembleGPSize`, `assembleGPArray` : `assemble._genotype_posterior_as_array` (`n_alleles`, default `len(labels)`)
  - `callGArraySize`                               : `calling/classes.py:as_array`, `calling/exact.py:genotype_likelihoods`
  - `relabelNAllele`, `callRelabelNAllele`         : `GenotypeAllelesMultiTrace.relabel` (`n_allele`, default `labels.max() + 1`)
  - `round3`, `vcfstrScalar`, `vcfstrArrayElem`    : `io/vcf/util.py:vcfstr` on exact rationals
* the validator `validRecord : Header → Record → Ctx → Except Err Unit` deciding every conjunct of C07 on
  a parsed record, and `parseLine` (columns of a text line → `Record`).

Core Lean only (compiled into the native driver).
-/
namespace MCHap.Vcf
open MCHap

/-! ## characters, strict decimal parsing -/

def splitOn (sep : Char) : List Char → List (List Char)
  | [] => [[]]
  | c :: cs =>
    if c = sep then [] :: splitOn sep cs
    else match splitOn sep cs with
      | [] => [[c]]
      | h :: t => (c :: h) :: t

def splitStr (sep : Char) (s : String) : List String :=
  (splitOn sep s.toList).map String.ofList

def digitVal (c : Char) : Nat := c.toNat - 48

def digitsVal (s : List Char) : Nat := s.foldl (fun acc c => 10 * acc + digitVal c) 0

/-- canonical non-negative integer: digits only, non-empty, no leading zero unless it is "0" -/
def parseNat? (s : List Char) : Option Nat :=
  match s with
  | [] => none
  | c :: rest =>
    if s.all Char.isDigit && (c != '0' || rest.isEmpty) then some (digitsVal s) else none

def parseInt? (s : List Char) : Option Int :=
  match s with
  | '-' :: rest => (parseNat? rest).map (fun n => -(n : Int))
  | _ => (parseNat? s).map (fun n => (n : Int))

/-- a numeric VCF value: `.`, a finite decimal (value and number of fractional digits), or one of the
    non-finite tokens the VCF 4.3 grammar allows -/
inductive Num
  | missing
  | val (q : Rat) (decimals : Nat)
  | special
  deriving Repr, DecidableEq

def pow10 (n : Nat) : Nat := 10 ^ n

/-- `[-]int[.frac]`; the integer part may also be `-0` (numpy prints negative zero) -/
def parseDec? (s : List Char) : Option Num :=
  if s = ['.'] then some .missing else
  let (neg, body) := match s with
    | '-' :: r => (true, r)
    | _ => (false, s)
  let lower := body.map Char.toLower
  if lower = "inf".toList || lower = "infinity".toList || lower = "nan".toList then some .special else
  match splitOn '.' body with
  | [ip] => (parseNat? ip).map (fun n => .val (if neg then -(n : Rat) else (n : Rat)) 0)
  | [ip, fp] =>
    match parseNat? ip with
    | none => none
    | some n =>
      if fp.isEmpty || !fp.all Char.isDigit then none else
      let q : Rat := (n : Rat) + (digitsVal fp : Rat) / (pow10 fp.length : Rat)
      some (.val (if neg then -q else q) fp.length)
  | _ => none

/-! ## header -/

inductive Number
  | fixed (n : Nat)
  | A | R | G | dot
  deriving Repr, DecidableEq

inductive VType
  | integer | float | string | flag | character
  deriving Repr, DecidableEq

structure Decl where
  id : String
  number : Number
  type : VType
  deriving Repr, DecidableEq

structure Header where
  info : List Decl
  format : List Decl
  filters : List String
  deriving Repr

def findDecl (ds : List Decl) (key : String) : Option Decl := ds.find? (fun d => d.id == key)

/-- number of values a field must carry in a record with `nAlt` ALT alleles for a sample of the given
    ploidy.  The allele count of a record is always `nAlt + 1`: REF stays allele 0 when the record
    carries `REFMASKED`, and a record without ALT has exactly one allele. `none` = unconstrained. -/
def expectedCard (nAlt ploidy : Nat) : Number → Option Nat
  | .fixed n => some n
  | .A => some nAlt
  | .R => some (nAlt + 1)
  | .G => some (cwr (nAlt + 1) ploidy)
  | .dot => none

/-! ## records -/

structure Record where
  chrom : String
  pos : Nat
  id : String
  ref : List Char
  alt : List (List Char)                       -- `[]` for `.`
  qual : String
  filter : List String
  info : List (String × Option (List String))  -- `none`: a flag (key without `=`)
  format : List String
  samples : List (List (List String))          -- sample → FORMAT position → values split on `,`
  deriving Repr

/-- what the record is checked against: ploidy of each sample column (from the ploidy file), the reference
    sequence of `[POS, END]`, and the input variants inside the window as (1-based offset, alleles with
    the reference base first) -/
structure Ctx where
  ploidies : List Nat
  refWindow : List Char
  snvs : List (Nat × List Char)
  deriving Repr

def Record.nAlt (r : Record) : Nat := r.alt.length

def Record.infoVals (r : Record) (key : String) : Option (Option (List String)) :=
  (r.info.find? (fun kv => kv.1 == key)).map (·.2)

/-- values of a FORMAT key for every sample (`none` when the key is not in FORMAT) -/
def Record.sampleVals (r : Record) (key : String) : Option (List (List String)) :=
  let i := r.format.idxOf key
  if i < r.format.length then some (r.samples.map (fun s => s.getD i [])) else none

/-! ## GT -/

def parseGTEntry (t : List Char) : Option (Option Nat) :=
  if t = ['.'] then some none else (parseNat? t).map some

def parseGT (s : String) : Option (List (Option Nat)) :=
  (splitOn '/' s.toList).mapM parseGTEntry

/-- order of GT entries: numbers ascending, `.` after every number -/
def gtLeB : Option Nat → Option Nat → Bool
  | some x, some y => x ≤ y
  | none, some _ => false
  | _, none => true

def gtSortedB : List (Option Nat) → Bool
  | [] => true
  | a :: t => t.all (gtLeB a) && gtSortedB t

def gtAllelesOkB (nAlt : Nat) (g : List (Option Nat)) : Bool :=
  g.all (fun a => match a with | none => true | some x => x ≤ nAlt)

/-- GT string of one sample column (first FORMAT key must be GT, a single value) -/
def sampleGT (r : Record) (s : List (List String)) : Option (List (Option Nat)) :=
  match r.format, s with
  | "GT" :: _, [g] :: _ => parseGT g
  | _, _ => none

def gtOkB (r : Record) (s : List (List String)) (ploidy : Nat) : Bool :=
  match sampleGT r s with
  | none => false
  | some g => g.length == ploidy && gtAllelesOkB r.nAlt g && gtSortedB g

def gtCheckB (r : Record) (c : Ctx) : Bool :=
  r.samples.length == c.ploidies.length && (r.samples.zip c.ploidies).all (fun sp => gtOkB r sp.1 sp.2)

/-! ### the producers' GT formatting -/

/-- `_genotype_as_alleles`: labels (−1 = not a listed haplotype), `np.sort`, then the negatives moved last -/
def genotypeAsAlleles (labels : List Int) : List Int :=
  let sorted := labels.mergeSort (fun a b => decide (a ≤ b))
  sorted.filter (fun a => decide (0 ≤ a)) ++ sorted.filter (fun a => decide (a < 0))

def gtEntry (a : Int) : Option Nat := if 0 ≤ a then some a.toNat else none

def gtEntries (alleles : List Int) : List (Option Nat) := alleles.map gtEntry

def renderEntry : Option Nat → String
  | some n => toString n
  | none => "."

/-- `"/".join(str(a) if a >= 0 else "." for a in g)` -/
def formatGT (alleles : List Int) : String := "/".intercalate ((gtEntries alleles).map renderEntry)

/-! ## cardinality and declared keys -/

def cardOkB (nAlt ploidy : Nat) (d : Decl) (vals : List String) : Bool :=
  vals == ["."] ||
    match expectedCard nAlt ploidy d.number with
    | some n => vals.length == n
    | none => 1 ≤ vals.length

def valueTypeOkB (t : VType) (v : String) : Bool :=
  match t with
  | .integer => v == "." || (parseInt? v.toList).isSome
  | .float => (parseDec? v.toList).isSome
  | .flag => false
  | .string | .character => !v.isEmpty

/-- INFO: key declared; a flag has no value and Number 0; any other field has values of the declared
    cardinality (a G-length INFO field is rejected: there is no ploidy to size it with) and type -/
def infoEntryOkB (h : Header) (nAlt : Nat) (kv : String × Option (List String)) : Bool :=
  match findDecl h.info kv.1 with
  | none => false
  | some d =>
    match kv.2 with
    | none => d.type == .flag && d.number == .fixed 0
    | some vals => d.type != .flag && d.number != .G && cardOkB nAlt 0 d vals && vals.all (valueTypeOkB d.type)

def formatEntryOkB (h : Header) (nAlt ploidy : Nat) (kv : String × List String) : Bool :=
  match findDecl h.format kv.1 with
  | none => false
  | some d => d.type != .flag && cardOkB nAlt ploidy d kv.2 && kv.2.all (valueTypeOkB d.type)

def sampleCardOkB (h : Header) (r : Record) (s : List (List String)) (ploidy : Nat) : Bool :=
  s.length == r.format.length && (r.format.zip s).all (formatEntryOkB h r.nAlt ploidy)

def cardCheckB (h : Header) (r : Record) (c : Ctx) : Bool :=
  r.info.all (infoEntryOkB h r.nAlt) &&
  r.samples.length == c.ploidies.length &&
  (r.samples.zip c.ploidies).all (fun sp => sampleCardOkB h r sp.1 sp.2)

def filterCheckB (h : Header) (r : Record) : Bool :=
  !r.filter.isEmpty && r.filter.all (fun f => f == "PASS" || h.filters.contains f)

/-! ## sequences -/

def altOkB (ref : List Char) (snvs : List (Nat × List Char)) (alt : List Char) : Bool :=
  alt.length == ref.length &&
  (List.range ref.length).all (fun i =>
    ref[i]? == alt[i]? || snvs.any (fun s => s.1 == i + 1 && s.2.contains (alt.getD i ' ')))

def nodupB : List (List Char) → Bool
  | [] => true
  | a :: t => !t.contains a && nodupB t

def infoNats (r : Record) (key : String) : Option (List Nat) :=
  match r.infoVals key with
  | some (some vals) => if vals == ["."] then some [] else vals.mapM (fun v => parseNat? v.toList)
  | _ => none

/-- REF is the reference window, END closes it, SNVPOS / NVAR are the input variants of the window, each
    input variant sits inside the window on its own reference base, every ALT has REF's length and differs
    from REF only at an input variant by one of its alleles; ALTs are distinct and differ from REF -/
def seqCheckB (r : Record) (c : Ctx) : Bool :=
  r.ref == c.refWindow && !r.ref.isEmpty &&
  infoNats r "END" == some [r.pos + r.ref.length - 1] &&
  infoNats r "NVAR" == some [c.snvs.length] &&
  infoNats r "SNVPOS" == some (c.snvs.map (·.1)) &&
  c.snvs.all (fun s => 1 ≤ s.1 && s.1 ≤ r.ref.length && s.2.head? == r.ref[s.1 - 1]?) &&
  r.alt.all (altOkB r.ref c.snvs) &&
  nodupB (r.ref :: r.alt)

/-! ## summarisation (`sumarise_vcf_record`) -/

/-- `allele_counts[a] += 1` -/
def incAt : List Nat → Nat → List Nat
  | [], _ => []
  | x :: xs, 0 => (x + 1) :: xs
  | x :: xs, a + 1 => x :: incAt xs a

/-- one GT entry: nulls are skipped, an allele beyond the array is the code's `IndexError` -/
def bump (counts : List Nat) : Option Nat → Option (List Nat)
  | none => some counts
  | some a => if a < counts.length then some (incAt counts a) else none

def countGenotype (counts : List Nat) (g : List (Option Nat)) : Option (List Nat) :=
  g.foldlM bump counts

/-- the double loop over `sampledata[GT]`, starting from `np.zeros(len(ALT) + 1)` -/
def countAlleles (nAlt : Nat) (gts : List (List (Option Nat))) : Option (List Nat) :=
  gts.foldlM countGenotype (List.replicate (nAlt + 1) 0)

def hasCall (g : List (Option Nat)) : Bool := g.any Option.isSome

structure GTSummary where
  ac : List Nat      -- per ALT
  an : Nat
  uan : Nat
  ns : Nat
  deriving Repr, DecidableEq

def summariseGT (nAlt : Nat) (gts : List (List (Option Nat))) : Option GTSummary :=
  (countAlleles nAlt gts).map (fun c =>
    { ac := c.tail, an := c.sum, uan := c.countP (fun x => decide (0 < x)), ns := gts.countP hasCall })

/-- `np.nansum` of per-sample integers -/
def nanSum (vals : List (Option Int)) : Int := (vals.filterMap id).sum

/-- number of samples with `MCI > 0` (`nan > 0` is false) -/
def mciCount (vals : List (Option Int)) : Nat := vals.countP (fun v => match v with | some x => decide (0 < x) | none => false)

/-- INFO DP: missing when the locus has no variants, else the nan-sum of the sample depths -/
def infoDP (nVar : Nat) (vals : List (Option Int)) : Option Int := if nVar = 0 then none else some (nanSum vals)

/-- numpy broadcasting of two 1-d arrays under a binary operation: equal lengths, or one of them has
    length one; `none` is numpy's broadcast error.  A missing operand (`nan`) gives a missing result. -/
def broadcast2 (f : Rat → Rat → Rat) (a b : List (Option Rat)) : Option (List (Option Rat)) :=
  let g : Option Rat → Option Rat → Option Rat := fun x y =>
    match x, y with | some x, some y => some (f x y) | _, _ => none
  if a.length = b.length then some ((a.zip b).map (fun xy => g xy.1 xy.2))
  else match a, b with
    | [x], _ => some (b.map (g x))
    | _, [y] => some (a.map (fun x => g x y))
    | _, _ => none

def addRows (a b : List (Option Rat)) : Option (List (Option Rat)) := broadcast2 (· + ·) a b

/-- Python's `sum(values)`: `0 + v₁ + v₂ + …` (left to right) -/
def sumRows : List (List (Option Rat)) → Option (List (Option Rat))
  | [] => some [some 0]
  | a :: rest => rest.foldlM addRows a

/-- `_X = null_length_R if np.isnan(_X).all() else _X` -/
def nullIfAllNan (nAllele : Nat) (v : List (Option Rat)) : List (Option Rat) :=
  if v.all Option.isNone then List.replicate nAllele none else v

def infoACP (nAlt : Nat) (rows : List (List (Option Rat))) : Option (List (Option Rat)) :=
  (sumRows rows).map (nullIfAllNan (nAlt + 1))

def infoAFP (nAlt : Nat) (rows : List (List (Option Rat))) (totalPloidy : Nat) : Option (List (Option Rat)) :=
  (sumRows rows).map (fun s => nullIfAllNan (nAlt + 1) (s.map (fun x => x.map (· / (totalPloidy : Rat)))))

/-- INFO AOP: `1 − ∏ (1 − occur)` starting from `np.ones(len(ALT) + 1)` -/
def infoAOP (nAlt : Nat) (rows : List (List (Option Rat))) : Option (List (Option Rat)) :=
  (rows.foldlM (fun acc row => broadcast2 (fun x y => x * (1 - y)) acc row)
    (List.replicate (nAlt + 1) (some (1 : Rat)))).map (fun p => p.map (fun x => x.map (1 - ·)))

/-! ### validator side of the summary -/

def parseOptInt (v : String) : Option (Option Int) :=
  if v == "." then some none else (parseInt? v.toList).map some

def infoInts (r : Record) (key : String) : Option (List (Option Int)) :=
  match r.infoVals key with
  | some (some vals) => vals.mapM parseOptInt
  | _ => none

/-- one integer per sample for a Number=1 FORMAT key -/
def sampleInts (r : Record) (key : String) : Option (List (Option Int)) :=
  match r.sampleVals key with
  | none => none
  | some cols => cols.mapM (fun vals => match vals with | [v] => parseOptInt v | _ => none)

def parseOptRat (v : String) : Option (Option Rat) :=
  match parseDec? v.toList with
  | some .missing => some none
  | some (.val q _) => some (some q)
  | _ => none

def sampleRats (r : Record) (key : String) : Option (List (List (Option Rat))) :=
  match r.sampleVals key with
  | none => none
  | some cols => cols.mapM (fun vals => vals.mapM parseOptRat)

def infoRats (r : Record) (key : String) : Option (List (Option Rat)) :=
  match r.infoVals key with
  | some (some vals) => vals.mapM parseOptRat
  | _ => none

def recordGTs (r : Record) : Option (List (List (Option Nat))) := r.samples.mapM (sampleGT r)

/-- float64 slack on top of the decimal rounding bound: covers the `2^-53` relative errors of
    `x·1000`, of the sums and of the division for up to 10^3 samples / allele counts up to 10^3 -/
def floatSlack : Rat := 1 / 1000000000

/-- a value printed with 3 decimals is within 1/2000 of the internal one.  An INFO value that is the
    rounded weighted sum `Σ wᵢ xᵢ` of internal per-sample values therefore lies within `(Σ wᵢ + 1)/2000` of
    the same weighted sum of the printed per-sample values (`C07.sum_round_tolerance`); `W = Σ wᵢ`. -/
def sumTol (W : Rat) : Rat := (W + 1) / 2000 + floatSlack

def absRat (q : Rat) : Rat := if q < 0 then -q else q

def closeRow (tol : Rat) (a b : List (Option Rat)) : Bool :=
  a.length == b.length && (a.zip b).all (fun xy =>
    match xy.1, xy.2 with
    | none, none => true
    | some x, some y => decide (absRat (x - y) ≤ tol)
    | _, _ => false)

def eqOpt {α} [BEq α] (a b : Option α) : Bool := a == b

/-- AC/AN/UAN/NS from the GT columns; MCI, DP, RCOUNT from their sample fields -/
def intCountsB (r : Record) (c : Ctx) : Bool :=
  match recordGTs r with
  | none => false
  | some gts =>
    match summariseGT r.nAlt gts with
    | none => false
    | some s =>
      infoInts r "AC" == some (if r.nAlt = 0 then [none] else s.ac.map (fun (x : Nat) => some (Int.ofNat x))) &&
      infoInts r "AN" == some [some (s.an : Int)] &&
      infoInts r "UAN" == some [some (s.uan : Int)] &&
      infoInts r "NS" == some [some (s.ns : Int)] &&
      (match sampleInts r "MCI" with
        | none => false
        | some v => infoInts r "MCI" == some [some (mciCount v : Int)]) &&
      (match sampleInts r "DP" with
        | none => false
        | some v => infoInts r "DP" == some [infoDP c.snvs.length v]) &&
      (match sampleInts r "RCOUNT" with
        | none => false
        | some v => infoInts r "RCOUNT" == some [some (nanSum v)])

def scaleRows (rows : List (List (Option Rat))) (ws : List Nat) : List (List (Option Rat)) :=
  (rows.zip ws).map (fun rw => rw.1.map (fun x => x.map (· * (rw.2 : Rat))))

/-- an R-length INFO field against the recomputation from a FORMAT field; skipped (true) when the
    FORMAT field is not reported. A sample whose field is the single `.` (invalid-scenario records)
    counts as all-missing. -/
def rFieldB (r : Record) (info : String) (expected : Option (List (Option Rat))) (tol : Rat) : Bool :=
  match expected with
  | none => false
  | some e =>
    match infoRats r info with
    | none => false
    | some v => closeRow tol v e

/-- per-sample posterior allele counts as printed: FORMAT/ACP (weight 1 each), else FORMAT/AFP × ploidy
    (weight = ploidy each); with the total weight `W = Σ wᵢ` -/
def acpRows (r : Record) (c : Ctx) : Option (List (List (Option Rat)) × Rat) :=
  match sampleRats r "ACP" with
  | some rows => some (rows, (r.samples.length : Rat))
  | none =>
    match sampleRats r "AFP" with
    | some rows => some (scaleRows rows c.ploidies, (c.ploidies.sum : Rat))
    | none => none

def floatCountsB (r : Record) (c : Ctx) : Bool :=
  let n : Rat := (r.samples.length : Rat)
  let P := c.ploidies.sum
  (match r.infoVals "ACP", acpRows r c with
    | some _, some (rows, W) => rFieldB r "ACP" (infoACP r.nAlt rows) (sumTol W)
    | _, _ => true) &&
  (match r.infoVals "AFP", acpRows r c with
    | some _, some (rows, W) => rFieldB r "AFP" (infoAFP r.nAlt rows P) (sumTol (W / (P : Rat)))
    | _, _ => true) &&
  (match r.infoVals "AOPSUM", sampleRats r "AOP" with
    | some _, some rows => rFieldB r "AOPSUM" ((sumRows rows).map (nullIfAllNan (r.nAlt + 1))) (sumTol n)
    | _, _ => true) &&
  (match r.infoVals "AOP", sampleRats r "AOP" with
    | some _, some rows => rFieldB r "AOP" (infoAOP r.nAlt rows) (sumTol n)
    | _, _ => true) &&
  (match r.infoVals "SNVDP", sampleRats r "SNVDP" with
    | some _, some rows =>
      if c.snvs.length = 0 then infoRats r "SNVDP" == some [none]
      else rFieldB r "SNVDP" (sumRows rows) 0
    | _, _ => true)

/-- printed floats carry at most three decimals -/
def decimalsOkB (r : Record) : Bool :=
  let ok (v : String) : Bool := match parseDec? v.toList with
    | some (.val _ d) => d ≤ 3
    | _ => true
  r.info.all (fun kv => match kv.2 with | none => true | some vals => vals.all ok) &&
  r.samples.all (fun s => (r.format.zip s).all (fun kv => kv.1 == "GT" || kv.2.all ok))

/-! ## the validator -/

inductive Err
  | filter | keysCard | gt | seq | intCounts | floatCounts | decimals
  deriving Repr, DecidableEq

def Err.name : Err → String
  | .filter => "filter"
  | .keysCard => "keys-cardinality-type"
  | .gt => "gt"
  | .seq => "ref-alt-snv"
  | .intCounts => "counts"
  | .floatCounts => "float-sums"
  | .decimals => "decimals"

def checks (h : Header) (r : Record) (c : Ctx) : List (Bool × Err) :=
  [ (filterCheckB h r, .filter),
    (cardCheckB h r c, .keysCard),
    (gtCheckB r c, .gt),
    (seqCheckB r c, .seq),
    (intCountsB r c, .intCounts),
    (floatCountsB r c, .floatCounts),
    (decimalsOkB r, .decimals) ]

def validRecord (h : Header) (r : Record) (c : Ctx) : Except Err Unit :=
  match (checks h r c).find? (fun b => !b.1) with
  | some b => .error b.2
  | none => .ok ()

/-! ## text line → record -/

def parseInfo (s : String) : List (String × Option (List String)) :=
  if s == "." then [] else
  (splitStr ';' s).map (fun item =>
    match splitOn '=' item.toList with
    | [k] => (String.ofList k, none)
    | k :: rest => (String.ofList k, some (splitStr ',' (String.ofList (List.intercalate ['='] rest))))
    | [] => ("", none))

/-- the tab-separated columns of a record line -/
def parseLine (cols : List String) : Option Record :=
  match cols with
  | chrom :: pos :: id :: ref :: alt :: qual :: filt :: info :: fmt :: samples =>
    (parseNat? pos.toList).map (fun p =>
      { chrom := chrom, pos := p, id := id, ref := ref.toList,
        alt := if alt == "." then [] else (splitOn ',' alt.toList),
        qual := qual, filter := splitStr ';' filt, info := parseInfo info,
        format := splitStr ':' fmt,
        samples := samples.map (fun s => (splitStr ':' s).map (splitStr ',')) })
  | _ => none

/-! ## G-array producers -/

/-- `calling/classes.py:as_array(len(haplotypes))`, `calling/exact.py:genotype_likelihoods`: sized with the
    number of haplotypes of the record (REF + ALT, masked or not) -/
def callGArraySize (nAlt ploidy : Nat) : Nat := cwr (nAlt + 1) ploidy

/-- number of entries of `labels` in assemble: the reference haplotype is popped when it was not called -/
def assembleNLabels (nAlt : Nat) (refCalled : Bool) : Nat := if refCalled then nAlt + 1 else nAlt

/-- `assemble._genotype_posterior_as_array(posterior, labels, n_alleles=None)`: the array is sized with
    `n_alleles`, by default `len(labels)` -/
def gpArraySize (nLabels : Nat) (nAlleles : Option Nat) (ploidy : Nat) : Nat :=
  cwr (nAlleles.getD nLabels) ploidy

/-- the program passes `n_alleles=len(haplotypes)`: the record's allele count, masked reference included
    (since the repair of F3; before, it relied on the default and the array was too short under REFMASKED) -/
def assembleGPSize (nAlt : Nat) (refCalled : Bool) (ploidy : Nat) : Nat :=
  gpArraySize (assembleNLabels nAlt refCalled) (some (nAlt + 1)) ploidy

/-- `probabilities[idx] = prob` for every posterior genotype whose haplotypes are all labelled (sorted label
    lists) into an array of the given size; `none` is the `IndexError` of an index beyond the array -/
def gpArrayFill (size : Nat) (entries : List (List Nat × Rat)) : Option (List Rat) :=
  entries.foldlM (fun arr e =>
      let idx := genotypeIndex e.1
      if idx < arr.length then some (arr.set idx e.2) else none)
    (List.replicate size 0)

/-- the program path -/
def assembleGPArray (nAlt : Nat) (refCalled : Bool) (ploidy : Nat) (entries : List (List Nat × Rat)) :
    Option (List Rat) :=
  gpArrayFill (assembleGPSize nAlt refCalled ploidy) entries

/-- `relabel(labels, n_allele=None)`: `n_allele` defaults to `labels.max() + 1`, where `labels` are the record's
    allele numbers of the haplotypes that stayed in the MCMC (prior frequency > 0 and not a masked reference) -/
def relabelNAllele (labels : List Nat) (nAllele : Option Nat) : Nat :=
  nAllele.getD (labels.foldl max 0 + 1)

/-- allele numbers kept for the MCMC given the mask (`np.where(~mask)[0]`) -/
def keptLabels (mask : List Bool) : List Nat :=
  (List.range mask.length).filter (fun i => !(mask.getD i true))

/-- call / call-pedigree pass `n_allele=len(haplotypes)` (since the repair of F4) -/
def callRelabelNAllele (mask : List Bool) : Nat := relabelNAllele (keptLabels mask) (some mask.length)

/-! ## `vcfstr` on exact rationals -/

def roundHalfEven (q : Rat) : Int :=
  let f := q.floor
  let d := q - (f : Rat)
  if d < 1 / 2 then f else if 1 / 2 < d then f + 1 else if f % 2 = 0 then f else f + 1

/-- `np.round(x, 3)` in thousandths -/
def round3 (q : Rat) : Int := roundHalfEven (q * 1000)

def stripZeros (s : List Char) : List Char := (s.reverse.dropWhile (· == '0')).reverse

def pad3 (n : Nat) : List Char :=
  let d := (toString n).toList
  List.replicate (3 - d.length) '0' ++ d

/-- decimal text of `k/1000` without trailing zeros (Python's `str` / numpy's `astype("U")` of such a float
    with the trailing `.0` removed) -/
def renderThousandths (k : Int) : String :=
  let a := k.natAbs
  let ip := a / 1000
  let fp := a % 1000
  let sign := if k < 0 then "-" else ""
  if fp = 0 then sign ++ toString ip
  else sign ++ toString ip ++ "." ++ String.ofList (stripZeros (pad3 fp))

/-- scalar float: `nan → "."`, `int(x) == x → str(int(x))` (so negative zero prints `0`) -/
def vcfstrScalar : Option Rat → String
  | none => "."
  | some q => renderThousandths (round3 q)

/-- array element: `astype("U16")` keeps the sign of a negative zero (`-0.0 → "-0"`) -/
def vcfstrArrayElem : Option Rat → String
  | none => "."
  | some q =>
    let k := round3 q
    if k = 0 ∧ q < 0 then "-0" else renderThousandths k

def vcfstrArray (l : List (Option Rat)) : String :=
  if l.isEmpty then "." else ",".intercalate (l.map vcfstrArrayElem)

end MCHap.Vcf
