import MCHap.Model.Likelihood
import MCHap.Model.Prior
/-
Model of the elementary moves of the `mchap assemble` sampler:
`mchap/assemble/mutation.py:base_step`, `mchap/assemble/structural.py`
(`haplotype_segment_labels`, `recombination_step_options/_n_options`,
`dosage_step_options/_n_options`, `interval_step`) and `mchap/assemble/tempering.py`.

A move is modelled as its *kernel*: the list of options, each with the resulting (ordered)
genotype, the exact posterior ratio `R = L'P'/(LP)` and the proposal ratio `Q`.  The code's
acceptance probability is `min 1 (R^T · Q)` (log space: `(llk_ratio + lprior_ratio)*temp +
lproposal_ratio`), each option is proposed with probability `1 / n_options`, and the remaining
mass stays on the current genotype.  For `T = 1` everything is rational (`optionProb`).

Core Lean only.
-/
namespace MCHap

structure AsmParams where
  reads : Reads
  nb : Nat
  /-- number of possible haplotypes `∏ n_alleles` (`exp log_unique_haplotypes`) -/
  U : Nat
  F : Rat

/-- unnormalised posterior of an ordered genotype: likelihood × prior of its multiset -/
def asmW (P : AsmParams) (g : Genotype) : Rat :=
  lik P.reads P.nb g * assemblePrior P.U P.F (haplotypeDosage g)

/-- `count_haplotype_copies(genotype, h)` -/
def copies (g : Genotype) (h : Nat) : Nat := g.count (g.getD h [])

structure MoveOption where
  target : Genotype
  /-- posterior ratio `w(target) / w(current)` -/
  R : Rat
  /-- proposal ratio `g(current | target) / g(target | current)` -/
  Q : Rat

/-- acceptance × proposal probability of one option at inverse temperature 1 -/
def optionProb (nOptions : Nat) (o : MoveOption) : Rat :=
  (if o.R * o.Q < 1 then o.R * o.Q else 1) / (nOptions : Rat)

def setAlleleAt (g : Genotype) (h j a : Nat) : Genotype :=
  g.set h ((g.getD h []).set j a)

/-- `base_step`: one option per allele different from the current one at `(h, j)` -/
def baseStepOptions (P : AsmParams) (g : Genotype) (h j nAlleles : Nat) : List MoveOption :=
  let cur := alleleAt g h j
  let w := asmW P g
  ((List.range nAlleles).filter (· ≠ cur)).map (fun a =>
    let g' := setAlleleAt g h j a
    { target := g', R := asmW P g' / w, Q := (copies g' h : Rat) / (copies g h : Rat) })

/-! ### interval moves -/

def segInside (h : Hap) (lo hi : Nat) : Hap := (h.drop lo).take (hi - lo)
def segOutside (h : Hap) (lo hi : Nat) : Hap := h.take lo ++ h.drop hi

/-- `haplotype_segment_labels`: for each haplotype the index of the first haplotype with the same
    in-interval segment, and the same for the remainder (what `_label_haplotypes` computes) -/
def segmentLabels (g : Genotype) (lo hi : Nat) : List (Nat × Nat) :=
  let ins := g.map (segInside · lo hi)
  let outs := g.map (segOutside · lo hi)
  (ins.zip outs).map (fun io => (ins.idxOf io.1, outs.idxOf io.2))

/-- `get_haplotype_dosage` on any list with decidable equality: multiplicity at the first
    occurrence, 0 at later copies -/
def dosageOf {α} [BEq α] (l : List α) : List Nat :=
  let rec go (seen : List α) : List α → List Nat
    | [] => []
    | x :: t => (if seen.contains x then 0 else (x :: t).count x) :: go (x :: seen) t
  go [] l

/-- the double loop shared by `recombination_step_options` and `_n_options`:
    pairs `h0 < h1` of first occurrences of distinct haplotypes differing in both segments -/
def recombPairs (labels : List (Nat × Nat)) : List (Nat × Nat) :=
  let d := dosageOf labels
  let p := labels.length
  (List.range p).flatMap (fun h0 =>
    if d.getD h0 0 = 0 then [] else
    ((List.range p).filter (fun h1 => h0 < h1)).filterMap (fun h1 =>
      if d.getD h1 0 = 0 then none
      else
        let a := labels.getD h0 (0, 0)
        let b := labels.getD h1 (0, 0)
        if a.1 = b.1 ∨ a.2 = b.2 then none else some (h0, h1)))

def recombNOptions (labels : List (Nat × Nat)) : Nat := (recombPairs labels).length

/-- option label arrays: the in-interval labels of `h0` and `h1` exchanged -/
def recombOptions (labels : List (Nat × Nat)) : List (List (Nat × Nat)) :=
  (recombPairs labels).map (fun hh =>
    let a := labels.getD hh.1 (0, 0)
    let b := labels.getD hh.2 (0, 0)
    (labels.set hh.1 (b.1, a.2)).set hh.2 (a.1, b.2))

/-- (receiver `h0`, donor `h1`) pairs of `dosage_step_options` / `_n_options` -/
def dosagePairs (labels : List (Nat × Nat)) : List (Nat × Nat) :=
  let hd := dosageOf labels
  let sd := dosageOf (labels.map (·.1))
  let p := labels.length
  (List.range p).flatMap (fun h0 =>
    if hd.getD h0 0 = 0 then []
    else if sd.getD h0 0 = 1 then []
    else (List.range p).filterMap (fun h1 =>
      if sd.getD h1 0 = 0 then none
      else if (labels.getD h0 (0, 0)).1 = (labels.getD h1 (0, 0)).1 then none
      else some (h0, h1)))

def dosageNOptions (labels : List (Nat × Nat)) : Nat := (dosagePairs labels).length

def dosageOptions (labels : List (Nat × Nat)) : List (List (Nat × Nat)) :=
  (dosagePairs labels).map (fun hh =>
    let a := labels.getD hh.1 (0, 0)
    let b := labels.getD hh.2 (0, 0)
    labels.set hh.1 (b.1, a.2))

/-- `interval_step` (`stepType` 0 = recombination, 1 = dosage): the option kernel -/
def intervalStepOptions (P : AsmParams) (g : Genotype) (lo hi : Nat) (stepType : Nat) :
    List MoveOption :=
  let labels := segmentLabels g lo hi
  let opts := if stepType = 0 then recombOptions labels else dosageOptions labels
  let n := opts.length
  let w := asmW P g
  opts.map (fun o =>
    let g' := structuralChange g P.nb (o.map (·.1)) lo hi
    let nRet := if stepType = 0 then recombNOptions o else dosageNOptions o
    { target := g', R := asmW P g' / w, Q := (n : Rat) / (nRet : Rat) })

/-- exchange move between the chain at inverse temperature `Ti` (state `gi`) and the hotter chain
    `Tj < Ti` (state `gj`): the posterior ratio `w(gj)/w(gi)`; the code accepts with probability
    `min 1 (ratio^(Ti − Tj))` -/
def exchangeRatio (P : AsmParams) (gi gj : Genotype) : Rat := asmW P gj / asmW P gi

/-- `chain_swap_step` as a state transition on the pair (cooler chain `i`, warmer chain `j`): on acceptance the
    two genotypes AND the likelihoods carried with them are exchanged, otherwise nothing changes -/
def exchangeStep (gi gj : Genotype) (li lj : Rat) (accept : Bool) :
    (Genotype × Rat) × (Genotype × Rat) :=
  if accept then ((gj, lj), (gi, li)) else ((gi, li), (gj, lj))

end MCHap
