import MCHap.Model.CallMoves
/-
Model of the sweep bookkeeping of the assemble sampler:
`mchap/assemble/mutation.py:compound_step` (the `(h, j)` sub-step table),
`mchap/assemble/structural.py:random_breaks`,
`mchap/assemble/mcmc.py:_homozygosity_probabilities`, the `fix_homozygous` screen and the template
re-insertion of `DenovoMCMC._mcmc`, `mchap/assemble/snpcalling.py:snp_posterior`.

Core Lean only.
-/
namespace MCHap

/-- the sub-step table before shuffling: row `h * n_base + j` holds `(h, j)`
    (64-bit entries since the F2 repair; see known_findings.json) -/
def substeps (ploidy nb : Nat) : List (Nat × Nat) :=
  (List.range ploidy).flatMap (fun h => (List.range nb).map (fun j => (h, j)))

/-- the table as the pre-repair code stored it, in `int8` cells: an index above 127 wraps to a
    negative number, which numpy/numba indexing then counts from the end of the axis -/
def wrapInt8 (v len : Nat) : Nat :=
  let w := v % 256
  if w < 128 then w else len - (256 - w)

def substepsInt8 (ploidy nb : Nat) : List (Nat × Nat) :=
  (substeps ploidy nb).map (fun hj => (wrapInt8 hj.1 ploidy, wrapInt8 hj.2 nb))

/-- the order in which `compound_step` visits the pairs for a given shuffle of the rows -/
def sweepOrder (perm : List Nat) (ploidy nb : Nat) : List (Nat × Nat) :=
  perm.map (fun i => (substeps ploidy nb).getD i (0, 0))

/-! ### `random_breaks` -/

/-- remove the element at position `i` of a list -/
def removeAt {α} : Nat → List α → List α
  | _, [] => []
  | 0, _ :: t => t
  | i + 1, x :: t => x :: removeAt i t

/-- the break points chosen by successive `np.random.choice(options)` draws: `choices[k]` is the
    position of the k-th draw inside the (ascending) list of still-available interior points -/
def drawPoints : List Nat → List Nat → List Nat
  | _, [] => []
  | options, c :: cs =>
    match options[c]? with
    | none => []
    | some pt => pt :: drawPoints (removeAt c options) cs

def insertAsc (x : Nat) : List Nat → List Nat
  | [] => [x]
  | y :: t => if x ≤ y then x :: y :: t else y :: insertAsc x t

/-- the candidate break points `1 .. n-1` (`indicies` is true there initially) -/
def interiorPoints (n : Nat) : List Nat := (List.range (n - 1)).map (· + 1)

/-- `points = where(~indicies)`: 0, the chosen points and `n`, ascending -/
def breakPoints (n : Nat) (choices : List Nat) : List Nat :=
  (drawPoints (interiorPoints n) choices).foldr insertAsc [0, n]

def consecutivePairs : List Nat → List (Nat × Nat)
  | a :: b :: t => (a, b) :: consecutivePairs (b :: t)
  | _ => []

/-- `random_breaks(breaks, n)` with `breaks = choices.length`; `none` = the `ValueError` -/
def randomBreaks (n : Nat) (choices : List Nat) : Option (List (Nat × Nat)) :=
  if choices.length ≥ n then none else some (consecutivePairs (breakPoints n choices))

/-! ### homozygosity screen and template re-insertion -/

/-- reads restricted to SNV `j` (`reads[:, j, :]` with a singleton base axis) -/
def siteReads (rs : Reads) (j : Nat) : Reads := rs.map (fun rc => ([rc.1.getD j []], rc.2))

/-- `snp_posterior` for one SNV: exact posterior over the unordered genotypes of its `nAlleles`
    alleles with flat prior frequencies (VCF order) -/
def snpPosterior (rs : Reads) (j nAlleles ploidy : Nat) (F : Rat) : List Rat :=
  exactPosterior { reads := siteReads rs j, nb := 1,
                   haps := (List.range nAlleles).map (fun a => [a]), F := F, freqs := none } ploidy

/-- `_homozygosity_probabilities[j, a]`: posterior probability of the homozygous genotype `a…a` -/
def homProbs (rs : Reads) (nAlleles : List Nat) (ploidy : Nat) (F : Rat) : List (List Rat) :=
  nAlleles.zipIdx.map (fun (na, j) =>
    let post := snpPosterior rs j na ploidy F
    (List.range na).map (fun a => post.getD (genotypeIndex (List.replicate ploidy a)) 0))

/-- the allele a site is fixed to: the last allele whose homozygous probability reaches the
    threshold (`idx, vals = np.where(fixed); haplotype[idx] = vals`), `none` = sampled -/
def fixedAllele (thr : Rat) (probs : List Rat) : Option Nat :=
  probs.zipIdx.foldl (fun acc (p, a) => if p ≥ thr then some a else acc) none

/-- put the sampled (heterozygous) columns back between the fixed ones -/
def reinsertHap : List (Option Nat) → Hap → Hap
  | [], _ => []
  | some a :: fs, h => a :: reinsertHap fs h
  | none :: fs, x :: h => x :: reinsertHap fs h
  | none :: fs, [] => 0 :: reinsertHap fs []

def reinsert (fixed : List (Option Nat)) (g : Genotype) : Genotype := g.map (reinsertHap fixed)

/-- the columns that are sampled (`x[..., heterozygous]`): drop every fixed site -/
def restrictHap : List (Option Nat) → Hap → Hap
  | [], _ => []
  | _ :: _, [] => []
  | some _ :: fs, _ :: h => restrictHap fs h
  | none :: fs, x :: h => x :: restrictHap fs h

def restrict (fixed : List (Option Nat)) (g : Genotype) : Genotype := g.map (restrictHap fixed)

end MCHap
