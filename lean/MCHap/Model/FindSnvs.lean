import MCHap.Model.Reads
/-
Model of `mchap/application/find_snvs.py`: `bam_region_depths` (including what `pysam.AlignmentFile.pileup`
does with the keyword arguments it is given), `write_vcf_block` (frequencies, threshold mask, emission, allele
ordering, REFMASKED, AD / ADMF) and `_vcf_sort_alleles`.

`bam_region_depths` translates the configured read filters into the keywords `AlignmentFile.pileup` understands
(`flag_filter`, `min_mapping_quality`): model `engineCfgOf`.  Everything else stays at pysam's defaults: secondary
records are always masked, bases of quality < 13 are not reported, orphan mates are dropped, overlapping mates have
their qualities merged.  (Before commit 31c45d9 of /repo the filters were forwarded under names pysam ignores, i.e.
`engineCfgOf` was constantly `pysamDefaults`; `regionDepthsE pysamDefaults` is that old behaviour.)

Core Lean only.
-/
namespace MCHap

/-- the read filters configured on the `find-snvs` command line -/
structure FilterCfg where
  minQ : Nat := 20
  skipDup : Bool := true
  skipQc : Bool := true
  skipSupp : Bool := true
  deriving Repr

/-! ### the pileup engine -/

/-- the arguments `AlignmentFile.pileup` actually reads (defaults of pysam 0.24):
`flag_filter = BAM_FUNMAP | BAM_FSECONDARY | BAM_FQCFAIL | BAM_FDUP`, `min_mapping_quality = 0`,
`min_base_quality = 13`, `ignore_orphans = True`, `ignore_overlaps = True` (stepper "samtools") -/
structure EngineCfg where
  flagFilter : Nat := 0x704
  minMapQ : Nat := 0
  minBaseQ : Nat := 13
  ignoreOrphans : Bool := true
  ignoreOverlaps : Bool := true
  deriving Repr

def pysamDefaults : EngineCfg := {}

/-- what `bam_region_depths` makes of the configured filters:
`flag_filter = FUNMAP | FSECONDARY | (FDUP if skip_duplicates) | (FQCFAIL if skip_qcfail) | (FSUPPLEMENTARY if
skip_supplementary)`, `min_mapping_quality = min_quality`; the other engine settings are pysam's defaults -/
def engineCfgOf (cfg : FilterCfg) : EngineCfg :=
  { flagFilter := 0x4 ||| 0x100 ||| (if cfg.skipDup then 0x400 else 0) ||| (if cfg.skipQc then 0x200 else 0)
      ||| (if cfg.skipSupp then 0x800 else 0)
    minMapQ := cfg.minQ }

/-- read-level filter of the "samtools" stepper: flag mask, mapping quality, orphans (a paired record that is not a
proper pair) -/
def enginePasses (e : EngineCfg) (a : Aln) : Bool :=
  (a.flag &&& e.flagFilter == 0) && decide (e.minMapQ ≤ a.mapq) && !(e.ignoreOrphans && a.isPaired && !a.isProperPair)

/-- records the region iterator hands to the pileup: same contig, reference span meets `[start, stop)` -/
def regionFetched (contig : String) (start stop : Nat) (a : Aln) : Bool :=
  a.contig == contig && decide (a.pos < stop) && decide (start < a.refEnd)

/-- base qualities as htslib stores them (`0xff` for every base of a record without qualities) -/
def Aln.qualList (a : Aln) : List Nat := a.quals.getD (List.replicate a.seq.length 255)

/-- htslib `overlap_push`: only proper pairs with a mapped mate on the same contig that can overlap -/
def overlapCandidate (a : Aln) : Bool :=
  !a.mateUnmapped && a.isProperPair &&
  !(a.mateOtherContig || (decide (2 * a.seq.length ≤ a.isize.natAbs) && decide ((a.refEnd : Int) ≤ a.mpos)))

/-- "only add reads where the mate is still to arrive" -/
def awaitsMate (a : Aln) : Bool :=
  decide ((a.pos : Int) ≤ a.mpos) || (a.isPaired && a.mpos == -1)

/-- (query index in `a`, query index in `b`) of every reference position at which both records have an aligned
(M / = / X) base -/
def commonColumns (a b : Aln) : List (Nat × Nat) :=
  a.samPairs.filterMap (fun p => (b.samPairs.find? (fun p' => p'.2 == p.2)).map (fun p' => (p.1, p'.1)))

/-- khash `__ac_X31_hash_string` of the read name (ASCII names) -/
def x31Hash (s : String) : UInt32 :=
  match s.toList.map (fun c => c.toNat.toUInt32) with
  | [] => 0
  | c :: t => t.foldl (fun h c => (h <<< 5) - h + c) c

/-- khash `__ac_Wang_hash` -/
def wangHash (k : UInt32) : UInt32 :=
  let k := k + ~~~(k <<< 15)
  let k := k ^^^ (k >>> 10)
  let k := k + (k <<< 3)
  let k := k ^^^ (k >>> 6)
  let k := k + ~~~(k <<< 11)
  k ^^^ (k >>> 16)

/-- htslib picks "at random" (a hash of the read name) which record of an overlapping pair keeps the evidence:
`true` = the record that arrived first -/
def prefersFirst (qname : String) : Bool := (wangHash (x31Hash qname)) &&& 1 == 1

/-- htslib `tweak_overlap_quality`, one column: equal bases → the preferred record gets the summed quality (capped at
200) and the other 0; different bases → the better one keeps `0.8 · q` (truncated) and the other gets 0, a tie goes to
the preferred record. (Exact for mates without D / N ops; htslib's treatment of deletions inside overlapping mates is
not modelled.) -/
def tweakColumn (pref : Bool) (sa sb : List Char) (qs : List Nat × List Nat) (ij : Nat × Nat) : List Nat × List Nat :=
  match sa[ij.1]?, sb[ij.2]?, qs.1[ij.1]?, qs.2[ij.2]? with
  | some ca, some cb, some x, some y =>
    if ca = cb then
      if pref then (qs.1.set ij.1 (min 200 (x + y)), qs.2.set ij.2 0)
      else (qs.1.set ij.1 0, qs.2.set ij.2 (min 200 (x + y)))
    else if y < x ∨ (x = y ∧ pref) then (qs.1.set ij.1 (4 * x / 5), qs.2.set ij.2 0)
    else (qs.1.set ij.1 0, qs.2.set ij.2 (4 * y / 5))
  | _, _, _, _ => qs

def tweakPair (a b : Aln) : Aln × Aln :=
  let qs := (commonColumns a b).foldl (tweakColumn (prefersFirst a.qname) a.seq b.seq) (a.qualList, b.qualList)
  ({ a with quals := some qs.1 }, { b with quals := some qs.2 })

/-- state of the overlap hash while records are pushed: records so far (in order) and read name → index of the
record waiting for its mate -/
structure OverlapState where
  done : List Aln := []
  pending : List (String × Nat) := []

def pushRead (st : OverlapState) (b : Aln) : OverlapState :=
  if !overlapCandidate b then { st with done := st.done ++ [b] }
  else
    match st.pending.lookup b.qname with
    | none =>
      if awaitsMate b then { done := st.done ++ [b], pending := (b.qname, st.done.length) :: st.pending }
      else { st with done := st.done ++ [b] }
    | some i =>
      match st.done[i]? with
      | none => { st with done := st.done ++ [b] }
      | some a =>
        let ab := tweakPair a b
        { done := st.done.set i ab.1 ++ [ab.2], pending := st.pending.filter (fun e => e.1 != b.qname) }

/-- the records in the pileup buffer with their (possibly tweaked) qualities -/
def engineReads (e : EngineCfg) (contig : String) (start stop : Nat) (reads : List Aln) : List Aln :=
  let buf := reads.filter (fun a => regionFetched contig start stop a && enginePasses e a)
  if e.ignoreOverlaps then (buf.foldl pushRead {}).done else buf

/-- `_ord_to_index`: A/a C/c G/g T/t → 0..3, anything else −1 (`none`) -/
def baseIndex (c : Char) : Option Nat :=
  if c = 'A' ∨ c = 'a' then some 0
  else if c = 'C' ∨ c = 'c' then some 1
  else if c = 'G' ∨ c = 'g' then some 2
  else if c = 'T' ∨ c = 't' then some 3
  else none

/-- what one buffered record contributes to the column at reference position `p`:
`get_query_sequences()` skips bases with quality below `min_base_quality = 13`; deletions / skips give "" -/
def columnBase (minBaseQ : Nat) (a : Aln) (p : Nat) : Option Nat :=
  match a.samPairs.find? (fun qr => qr.2 == p) with
  | none => none
  | some qr =>
    if a.qualList.getD qr.1 0 < minBaseQ then none else (a.seq[qr.1]?).bind baseIndex

/-- `_count_alleles` over one column -/
def countColumn (f : Aln → Option Nat) (reads : List Aln) : List Nat :=
  (List.range 4).map (fun k => reads.countP (fun a => f a == some k))

/-- the pileup of a region under a given engine configuration: positions × samples × 4 -/
def regionDepthsE (e : EngineCfg) (bams : List (List Aln)) (contig : String) (start stop : Nat) :
    List (List (List Nat)) :=
  (List.range (stop - start)).map (fun i =>
    bams.map (fun reads =>
      countColumn (fun a => columnBase e.minBaseQ a (start + i)) (engineReads e contig start stop reads)))

/-- `bam_region_depths(bam_paths, reference_path, contig, start, stop, min_quality=…, skip_duplicates=…,
skip_qcfail=…, skip_supplementary=…)` -/
def bamRegionDepths (cfg : FilterCfg) (bams : List (List Aln)) (contig : String) (start stop : Nat) :
    List (List (List Nat)) :=
  regionDepthsE (engineCfgOf cfg) bams contig start stop

/-! ### thresholds, emission, ordering (`write_vcf_block`) -/

structure Thresh where
  maf : Rat := 0
  mad : Int := 0
  indMaf : Rat := 1 / 10
  indMad : Int := 3
  minInd : Int := 1
  deriving Repr

/-- `allele_depth / allele_depth.sum(axis=-1)`: `none` = NaN (no depth in that sample) -/
def alleleFreq (d : List Nat) (a : Nat) : Option Rat :=
  if d.sum = 0 then none else some ((d.getD a 0 : Rat) / (d.sum : Rat))

/-- `(allele_freq >= ind_maf) & (allele_depth >= ind_mad)` for one sample (a comparison with NaN is false) -/
def indOk (t : Thresh) (d : List Nat) (a : Nat) : Bool :=
  match alleleFreq d a with
  | none => false
  | some f => decide (t.indMaf ≤ f) && decide (t.indMad ≤ (d.getD a 0 : Int))

/-- `np.nanmean(allele_freq, axis=1)`: mean over the samples with depth; NaN when there is none -/
def nanMeanFreq (ds : List (List Nat)) (a : Nat) : Option Rat :=
  let fs := ds.filterMap (fun d => alleleFreq d a)
  if fs.isEmpty then none else some (fs.sum / (fs.length : Rat))

def popDepth (ds : List (List Nat)) (a : Nat) : Nat := (ds.map (fun d => d.getD a 0)).sum

/-- the `keep` mask of one allele at one position; `--maf` is tested against the mean frequency among the samples with
reads (`np.nanmean`; all-NaN is NaN and fails) -/
def keepAllele (t : Thresh) (ds : List (List Nat)) (a : Nat) : Bool :=
  decide (t.minInd ≤ (ds.countP (fun d => indOk t d a) : Int))
  && (if 0 < t.maf then (match nanMeanFreq ds a with | none => false | some m => decide (t.maf ≤ m)) else true)
  && (if 0 < t.mad then decide (t.mad ≤ (popDepth ds a : Int)) else true)

/-- `depth_mean_freq` after `np.where(keep, allele_freq, 0.0)` -/
def sortKey (t : Thresh) (ds : List (List Nat)) (a : Nat) : Option Rat :=
  if keepAllele t ds a then nanMeanFreq ds a else some 0

/-- order used by `np.argsort`: NaN sorts last -/
def leKey (x y : Option Rat) : Bool :=
  match x, y with
  | _, none => true
  | none, some _ => false
  | some a, some b => decide (a ≤ b)

/-- `np.argsort(frequencies, kind="stable")[::-1]` over the four nucleotides -/
def argsortDesc (f : Nat → Option Rat) : List Nat :=
  ((List.range 4).mergeSort (fun a b => leKey (f a) (f b))).reverse

/-- `_vcf_sort_alleles`: the reference first, the others in descending order of frequency -/
def alleleOrder (f : Nat → Option Rat) (ref : Nat) : List Nat :=
  ref :: (argsortDesc f).filter (fun a => a != ref)

structure SiteRecord where
  /-- nucleotide index of REF -/
  ref : Nat
  /-- nucleotide indices of the listed ALT alleles, in output order -/
  alts : List Nat
  refMasked : Bool
  /-- INFO/AD: population depth of REF and each ALT -/
  popAd : List Nat
  /-- INFO/ADMF (before rounding); `none` = NaN -/
  admf : List (Option Rat)
  /-- FORMAT/AD per sample -/
  ad : List (List Nat)
  deriving Repr

/-- one position of `write_vcf_block`: `none` = no record (reference base not A/C/G/T, or fewer than two alleles kept) -/
def siteRecord (t : Thresh) (refBase : Char) (ds : List (List Nat)) : Option SiteRecord :=
  match baseIndex refBase with
  | none => none                      -- `variant_reference_index >= 0`
  | some ref =>
    let keep := keepAllele t ds
    if (List.range 4).countP keep ≤ 1 then none      -- `keep.sum(axis=-1) > 1`
    else
      let order := alleleOrder (sortKey t ds) ref
      let listed := order.filter (fun a => a == ref || keep a)     -- `keep[:, 0] = True`
      some { ref := ref
             alts := listed.tail
             refMasked := !keep ref
             popAd := listed.map (popDepth ds)
             admf := listed.map (sortKey t ds)
             ad := ds.map (fun d => listed.map (fun a => d.getD a 0)) }

/-- all positions of a block: (0-based position, record) for every emitted position -/
def blockRecords (t : Thresh) (start : Nat) (refSeq : List Char) (depths : List (List (List Nat))) :
    List (Nat × SiteRecord) :=
  ((List.range refSeq.length).filterMap (fun i =>
    match refSeq[i]?, depths[i]? with
    | some c, some ds => (siteRecord t c.toUpper ds).map (fun r => (start + i, r))
    | _, _ => none))

end MCHap
