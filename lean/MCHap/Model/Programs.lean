import MCHap.Model.Sched
import MCHap.Model.Likelihood
/-
Model of how the programs treat *samples* (property C10):

* `mchap/application/arguments.py:parse_sample_pools` + `mchap/application/baseclass.py:encode_sample_reads`:
  a "sample" is a pool = a list of (read-group sample, bam) pairs; the reads extracted for each pair are
  concatenated (`np.concatenate`) in the order of the pairs, encoded, and de-duplicated with
  `mset.unique_counts` (unique rows in order of first occurrence, with their multiplicities).
* `call_sample_genotypes` of `call.py` / `call_exact.py`: `for sample in data.samples:` one fit per sample with
  the program's seed, the results stored per sample; the process-wide random state is threaded through the loop.
* `call_sample_genotypes` of `assemble.py`: the same loop giving one posterior per sample, then
  `mchap/assemble/haplotype_calling.py:call_posterior_haplotypes` (union over samples of the haplotypes whose
  probability of occurrence reaches the threshold, ordered by summed weight, reference first) and the
  per-sample labelling `_genotype_as_alleles` (`-1` = `.` for a haplotype that is not listed, nulls last).

Core Lean only.
-/
namespace MCHap

/-! ## pools -/

/-- `np.concatenate(read_chars)` over the (sample, bam) pairs of a pool, in the order of the pairs -/
def poolReads {R} (members : List (List R)) : List R := members.flatten

/-- `mset.unique_idx`: mark the first occurrence of every distinct row. (The code removes a row from the set of
    all rows when it first meets it; "not met before" is the same predicate.) -/
def firstOccurrences {R} [DecidableEq R] : List R → List R → List R
  | _, [] => []
  | seen, x :: xs => if x ∈ seen then firstOccurrences seen xs else x :: firstOccurrences (x :: seen) xs

/-- `mset.unique_counts`: the distinct rows in order of first occurrence, each with its count -/
def dedupCounts {R} [DecidableEq R] (l : List R) : List (R × Nat) :=
  (firstOccurrences [] l).map (fun r => (r, l.count r))

/-- reads of a (possibly pooled) sample as the samplers receive them -/
def encodeSample {R} [DecidableEq R] (members : List (List R)) : List (R × Nat) :=
  dedupCounts (poolReads members)

/-- `FORMAT/RCOUNT` of a sample: `read_chars.shape[0]` after concatenation -/
def readCount {R} (members : List (List R)) : Nat := (poolReads members).length

/-! ## call / call-exact: one column per sample -/

/-- the column of one sample: a fit from freshly seeded generators -/
def callColumn {S I O} (K : Sampler S I O) (seed : Nat) (x : I) : O :=
  (K.run ⟨K.initNp seed, K.initNb seed⟩ x).1

/-- the per-sample loop as the code runs it: the random state left by one sample is what the next finds -/
def callRecord {S I O} (K : Sampler S I O) (seed : Nat) (samples : List I) (prior : Rng S) : List O :=
  (fitSeq K (samples.map (fun x => (some seed, x))) prior).1

/-! ## assemble: population haplotypes and labelling -/

/-- one row of `posterior.allele_frequencies(dosage=True)` -/
structure HapStat where
  hap : Hap
  weight : Rat
  occ : Rat
deriving Repr, DecidableEq

/-- `haplotype_values[b] += w` in a dict that keeps insertion order -/
def accumulate : List (Hap × Rat) → Hap → Rat → List (Hap × Rat)
  | [], h, w => [(h, 0 + w)]
  | (h', v) :: rest, h, w => if h' = h then (h', v + w) :: rest else (h', v) :: accumulate rest h w

/-- the loop over posteriors: haplotypes whose probability of occurrence reaches the threshold -/
def collectHaps (thr : Rat) (posts : List (List HapStat)) : List (Hap × Rat) :=
  posts.foldl (fun acc post =>
    (post.filter (fun st => decide (thr ≤ st.occ))).foldl (fun acc st => accumulate acc st.hap st.weight) acc) []

def isRef (h : Hap) : Bool := h.all (· == 0)

/-- stable insertion sort (structural recursion; what numpy's sort does below 17 elements) -/
def insertLe {α} (le : α → α → Bool) (x : α) : List α → List α
  | [] => [x]
  | y :: ys => if le x y then x :: y :: ys else y :: insertLe le x ys

def sortLe {α} (le : α → α → Bool) : List α → List α
  | [] => []
  | x :: xs => insertLe le x (sortLe le xs)

/-- `call_posterior_haplotypes`: (haplotypes with the reference first, `ref_observed`).
    ALT order: `np.flip(np.argsort(values))`, i.e. descending summed weight; equal weights come out in
    reverse insertion order when argsort is stable (numpy's sort of < 17 elements is an insertion sort);
    the tie order is NOT part of the property and the check compares tie groups as sets. -/
def callPosteriorHaplotypes (thr : Rat) (posts : List (List HapStat)) (nBase : Nat) : List Hap × Bool :=
  let all := collectHaps thr posts
  let alts := all.filter (fun p => !isRef p.1)
  let sorted := (sortLe (fun a b => decide (a.2 ≤ b.2)) alts).reverse
  (List.replicate nBase 0 :: sorted.map (·.1), all.any (fun p => isRef p.1))

/-- `haplotype_labels` after `if not ref_called: haplotype_labels.pop(haplotypes[0])` -/
def label (C : List Hap × Bool) (h : Hap) : Option Nat :=
  match C.1.idxOf? h with
  | none => none
  | some 0 => if C.2 then some 0 else none
  | some (i + 1) => some (i + 1)

/-- `_genotype_as_alleles`: labels sorted, unknown (`-1`, printed `.`) last -/
def genotypeAsAlleles (C : List Hap × Bool) (genotype : List Hap) : List (Option Nat) :=
  let labs := genotype.map (label C)
  let known := sortLe (fun a b => decide (a ≤ b)) (labs.filterMap id)
  known.map some ++ List.replicate (labs.length - known.length) none

/-- the called haplotype *sequence* behind an allele number of a sample (what C10 compares for assemble) -/
def calledSeq (C : List Hap × Bool) (h : Hap) : Option Hap :=
  match label C h with
  | none => none
  | some _ => some h

end MCHap
