/-
Model of the parts of MCHap that decide *when* and *from which random state* a record is computed
(property C08):

* `mchap/assemble/mcmc.py:DenovoMCMC.fit`, `mchap/calling/classes.py:CallingMCMC.fit`,
  `mchap/pedigree/classes.py:PedigreeCallingMCMC.fit`:
  `if self.random_seed is not None: np.random.seed(seed); seed_numba(seed)` followed by the sampler.
  The process holds TWO generators (numpy's global `RandomState` and numba's per-thread generator);
  both are modelled as explicit state, the sampler as an arbitrary deterministic function of that state.
* `mchap/application/baseclass.py`: `_run_stdout_single_core`, `_run_stdout_multi_core`, `_worker`,
  `_writer`, the `np.array_split(loci, n_cores)` blocks, the manager queue with the `KILL_SIGNAL`
  sentinel and the `for job in jobs: job.get()` loop of the main process.

What is NOT here (runtime, named in the check's assumptions): the OS scheduler, pipes, pickling,
`multiprocessing.Pool` internals.  The interleaving relation below over-approximates them: any worker
that has a locus left may move, the writer may move whenever the queue is not empty, the main process
may move whenever the job it is waiting for has ended.

Core Lean only.
-/
namespace MCHap

/-! ## (a) random state -/

/-- the two generators of a process -/
structure Rng (S : Type) where
  np : S
  nb : S
deriving Repr

/-- a sampler: `init` is what seeding makes of a seed (the same function for both generators is not
    assumed: `initNp`, `initNb`), `run` consumes random state and returns the trace and the state left behind -/
structure Sampler (S I O : Type) where
  initNp : Nat → S
  initNb : Nat → S
  run : Rng S → I → O × Rng S

/-- `np.random.seed(seed)` : overwrites numpy's generator, leaves numba's alone -/
def seedNumpy {S I O} (K : Sampler S I O) (seed : Nat) (r : Rng S) : Rng S := { r with np := K.initNp seed }

/-- `seed_numba(seed)` : overwrites numba's generator, leaves numpy's alone -/
def seedNumba {S I O} (K : Sampler S I O) (seed : Nat) (r : Rng S) : Rng S := { r with nb := K.initNb seed }

/-- `.fit()`: `seed = none` is `random_seed=None` (no re-seeding; never what the programs do: `--mcmc-seed`
    has the default 42) -/
def fit {S I O} (K : Sampler S I O) (seed : Option Nat) (prior : Rng S) (x : I) : O × Rng S :=
  match seed with
  | none => K.run prior x
  | some s => K.run (seedNumba K s (seedNumpy K s prior)) x

/-- several fits one after the other in one process (the per-sample loop of a locus, the loci of a
    block): the random state is threaded through -/
def fitSeq {S I O} (K : Sampler S I O) : List (Option Nat × I) → Rng S → List O × Rng S
  | [], r => ([], r)
  | (seed, x) :: rest, r =>
    let (o, r') := fit K seed r x
    let (os, r'') := fitSeq K rest r'
    (o :: os, r'')

/-! ## (b) blocks: `np.array_split(loci, n_cores)` -/

/-- `section_sizes` of `numpy.array_split` without the leading 0:
    `extras * [Neach_section + 1] + (Nsections - extras) * [Neach_section]` -/
def splitSizes (n k : Nat) : List Nat :=
  List.replicate (n % k) (n / k + 1) ++ List.replicate (k - n % k) (n / k)

/-- cut consecutive pieces of the given sizes (`ary[div_points[i] : div_points[i+1]]` with
    `div_points = cumsum(section_sizes)`) -/
def cutBy {α} : List Nat → List α → List (List α)
  | [], _ => []
  | s :: ss, l => l.take s :: cutBy ss (l.drop s)

/-- `np.array_split(l, k)`; `k = 0` is numpy's `ValueError("number sections must be larger than 0.")` -/
def arraySplit {α} (k : Nat) (l : List α) : Option (List (List α)) :=
  if k = 0 then none else some (cutBy (splitSizes l.length k) l)

/-! ## (c) the worker / queue / writer protocol -/

/-- what travels through the queue -/
inductive Msg (A : Type) where
  | line (a : A)
  | kill
deriving Repr, DecidableEq

/-- the main process: inside `for job in jobs: job.get()` waiting for job `j`; having re-raised a worker's
    exception (non-zero exit; the pool and the manager are torn down by their finalizers); or past
    `queue.put(KILL_SIGNAL)` (→ `pool.close(); pool.join()`, exit status 0) -/
inductive MainSt where
  | waiting (j : Nat)
  | raised
  | finished
deriving Repr, DecidableEq

/-- protocol state. A worker is `some todo` (loci of its block not yet done; `some []` = returned
    normally) or `none` (an exception left `_worker`; `job.get()` will re-raise it). -/
structure Proto (L A : Type) where
  workers : List (Option (List L))
  queue : List (Msg A)
  out : List A
  main : MainSt
  writerOn : Bool
deriving Repr

/-- state after `pool.apply_async(_writer)` and one `apply_async(_worker, (block, queue))` per block -/
def Proto.init {L A} (blocks : List (List L)) : Proto L A :=
  { workers := blocks.map some, queue := [], out := [], main := .waiting 0, writerOn := true }

/-- One atomic move. `call l = none` means `call_locus` raises for locus `l`
    (wrapped into `LocusAssemblyError` by `_assemble_loci_wrapped`).
    Nothing moves after `raised`: the interpreter exits and terminates the pool. -/
inductive Step {L A} (call : L → Option A) : Proto L A → Proto L A → Prop
  /-- a worker finishes its next locus and puts the whole line on the queue -/
  | emit {s : Proto L A} {i : Nat} {l : L} {rest : List L} {a : A} :
      s.main ≠ .raised → s.workers[i]? = some (some (l :: rest)) → call l = some a →
      Step call s { s with workers := s.workers.set i (some rest), queue := s.queue ++ [.line a] }
  /-- a worker's next locus raises: the worker ends, the rest of its block is never computed -/
  | crash {s : Proto L A} {i : Nat} {l : L} {rest : List L} :
      s.main ≠ .raised → s.workers[i]? = some (some (l :: rest)) → call l = none →
      Step call s { s with workers := s.workers.set i none }
  /-- `job.get()` returns for a worker that ended normally -/
  | join {s : Proto L A} {j : Nat} :
      s.main = .waiting j → s.workers[j]? = some (some []) →
      Step call s { s with main := .waiting (j + 1) }
  /-- `job.get()` re-raises the exception of a failed worker -/
  | raise {s : Proto L A} {j : Nat} :
      s.main = .waiting j → s.workers[j]? = some none →
      Step call s { s with main := .raised }
  /-- all jobs returned: `queue.put(KILL_SIGNAL)` -/
  | kill {s : Proto L A} :
      s.main = .waiting s.workers.length →
      Step call s { s with main := .finished, queue := s.queue ++ [.kill] }
  /-- the writer takes one line and writes it whole -/
  | write {s : Proto L A} {a : A} {q : List (Msg A)} :
      s.main ≠ .raised → s.writerOn = true → s.queue = .line a :: q →
      Step call s { s with queue := q, out := s.out ++ [a] }
  /-- the writer takes the sentinel and leaves its loop -/
  | stop {s : Proto L A} {q : List (Msg A)} :
      s.main ≠ .raised → s.writerOn = true → s.queue = .kill :: q →
      Step call s { s with queue := q, writerOn := false }

/-- executions: reflexive-transitive closure of `Step` -/
inductive Steps {L A} (call : L → Option A) : Proto L A → Proto L A → Prop
  | refl (s : Proto L A) : Steps call s s
  | tail {s t u : Proto L A} : Steps call s t → Step call t u → Steps call s u

/-- who moves next (for the executable version of the relation) -/
inductive Actor where
  | worker (i : Nat)
  | main
  | writer
deriving Repr, DecidableEq

/-- executable form of `Step`: the move of the chosen actor, `none` when it is not enabled -/
def step? {L A} (call : L → Option A) (s : Proto L A) : Actor → Option (Proto L A)
  | .worker i =>
    if s.main = .raised then none else
    match s.workers[i]? with
    | some (some (l :: rest)) =>
      match call l with
      | some a => some { s with workers := s.workers.set i (some rest), queue := s.queue ++ [.line a] }
      | none => some { s with workers := s.workers.set i none }
    | _ => none
  | .main =>
    match s.main with
    | .waiting j =>
      if j = s.workers.length then some { s with main := .finished, queue := s.queue ++ [.kill] }
      else match s.workers[j]? with
        | some (some []) => some { s with main := .waiting (j + 1) }
        | some none => some { s with main := .raised }
        | _ => none
    | _ => none
  | .writer =>
    if s.main = .raised then none else
    if s.writerOn then
      match s.queue with
      | .line a :: q => some { s with queue := q, out := s.out ++ [a] }
      | .kill :: q => some { s with queue := q, writerOn := false }
      | [] => none
    else none

/-- run a schedule; a move that is not enabled is an error (`none`) -/
def runSchedule {L A} (call : L → Option A) : Proto L A → List Actor → Option (Proto L A)
  | s, [] => some s
  | s, a :: as => (step? call s a).bind (fun s' => runSchedule call s' as)

/-- the process has ended: non-zero after `raised`; zero once the writer has seen the sentinel and the pool is joined -/
def Proto.exited {L A} (s : Proto L A) : Option Bool :=
  match s.main with
  | .raised => some false
  | .finished => if s.writerOn then none else some true
  | .waiting _ => none

/-- decreasing measure of a protocol state (used for termination) -/
def workerWeight {L} : Option (List L) → Nat
  | none => 0
  | some todo => 2 * todo.length + 1

def mainWeight (k : Nat) : MainSt → Nat
  | .waiting j => (k - j) + 3
  | .finished => 1
  | .raised => 0

def Proto.measure {L A} (s : Proto L A) : Nat :=
  (s.workers.map workerWeight).sum + s.queue.length + mainWeight s.workers.length s.main
    + (if s.writerOn then 1 else 0)

/-! ## whole programs -/

/-- a program: listing a target (`Locus.set_sequence / set_variants`, `LocusPrior.from_variant_record`)
    and computing its record (`call_locus`) can each raise -/
structure Prog (T L A : Type) where
  list : T → Option L
  call : L → Option A

/-- the record of a target: a function of the target (and of whatever `list` / `call` close over:
    input files, parameters, seed) and of nothing else -/
def Prog.record {T L A} (P : Prog T L A) (t : T) : Option A := (P.list t).bind P.call

/-- `_run_stdout_single_core`: the loci generator is consumed lazily, each line is written as soon as it
    exists; the first exception ends the program (non-zero) after the lines written so far.
    Returns (exit status is zero, lines written). -/
def runSingle {T L A} (P : Prog T L A) : List T → Bool × List A
  | [] => (true, [])
  | t :: ts =>
    match P.record t with
    | none => (false, [])
    | some a => let (ok, out) := runSingle P ts; (ok, a :: out)

/-- `list(self.loci())`: every target is listed, the first failure raises -/
def listAll {T L} (f : T → Option L) : List T → Option (List L)
  | [] => some []
  | t :: ts =>
    match f t with
    | none => none
    | some l => (listAll f ts).map (l :: ·)

/-- `_run_stdout_multi_core`: `loci = list(self.loci())` in the main process (any listing error ends the
    program before a worker exists), then the protocol on the `array_split` blocks. `res` is a possible
    result (exit status is zero, record lines written at that time). -/
inductive RunMulti {T L A} (P : Prog T L A) (k : Nat) (targets : List T) : Bool × List A → Prop
  | listingFails : listAll P.list targets = none → RunMulti P k targets (false, [])
  | ends {loci : List L} {blocks : List (List L)} {s : Proto L A} {ok : Bool} :
      listAll P.list targets = some loci → arraySplit k loci = some blocks →
      Steps P.call (Proto.init blocks) s → s.exited = some ok → RunMulti P k targets (ok, s.out)

/-- is `out` an interleaving of the lists `ws` (each list in its own order, every element used once)?
    exact when all elements are distinct (loci are): the head of `out` is then the head of at most one list -/
def isShuffle {α} [DecidableEq α] : List (List α) → List α → Bool
  | ws, [] => ws.all (·.isEmpty)
  | ws, x :: rest =>
    match ws.findIdx? (fun w => w.head? = some x) with
    | none => false
    | some i => isShuffle (ws.set i ((ws.getD i []).drop 1)) rest

end MCHap
