/-
Model of `mchap/io/loci.py` (`LocusPrior.from_variant_record`, `LocusPrior.encode_haplotypes`,
`Locus._template_sequence`, `Locus.format_haplotypes`), the two transcoders it calls
(`encoding/character/transcode.py:as_allelic`, `encoding/integer/transcode.py:as_characters`),
`mchap/io/filter_alleles.py` (`parse_allele_filter`, `apply_allele_filter`) and the masking /
sub-setting / relabelling / invalid-scenario logic shared by
`application/call.py`, `call_exact.py`, `call_pedigree.py` (`call_sample_genotypes`) and
`calling/classes.py` (`GenotypeAllelesMultiTrace.relabel`, `_posterior_frequencies`).

Sequences are `List Char`; numpy arrays are lists; Python exceptions are `none` / `Except.error`;
frequencies are exact rationals (`none` for the all-NaN vector the code produces on a non-positive sum).

Core Lean only.
-/
namespace MCHap

abbrev Seq := List Char

/-! ## C12 — haplotype strings ↔ per-SNV integer alleles -/

/-- `haplotypes[i, j]`; only evaluated below the equal-length assertion of `from_variant_record` -/
def charAt (s : Seq) (j : Nat) : Char := s.getD j '-'

/-- `(haplotypes != haplotypes[0:1]).any(axis=0)[j]` -/
def colDiffers (ref : Seq) (alts : List Seq) (j : Nat) : Bool :=
  alts.any (fun s => charAt s j != charAt ref j)

/-- `positions = np.where((haplotypes != haplotypes[0:1]).any(axis=0))[0]` (ascending columns) -/
def snvColumns (ref : Seq) (alts : List Seq) : List Nat :=
  (List.range ref.length).filter (colDiffers ref alts)

/-- `_, idx = np.unique(alleles, return_index=True); idx.sort(); alleles[idx]`:
    the distinct characters in order of first appearance -/
def firstAppearance : List Char → List Char
  | [] => []
  | c :: cs => c :: (firstAppearance cs).filter (· != c)

/-- `haplotypes[:, j]` (REF first) -/
def column (seqs : List Seq) (j : Nat) : List Char := seqs.map (charAt · j)

/-- allele tuple of the SNV at column `j`: REF base first, then ALT bases by first appearance -/
def firstAppearanceAlleles (ref : Seq) (alts : List Seq) (j : Nat) : List Char :=
  firstAppearance (column (ref :: alts) j)

/-- a variant of a locus: (offset `pos - start`, allele characters) — `SNP.start`, `SNP.alleles` -/
abbrev Variant := Nat × List Char

/-- the `snps` list built by `from_variant_record` (without `use_snvpos`) -/
def deriveVariants (ref : Seq) (alts : List Seq) : List Variant :=
  (snvColumns ref alts).map (fun j => (j, firstAppearanceAlleles ref alts j))

/-- what C12 needs of a `LocusPrior` -/
structure LocusM where
  sequence : Seq
  variants : List Variant
  alts : List Seq
deriving Repr, DecidableEq

/-- `LocusPrior.from_variant_record` (sequence part); `none` = the `AssertionError` of
    `assert all(ref_length == len(alt) for alt in record.alts)` -/
def fromRecord (ref : Seq) (alts : List Seq) : Option LocusM :=
  if alts.all (fun a => a.length == ref.length) then
    some { sequence := ref, variants := deriveVariants ref alts, alts := alts }
  else none

/-- `as_allelic`: `alleles[i].get(s, -1)` -/
def allelicIndex (als : List Char) (c : Char) : Int :=
  if c ∈ als then (als.idxOf c : Nat) else -1

/-- `character.as_allelic(chars[:, idx], self.alleles)`; `none` = `IndexError` of `chars[:, idx]` -/
def encodeWith (variants : List Variant) (seqs : List Seq) : Option (List (List Int)) :=
  if seqs.all (fun s => variants.all (fun v => v.1 < s.length)) then
    some (seqs.map (fun s => variants.map (fun v => allelicIndex v.2 (charAt s v.1))))
  else none

/-- `LocusPrior.encode_haplotypes` -/
def encodeHaplotypes (L : LocusM) : Option (List (List Int)) :=
  encodeWith L.variants (L.sequence :: L.alts)

/-- `Locus._template_sequence`: `some c` a literal character, `none` the placeholder `{}`;
    outer `none` = `IndexError` of `chars[idx] = ...` -/
def templateSequence (seq : Seq) (offs : List Nat) : Option (List (Option Char)) :=
  if offs.all (· < seq.length) then
    some ((List.range seq.length).map (fun i => if i ∈ offs then none else some (charAt seq i)))
  else none

/-- `alleles[i][a] if a >= 0 else gap`; `none` = `IndexError` -/
def alleleChar (gap : Char) (als : List Char) (a : Int) : Option Char :=
  if a < 0 then some gap else als[a.toNat]?

/-- `integer.vector_as_characters(vector, gap, alleles)`:
    `alleles[i][a] for i, a in enumerate(vector)` -/
def variantChars (gap : Char) : List (List Char) → List Int → Option (List Char)
  | _, [] => some []
  | [], _ :: _ => none
  | als :: alleles, a :: row =>
    match alleleChar gap als a, variantChars gap alleles row with
    | some c, some cs => some (c :: cs)
    | _, _ => none

/-- `template.format(*hap)`: placeholders are filled left to right, surplus arguments are ignored,
    a missing argument is an `IndexError` -/
def fillTemplate : List (Option Char) → List Char → Option Seq
  | [], _ => some []
  | some c :: t, args => (fillTemplate t args).map (c :: ·)
  | none :: t, a :: args => (fillTemplate t args).map (a :: ·)
  | none :: _, [] => none

def optAll {α} : List (Option α) → Option (List α)
  | [] => some []
  | none :: _ => none
  | some a :: t => (optAll t).map (a :: ·)

/-- `Locus.format_haplotypes(array, gap)` -/
def formatHaplotypes (seq : Seq) (variants : List Variant) (rows : List (List Int))
    (gap : Char := '-') : Option (List Seq) :=
  match templateSequence seq (variants.map (·.1)) with
  | none => none
  | some t =>
    optAll (rows.map (fun row =>
      match variantChars gap (variants.map (·.2)) row with
      | none => none
      | some cs => fillTemplate t cs))

/-! ## C16 — filter strings -/

inductive Cmp | eq | gt | ge | lt | le | ne
deriving Repr, DecidableEq

/-- the exceptions of the modelled functions, by raise site -/
inductive Err
  | invalidFilter     -- ValueError "Invalid allele filter": the regex does not match
  | invalidOperator   -- ValueError "Invalid operator": the regex accepts `<>`, `_COMPARATOR` does not
  | nonNumeric        -- ValueError "Non-numerical value": neither `int()` nor `float()` parses the value
  | notInHeader       -- ValueError "Allele filter field not found in header"
  | invalidLength     -- ValueError "Allele filter of field of invalid length"
  | assertion         -- AssertionError: number of observations ≠ number of alleles
  | typeError         -- TypeError: ordering comparison with a missing (`None`) value, `len()` of a scalar
  | invalidHeader     -- ValueError "Invalid header": `record.info.get` of an undeclared tag
  | freqLength        -- ValueError "Field … does not match number of alleles"
deriving Repr, DecidableEq

structure Filter where
  field : String
  op : Cmp
  value : Rat
  isInt : Bool        -- `int(value)` succeeded (else `float(value)`)
deriving Repr, DecidableEq

/-- ASCII `\w` -/
def isWordChar (c : Char) : Bool := c.isAlphanum || c == '_'

def isOpChar (c : Char) : Bool := c == '=' || c == '<' || c == '>' || c == '!'

/-- the alternation `(=|>|<|==|!=|>=|<|<=|<>)`: `none` = not an alternative,
    `some none` = `<>` (matched by the regex, absent from `_COMPARATOR`) -/
def opOfChars : List Char → Option (Option Cmp)
  | ['='] => some (some .eq)
  | ['=', '='] => some (some .eq)
  | ['>'] => some (some .gt)
  | ['<'] => some (some .lt)
  | ['!', '='] => some (some .ne)
  | ['>', '='] => some (some .ge)
  | ['<', '='] => some (some .le)
  | ['<', '>'] => some none
  | _ => none

def digitsToNat (ds : List Char) : Nat := ds.foldl (fun acc c => acc * 10 + (c.toNat - 48)) 0

/-- `(\d*[.,]?\d*)$` on the remaining characters: integer digits, separator, fraction digits -/
def splitValue (cs : List Char) : Option (List Char × Option Char × List Char) :=
  let d1 := cs.takeWhile Char.isDigit
  let r := cs.dropWhile Char.isDigit
  match r with
  | [] => some (d1, none, [])
  | c :: r' =>
    if c == '.' || c == ',' then
      let d2 := r'.takeWhile Char.isDigit
      if r'.dropWhile Char.isDigit == [] then some (d1, some c, d2) else none
    else none

/-- `int(value)` else `float(value)` on a string matched by `\d*[.,]?\d*` -/
def valueOf (d1 : List Char) (sep : Option Char) (d2 : List Char) : Except Err (Rat × Bool) :=
  match sep with
  | none => if d1 == [] then .error .nonNumeric else .ok ((digitsToNat d1 : Nat), true)
  | some c =>
    if c == '.' && (d1 ++ d2) != [] then
      .ok (((digitsToNat (d1 ++ d2) : Nat) : Rat) / ((10 ^ d2.length : Nat) : Rat), false)
    else .error .nonNumeric

/-- `parse_allele_filter` on ASCII strings.
    `^(\w+)(=|>|<|==|!=|>=|<|<=|<>)(\d*[.,]?\d*)$` — `$` also matches before one trailing newline;
    the field is the maximal run of word characters, the operator everything up to the value. -/
def parseAlleleFilterChars (cs0 : List Char) : Except Err Filter :=
  let cs := if cs0.getLast? == some '\n' then cs0.dropLast else cs0
  let field := cs.takeWhile isWordChar
  let rest := cs.dropWhile isWordChar
  let opc := rest.takeWhile isOpChar
  let val := rest.dropWhile isOpChar
  if field == [] then .error .invalidFilter else
  match opOfChars opc, splitValue val with
  | some op, some (d1, sep, d2) =>
    match op with
    | none => .error .invalidOperator
    | some op =>
      match valueOf d1 sep d2 with
      | .error e => .error e
      | .ok (v, isInt) => .ok { field := String.ofList field, op := op, value := v, isInt := isInt }
  | _, _ => .error .invalidFilter

def parseAlleleFilter (s : String) : Except Err Filter := parseAlleleFilterChars s.toList

/-! ## C16 — records, filter application, prior frequencies -/

/-- header `Number` of an INFO field, as far as the code distinguishes it -/
inductive Number | R | A | one | other
deriving Repr, DecidableEq

/-- an INFO field declared in the header; `values = none`: key absent from the record;
    a value `none` is a missing (`.`) entry, which pysam returns as `None` -/
structure InfoField where
  name : String
  number : Number
  isInt : Bool
  values : Option (List (Option Rat))
deriving Repr

/-- what `from_variant_record` reads of a record besides the sequences -/
structure RecordM where
  nAlts : Nat
  refMasked : Bool            -- `"REFMASKED" in record.info`
  info : List InfoField
deriving Repr

def cmpRat : Cmp → Rat → Rat → Bool
  | .eq, x, v => x == v
  | .gt, x, v => v < x
  | .ge, x, v => v ≤ x
  | .lt, x, v => x < v
  | .le, x, v => x ≤ v
  | .ne, x, v => x != v

/-- one element of `func(observations, value)`; a `None` makes numpy fall back to Python's
    comparison: `==` is False, `!=` is True, an ordering raises `TypeError` -/
def cmpObs (op : Cmp) (v : Rat) : Option Rat → Except Err Bool
  | some x => .ok (cmpRat op x v)
  | none =>
    match op with
    | .eq => .ok false
    | .ne => .ok true
    | _ => .error .typeError

def cmpAll (op : Cmp) (v : Rat) : List (Option Rat) → Except Err (List Bool)
  | [] => .ok []
  | x :: xs =>
    match cmpObs op v x, cmpAll op v xs with
    | .ok b, .ok bs => .ok (b :: bs)
    | .error e, _ => .error e
    | _, .error e => .error e

def findField (r : RecordM) (name : String) : Option InfoField := r.info.find? (·.name == name)

/-- `apply_allele_filter(record, field, func, value)` → the `keep` array -/
def applyAlleleFilter (r : RecordM) (field : String) (op : Cmp) (v : Rat) : Except Err (List Bool) :=
  match findField r field with
  | none => .error .notInHeader
  | some f =>
    match f.number with
    | .R =>
      match f.values with
      | none => .ok (List.replicate (1 + r.nAlts) true)
      | some obs => if obs.length = 1 + r.nAlts then cmpAll op v obs else .error .assertion
    | .A =>
      match f.values with
      | none => .ok (List.replicate (1 + r.nAlts) true)
      | some obs =>
        -- a record without ALT has nothing to filter on an A-length field (its value is the missing value)
        if r.nAlts = 0 then .ok (List.replicate (1 + r.nAlts) true) else
        if obs.length = r.nAlts then
          match cmpAll op v obs with
          | .ok bs => .ok (true :: bs)
          | .error e => .error e
        else .error .assertion
    | _ => .error .invalidLength

/-- the `LocusPrior` fields C16 speaks about -/
structure LocusPriorM where
  keep : List Bool              -- per record allele: retained? (`keep[0]` is forced to True)
  maskRef : Bool                -- `mask_reference_allele`
  raw : List Rat                -- values of the retained alleles before normalisation (masked REF = 0, missing = 0)
  nanRaw : Bool                 -- some retained value is missing: `np.array(.., dtype=float)` turns `None` into NaN
  freqs : Option (List Rat)     -- `frequencies`; `none` = all NaN
deriving Repr

def sumRat (l : List Rat) : Rat := l.foldr (· + ·) 0

/-- `denom = frequencies.sum(); frequencies /= denom if denom > 0 else nan` -/
def normaliseFreqs (raw : List Rat) : Option (List Rat) :=
  if 0 < sumRat raw then some (raw.map (· / sumRat raw)) else none

/-- `frequencies[keep]` / `tuple(s for s, k in zip(sequences, keep) if k)` -/
def select {α} (xs : List α) (keep : List Bool) : List α :=
  ((xs.zip keep).filter (·.2)).map (·.1)

/-- the frequency array before masking: `np.array(record.info[tag], dtype=float)` (a missing entry is NaN,
    here `none`; Integer and Float fields alike) or the flat prior -/
def frequencyArray (r : RecordM) (tag : Option String) : Except Err (List (Option Rat)) :=
  let n := r.nAlts + 1
  match tag with
  | none => .ok (List.replicate n (some (1 / (n : Rat))))
  | some t =>
    if t == "" then .ok (List.replicate n (some (1 / (n : Rat)))) else
    match findField r t with
    | none => .error .invalidHeader
    | some f =>
      match f.values with
      | none => .error .freqLength            -- `record.info.get(tag, ())` is `()`
      | some vs =>
        if f.number == .one then .error .typeError   -- `len()` of a scalar
        else if vs.length ≠ n then .error .freqLength
        else .ok vs

/-- the filter step of `from_variant_record`: the `keep` array (with `keep[0]` forced to True) and
    `mask_reference_allele` — a failing reference is masked, not removed -/
def filterKeep (r : RecordM) (filter : Option String) : Except Err (List Bool × Bool) :=
  match filter with
  | none => .ok (List.replicate (r.nAlts + 1) true, r.refMasked)
  | some fs =>
    match parseAlleleFilter fs with
    | .error e => .error e
    | .ok f =>
      match applyAlleleFilter r f.field f.op f.value with
      | .error e => .error e
      | .ok keep =>
        if keep.headD true then .ok (keep, r.refMasked) else .ok (true :: keep.tail, true)

/-- `if mask_reference_allele: frequencies[0] = 0` -/
def maskedVals (maskRef : Bool) (vals : List (Option Rat)) : List (Option Rat) :=
  if maskRef then vals.set 0 (some 0) else vals

/-- masking, sub-setting and normalisation of the frequency array: a NaN among the retained values makes
    the sum NaN, `denom > 0` false and the whole vector NaN -/
def finishPrior (keep : List Bool) (maskRef : Bool) (vals : List (Option Rat)) : LocusPriorM :=
  let kept := select (maskedVals maskRef vals) keep
  let raw := kept.map (fun x => x.getD 0)
  let nan := kept.any Option.isNone
  { keep := keep, maskRef := maskRef, raw := raw, nanRaw := nan,
    freqs := if nan then none else normaliseFreqs raw }

/-- `LocusPrior.from_variant_record` (mask / filter / frequency part) -/
def locusPrior (r : RecordM) (tag : Option String) (filter : Option String) :
    Except Err LocusPriorM :=
  match filterKeep r filter with
  | .error e => .error e
  | .ok (keep, maskRef) =>
    match frequencyArray r tag with
    | .error e => .error e
    | .ok vals => .ok (finishPrior keep maskRef vals)

/-! ## C16 — masking, sub-setting, relabelling in `call_sample_genotypes` -/

/-- `frequencies[i]` with NaN never equal to zero -/
def freqIsZero (P : LocusPriorM) (i : Nat) : Bool :=
  match P.freqs with
  | none => false
  | some fs => fs.getD i 1 == 0

/-- `mask = zeros; mask[0] = mask_reference_allele; mask |= prior_frequencies == 0` -/
def maskAt (P : LocusPriorM) (i : Nat) : Bool := (i == 0 && P.maskRef) || freqIsZero P i

/-- `np.where(~mask)[0]` — the record allele numbers handed to the sampler, in order -/
def callLabels (P : LocusPriorM) : List Nat :=
  (List.range P.raw.length).filter (fun i => !maskAt P i)

inductive Scenario | valid | noa | af0
deriving Repr, DecidableEq

/-- invalid-scenario short circuit of `call.py` / `call_pedigree.py` -/
def callScenario (P : LocusPriorM) : Scenario :=
  if (callLabels P).isEmpty then .noa
  else if P.freqs.isNone then .af0
  else .valid

/-- invalid-scenario short circuit of `call_exact.py` -/
def exactScenario (P : LocusPriorM) : Scenario :=
  if P.maskRef && P.raw.length == 1 then .noa
  else if P.freqs.isNone then .af0
  else .valid

/-- `mcmc_prior_frequencies = prior_frequencies[~mask]` -/
def callFrequencies (P : LocusPriorM) : List Rat :=
  match P.freqs with
  | none => []
  | some fs => (callLabels P).map (fun i => fs.getD i 0)

/-- `labels[self.genotypes]` for one genotype; `none` = `IndexError` -/
def relabel (labels : List Nat) (g : List Nat) : Option (List Nat) :=
  optAll (g.map (fun a => labels[a]?))

/-- `labels.max() + 1` — the default `n_allele` of `relabel(labels)` -/
def relabelNAllele (labels : List Nat) : Nat := labels.foldl max 0 + 1

/-- `relabel(labels, n_allele=None)`: the allele count of the relabelled trace -/
def relabelNAlleleWith (labels : List Nat) (nAllele : Option Nat) : Nat :=
  match nAllele with
  | none => relabelNAllele labels
  | some n => n

/-- `trace.relabel(mcmc_haplotype_labels, n_allele=len(haplotypes))` in `call.py` / `call_pedigree.py`;
    without masking the trace keeps `len(self.haplotypes)` of `CallingMCMC.fit` — the same number -/
def callNAllele (P : LocusPriorM) : Nat :=
  relabelNAlleleWith (callLabels P) (some P.raw.length)

/-- `_posterior_frequencies`: per allele `0 .. nAllele-1` the number of copies over all retained
    genotypes (the code divides by the number of observations / ploidy afterwards) -/
def posteriorCounts (nAllele : Nat) (trace : List (List Nat)) : List Nat :=
  (List.range nAllele).map (fun a => (trace.map (fun g => g.count a)).foldr (· + ·) 0)

end MCHap
