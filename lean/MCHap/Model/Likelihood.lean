/-
Model of `mchap/assemble/likelihood.py` (`log_likelihood`, `log_likelihood_structural_change`),
`mchap/jitutils.py:structural_change`, `mchap/calling/likelihood.py:log_likelihood_alleles` and the
read sub-setting of `mchap/pedigree/likelihood.py`, in exact rational arithmetic:
the code's `llk` is the natural logarithm of `lik` (theorem `C04.logLik_eq_log_lik`).

Core Lean only.
-/
namespace MCHap

/-- haplotype: allele index per SNV -/
abbrev Hap := List Nat
/-- ordered genotype, as the code stores it: `ploidy` rows -/
abbrev Genotype := List Hap
/-- probabilistic read: `n_base × n_nucl`, `none` = NaN (no call) -/
abbrev Read := List (List (Option Rat))
/-- unique reads with their `read_counts` -/
abbrev Reads := List (Read × Nat)

/-- `reads[r, j, a]` with NaN ↦ factor one (`if np.isnan(val): pass`) -/
def cell (r : Read) (j a : Nat) : Rat :=
  match (r.getD j []).getD a none with
  | none => 1
  | some v => v

/-- inner `for j in range(n_base)` product, with the allele at site `j` given by `f` -/
def hapProbF (r : Read) (nb : Nat) (f : Nat → Nat) : Rat :=
  (List.range nb).foldr (fun j acc => cell r j (f j) * acc) 1

def alleleAt (g : Genotype) (h j : Nat) : Nat := (g.getD h []).getD j 0

/-- `read_hap_prod` for one stored haplotype -/
def hapProb (r : Read) (nb : Nat) (h : Hap) : Rat := hapProbF r nb (fun j => h.getD j 0)

/-- `read_prob = Σ_h read_hap_prod / ploidy` -/
def readProb (r : Read) (nb : Nat) (g : Genotype) : Rat :=
  (g.map (fun h => hapProb r nb h / (g.length : Rat))).sum

/-- likelihood `∏_r read_prob^count` (the code returns its logarithm `Σ_r count · log read_prob`) -/
def lik (rs : Reads) (nb : Nat) (g : Genotype) : Rat :=
  rs.foldr (fun rc acc => readProb rc.1 nb g ^ rc.2 * acc) 1

/-- which stored haplotype supplies site `j` of row `h` under a structural change -/
def selHap (idx : List Nat) (lo hi : Nat) (h j : Nat) : Nat :=
  if lo ≤ j ∧ j < hi then idx.getD h 0 else h

/-- `log_likelihood_structural_change`: the likelihood of the rearranged genotype evaluated by
    index indirection, without building it -/
def readProbStructural (r : Read) (nb : Nat) (g : Genotype) (idx : List Nat) (lo hi : Nat) : Rat :=
  ((List.range g.length).map (fun h =>
      hapProbF r nb (fun j => alleleAt g (selHap idx lo hi h j) j) / (g.length : Rat))).sum

def likStructural (rs : Reads) (nb : Nat) (g : Genotype) (idx : List Nat) (lo hi : Nat) : Rat :=
  rs.foldr (fun rc acc => readProbStructural rc.1 nb g idx lo hi ^ rc.2 * acc) 1

/-- `jitutils.structural_change` (returns the new genotype instead of mutating) -/
def structuralChange (g : Genotype) (nb : Nat) (idx : List Nat) (lo hi : Nat) : Genotype :=
  (List.range g.length).map (fun h =>
    (List.range nb).map (fun j => alleleAt g (selHap idx lo hi h j) j))

/-- `haplotypes[genotype_alleles]` -/
def genotypeOfAlleles (haps : List Hap) (alleles : List Nat) : Genotype :=
  alleles.map (fun a => haps.getD a [])

/-- `calling.likelihood.log_likelihood_alleles` -/
def likAlleles (rs : Reads) (nb : Nat) (haps : List Hap) (alleles : List Nat) : Rat :=
  lik rs nb (genotypeOfAlleles haps alleles)

/-- the pedigree wrapper first drops reads with `read_counts == 0` -/
def positiveReads (rs : Reads) : Reads := rs.filter (fun rc => rc.2 > 0)

def likAllelesPedigree (rs : Reads) (nb : Nat) (haps : List Hap) (alleles : List Nat) : Rat :=
  lik (positiveReads rs) nb (genotypeOfAlleles haps alleles)

/-- expand `(read, k)` into `k` copies of `(read, 1)` -/
def expandCounts (rs : Reads) : Reads :=
  rs.flatMap (fun rc => List.replicate rc.2 (rc.1, 1))

end MCHap
