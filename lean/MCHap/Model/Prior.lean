/-
Model of the genotype priors, in exact rational arithmetic:
`mchap/calling/prior.py` (`calculate_alphas`, `log_genotype_prior`, `log_genotype_allele_prior`),
`mchap/assemble/prior.py` (`log_genotype_null_prior`, `log_dirichlet_multinomial_pmf`,
`log_genotype_prior`) and `mchap/jitutils.py:ln_equivalent_permutations`.

The code works in log space with `lgamma`; `Γ(a + k)/Γ(a)` is the rising factorial `rising a k`
(theorem `C05.gamma_ratio_eq_rising`), so every value below is the exponential of what the code returns.

Core Lean only.
-/
namespace MCHap

def factorial : Nat → Nat
  | 0 => 1
  | n + 1 => (n + 1) * factorial n

/-- rising factorial `a (a+1) … (a+k-1)` = `Γ(a+k)/Γ(a)` -/
def rising (a : Rat) : Nat → Rat
  | 0 => 1
  | k + 1 => rising a k * (a + (k : Rat))

/-- allele counts of a genotype over alleles `0 .. n-1` -/
def countsOf (n : Nat) (g : List Nat) : List Nat := (List.range n).map (fun a => g.count a)

/-- the sorted genotype with the given allele counts -/
def ofCounts (c : List Nat) : List Nat :=
  (List.range c.length).flatMap (fun a => List.replicate (c.getD a 0) a)

/-- `exp(ln_equivalent_permutations(dosage))`: `p! / ∏ d_i!` for `p = Σ d_i` -/
def permsOfDosage (dosage : List Nat) : Rat :=
  (factorial dosage.sum : Rat) / ((dosage.map factorial).foldr (· * ·) 1 : Nat)

/-- `calculate_alphas`: `frequency · (1 − F)/F` -/
def alphaOf (F : Rat) (freq : Rat) : Rat := freq * ((1 - F) / F)

/-- per-allele prior frequencies: `frequencies` if given, else flat `1/unique_haplotypes` -/
def freqOf (n : Nat) (freqs : Option (List Rat)) (a : Nat) : Rat :=
  match freqs with
  | none => 1 / (n : Rat)
  | some fs => fs.getD a 0

def prodList (l : List Rat) : Rat := l.foldr (· * ·) 1

/-- Dirichlet-multinomial pmf of a count vector: `p! Γ(A)/Γ(p+A) ∏ Γ(c_i+α_i)/(c_i! Γ(α_i))`
    in rising-factorial form; `alphas` lists one dispersion per allele, `A` their sum.
    (A count `c_i = 0` contributes a factor one, as the `if dose > 0` of the code.) -/
def dmCounts (alphas : List Rat) (c : List Nat) : Rat :=
  let p := c.sum
  (factorial p : Rat) / rising alphas.sum p *
    prodList ((alphas.zip c).map (fun ac => rising ac.1 ac.2 / (factorial ac.2 : Rat)))

/-- multinomial pmf of a count vector: `p!/∏c_i! ∏ f_i^{c_i}` -/
def multinomialCounts (fs : List Rat) (c : List Nat) : Rat :=
  (factorial c.sum : Rat) *
    prodList ((fs.zip c).map (fun fc => fc.1 ^ fc.2 / (factorial fc.2 : Rat)))

/-- `calling.prior.log_genotype_prior` (exp of): prior of an unordered genotype given as a list of
    allele indices `< n` (any order) -/
def callPrior (n : Nat) (F : Rat) (freqs : Option (List Rat)) (g : List Nat) : Rat :=
  let fs := (List.range n).map (freqOf n freqs)
  let c := countsOf n g
  if F = 0 then multinomialCounts fs c
  else dmCounts (fs.map (alphaOf F)) c

/-- `calling.prior.log_genotype_allele_prior` (exp of): probability of the allele at position `k`
    given the other `p − 1` alleles held constant -/
def allelePrior (n : Nat) (F : Rat) (freqs : Option (List Rat)) (g : List Nat) (k : Nat) : Rat :=
  let a := g.getD k 0
  if F = 0 then freqOf n freqs a
  else
    let constSum : Rat := ((g.length - 1 : Nat) : Rat)
    let constIbs : Rat := ((g.count a - 1 : Nat) : Rat)
    let sumAlpha :=
      match freqs with
      | none => alphaOf F (1 / (n : Rat)) * (n : Rat)
      | some fs => (fs.map (alphaOf F)).sum
    (alphaOf F (freqOf n freqs a) + constIbs) / (constSum + sumAlpha)

/-- `assemble.prior.log_genotype_prior` (exp of) on a dosage vector (`get_haplotype_dosage`: one entry
    per haplotype slot, duplicates carry 0) with `U` possible haplotypes -/
def assemblePrior (U : Nat) (F : Rat) (dosage : List Nat) : Rat :=
  let p := dosage.sum
  if F = 0 then permsOfDosage dosage / ((U : Rat) ^ p)
  else
    let alpha := alphaOf F (1 / (U : Rat))
    let sumAlpha := (1 - F) / F
    (factorial p : Rat) / rising sumAlpha p *
      prodList (dosage.map (fun d => rising alpha d / (factorial d : Rat)))

/-- `get_haplotype_dosage`: count of each haplotype at its first occurrence, 0 at later copies -/
def haplotypeDosage (g : List (List Nat)) : List Nat :=
  let rec go (seen : List (List Nat)) : List (List Nat) → List Nat
    | [] => []
    | h :: t => (if seen.contains h then 0 else (h :: t).count h) :: go (h :: seen) t
  go [] g

/-- all count vectors of length `n` with sum `p` -/
def compositions : Nat → Nat → List (List Nat)
  | 0, 0 => [[]]
  | 0, _ + 1 => []
  | n + 1, p => (List.range (p + 1)).flatMap (fun i => (compositions n (p - i)).map (i :: ·))

end MCHap
