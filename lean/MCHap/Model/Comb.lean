/-
Model of `mchap/jitutils.py`: `_greatest_common_denominatior`, `_comb`, `comb`,
`_comb_with_replacement`, `comb_with_replacement`, `genotype_alleles_as_index`,
`index_as_genotype_alleles`, `increment_genotype`.

Core Lean only (no Mathlib): this file is compiled into the native driver.
-/
namespace MCHap

/-- `_greatest_common_denominatior`: the Euclid loop `while y != 0: x, y = y, x % y`
    (fuel-driven so that it is structurally recursive; `y + 1` iterations always suffice). -/
def gcdFuel : Nat → Nat → Nat → Nat
  | 0, x, _ => x
  | fuel + 1, x, y => if y = 0 then x else gcdFuel fuel y (x % y)

def gcdC (x y : Nat) : Nat := gcdFuel (y + 1) x y

/-- One iteration of the `_comb` loop at divisor `d` with the current `n` and accumulator `r`.
    Returns the intermediate product `(r // gcd) * n` (the largest value the iteration holds in
    an int64 register) and the new accumulator. -/
def combIter (n r d : Nat) : Nat × Nat :=
  let g := gcdC r d
  let prod := (r / g) * n
  (prod, prod / (d / g))

/-- the loop `for d in range(d, d + s)`; `n` decreases by one per iteration.
    Returns the final accumulator and the maximum intermediate seen. -/
def combLoop : Nat → Nat → Nat → Nat → Nat → Nat × Nat
  | 0, _, _, r, mx => (r, mx)
  | s + 1, n, d, r, mx =>
    let (prod, r') := combIter n r d
    combLoop s (n - 1) (d + 1) r' (max mx prod)

/-- `k = min(k, n - k)`: the symmetric reduction applied at the start of `_comb`
    (present in the code since the F1 repair; see known_findings.json). -/
def combReduce (n k : Nat) : Nat := if n - k < k then n - k else k

/-- `_comb(n, k)` on non-negative arguments; second component: largest intermediate. -/
def combRaw (n k : Nat) : Nat × Nat :=
  if k > n then (0, 0) else combLoop (combReduce n k) n 1 1 1

/-- the 100 × 12 table fast path is the same function by construction (the table is filled by
    `_comb` at import time); modelled as the identity and compared by the correspondence on
    both sides of the table edge. -/
def comb (n k : Nat) : Nat := (combRaw n k).1

/-- `comb` as the int64 code computes it: `none` when some intermediate does not fit a signed
    64-bit register (the implementation's result is then unspecified). -/
def combChecked (n k : Nat) : Option Nat :=
  let (r, mx) := combRaw n k
  if mx < 2 ^ 63 then some r else none

/-- `_comb_with_replacement` (with the code's `(0, 0) ↦ 0` convention). -/
def cwr (n k : Nat) : Nat :=
  if n = 0 ∧ k = 0 then 0 else comb (n + k - 1) k

def cwrChecked (n k : Nat) : Option Nat :=
  if n = 0 ∧ k = 0 then some 0 else combChecked (n + k - 1) k

/-- `genotype_alleles_as_index` on a list of non-negative alleles: Σ_i cwr(a_i, i+1). -/
def genotypeIndexFrom (i : Nat) : List Nat → Nat
  | [] => 0
  | a :: as => cwr a (i + 1) + genotypeIndexFrom (i + 1) as

def genotypeIndex (g : List Nat) : Nat := genotypeIndexFrom 0 g

/-- inner `while new <= remainder` search of `index_as_genotype_alleles` for position size `p`:
    the largest `n` with `cwr n p ≤ remainder` (searching upward from `n`), together with
    `cwr n p`. `fuel` bounds the search (any fuel > remainder suffices because for `p ≥ 1`
    `cwr n p ≥ n`). -/
def searchAllele (p remainder : Nat) : Nat → Nat → Nat × Nat
  | 0, n => (n, cwr n p)
  | fuel + 1, n =>
    if cwr (n + 1) p ≤ remainder then searchAllele p remainder fuel (n + 1)
    else (n, cwr n p)

/-- `index_as_genotype_alleles(index, ploidy)` for `index ≥ 0`: alleles in ascending order. -/
def indexGenotypeAux (remainder : Nat) : Nat → List Nat → List Nat
  | 0, acc => acc
  | p + 1, acc =>
    let (n, c) := searchAllele (p + 1) remainder (remainder + 1) 0
    indexGenotypeAux (remainder - c) p (n :: acc)

def indexGenotype (index ploidy : Nat) : List Nat := indexGenotypeAux index ploidy []

/-- `increment_genotype` on an ascending genotype; `none` models the `ValueError`
    for a non-ascending input (and the empty genotype, which the code cannot receive). -/
def incrementGenotype : List Nat → Option (List Nat)
  | [] => none
  | [a] => some [a + 1]
  | a :: rest =>
    -- leading run of `a`
    let run := rest.takeWhile (· == a)
    let tail := rest.dropWhile (· == a)
    match tail with
    | [] => -- all alleles equal: last += 1, others 0
      some (List.replicate run.length 0 ++ [a + 1])
    | b :: tl =>
      if b > a then
        -- the last element of the run (index run.length) is incremented, those before zeroed
        some (List.replicate run.length 0 ++ (a + 1) :: b :: tl)
      else none

/-- all genotypes of the given ploidy over `n` alleles in the order `incrementGenotype` visits them -/
def enumGenotypes (n ploidy : Nat) : List (List Nat) :=
  let total := cwr n ploidy
  let rec go : Nat → List Nat → List (List Nat) → List (List Nat)
    | 0, _, acc => acc.reverse
    | k + 1, g, acc =>
      match incrementGenotype g with
      | some g' => go k g' (g :: acc)
      | none => (g :: acc).reverse
  if ploidy = 0 then [] else go total (List.replicate ploidy 0) []

/-- The VCF specification's ordering, written independently of the code: genotypes of ploidy `p`
    with alleles `≤ a`, by recursion on the largest allele (VCF 4.3, section 1.6.2 `GL`). -/
def vcfOrder : Nat → Nat → List (List Nat)
  | 0, _ => [[]]
  | p + 1, 0 => [List.replicate (p + 1) 0]
  | p + 1, a + 1 =>
    vcfOrder (p + 1) a ++ (vcfOrder p (a + 1)).map (· ++ [a + 1])

end MCHap
