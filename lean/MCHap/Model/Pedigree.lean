import MCHap.Model.Comb
import MCHap.Model.Prior
import MCHap.Model.Likelihood
import MCHap.Model.CallMoves
/-
Model of the pedigree inheritance prior and of the pedigree sampler moves, in exact rationals:
`mchap/pedigree/prior.py`, `mchap/pedigree/validation.py`, `mchap/pedigree/mcmc.py`.

An unordered genotype is a COUNT VECTOR (one entry per allele, or — exactly as in the code — one entry
per progeny slot with the count stored at the first occurrence of an allele and 0 at later copies;
the evaluation below is the same function of such vectors, `pp` / `pq` are passed separately because
parental alleles that do not occur in the progeny are not part of the vectors the code builds).

Two layers:
* specification: `gameteSpec`, `mixPmf`, `trioPmf` (sum over ALL pairs of gamete count vectors),
  `trioAlleleSpec`;
* the code's own evaluation structure: constraint vectors, the four `valid_p / valid_q` branches,
  the gamete enumerator `setInitialDosage` / `incrementDosage` written literally
  (`trioPmfCode`, `trioAlleleCode`, `trioValid`, `duoValid`).
Errors of the code (`ValueError`, `AssertionError`, `ZeroDivisionError`, NaN) are explicit:
the `…Guard` functions say when the code raises, the value functions are only meaningful otherwise.

Core Lean only.
-/
namespace MCHap

/-! ### vectors -/

def vadd (a b : List Nat) : List Nat := List.zipWith (· + ·) a b
def vsub (a b : List Nat) : List Nat := List.zipWith (· - ·) a b
def vle (a b : List Nat) : Bool := (List.zipWith (fun x y => decide (x ≤ y)) a b).all id
def zeros (n : Nat) : List Nat := List.replicate n 0
/-- unit vector `e_x` of length `n` -/
def unitVec (n x : Nat) : List Nat := (List.range n).map (fun i => if i = x then 1 else 0)
/-- `g − e_x` (truncated) -/
def decAt (g : List Nat) (x : Nat) : List Nat := g.set x (g.getD x 0 - 1)

/-! ### allele arrays → slot vectors (`set_allelic_dosage`, `set_parental_copies`,
    `set_dosage_frequencies`) -/

def incrAt (l : List Nat) (j : Nat) : List Nat := l.set j (l.getD j 0 + 1)

/-- `set_allelic_dosage`: count of each allele stored at its first occurrence; negative = padding -/
def setAllelicDosage (g : List Int) : List Nat :=
  g.foldl (fun out a => if a < 0 then out else incrAt out (g.idxOf a)) (zeros g.length)

/-- `set_parental_copies`: copies in the parent of each progeny allele, at the first occurrence
    of that allele in the progeny (a parental allele absent from the progeny is dropped) -/
def setParentalCopies (parent progeny : List Int) : List Nat :=
  parent.foldl (fun out a => if a < 0 then out else incrAt out (progeny.idxOf a)) (zeros progeny.length)

/-- `set_dosage_frequencies` (NaN at padding slots is never read: modelled as 0) -/
def slotFreqs (g : List Int) (fs : List Rat) : List Rat :=
  g.map (fun a => if a < 0 then 0 else fs.getD a.toNat 0)

/-! ### the gamete enumerator, literally -/

/-- body of `set_initial_dosage`: greedy left-to-right fill; returns the vector and what is left -/
def fillGreedy : Nat → List Nat → List Nat × Nat
  | p, [] => ([], p)
  | p, c :: t =>
    let k := min p c
    let r := fillGreedy (p - k) t
    (k :: r.1, r.2)

/-- `set_initial_dosage`; `none` = `ValueError("Ploidy does not fit within constraint")` -/
def setInitialDosage (tau : Nat) (constraint : List Nat) : Option (List Nat) :=
  let r := fillGreedy tau constraint
  if r.2 > 0 then none else some r.1

/-- `while (j < max_ploidy) and (change > 0)`: raise the first entry to the right that has room -/
def raiseFirst : List (Nat × Nat) → Option (List Nat)
  | [] => none
  | (d, c) :: t => if d < c then some ((d + 1) :: t.map (·.1)) else (raiseFirst t).map (d :: ·)

/-- the leftward `while searching` loop on the reversed prefix; `consRight` are the constraints of
    the entries already zeroed (in array order); then `fill to the right` -/
def searchLeft : List (Nat × Nat) → Nat → Nat → List Nat → Option (List Nat)
  | [], _, _, _ => none                                  -- ValueError("Final dosage")
  | (d, c) :: l, change, space, consRight =>
    if d > 0 ∧ space > change then
      let r := fillGreedy (change + 1) consRight
      if r.2 > 0 then none                               -- would run off the array
      else some ((l.reverse.map (·.1)) ++ (d - 1) :: r.1)
    else searchLeft l (change + d) (space + c) (c :: consRight)

/-- `increment_dosage` (returns the next vector instead of mutating; `none` = the code raises:
    `ValueError("Final dosage")`, or the all-zero vector which the code cannot handle) -/
def incrementDosage (dosage constraint : List Nat) : Option (List Nat) :=
  let rp := (dosage.zip constraint).reverse
  let zsRev := rp.takeWhile (fun x => x.1 = 0)
  match rp.dropWhile (fun x => x.1 = 0) with
  | [] => none
  | (di, ci) :: left =>
    let zs := zsRev.reverse
    match raiseFirst zs with
    | some zs' => some ((left.reverse.map (·.1)) ++ (di - 1) :: zs')
    | none => searchLeft left di ci (ci :: zs.map (·.2))

def enumGo : Nat → List Nat → List Nat → Option (List (List Nat))
  | 0, _, _ => none
  | f + 1, c, g =>
    match incrementDosage g c with
    | none => some [g]
    | some g' => (enumGo f c g').map (g :: ·)

def boxSize (c : List Nat) : Nat := (c.map (· + 1)).foldr (· * ·) 1

/-- the sequence of gametes the `while True: … increment_dosage … except: break` loops visit;
    `none`: the initial fill fails (the callers test `constraint.sum() >= tau` first) -/
def enumDosage? (tau : Nat) (c : List Nat) : Option (List (List Nat)) :=
  match setInitialDosage tau c with
  | none => none
  | some g0 => enumGo (boxSize c + 1) c g0

def enumDosage (tau : Nat) (c : List Nat) : List (List Nat) := (enumDosage? tau c).getD []

/-! ### constraints -/

def minVec (a b : List Nat) : List Nat := List.zipWith min a b

/-- `if (dosage[i] >= 2) and (constraint[i] == 1): constraint[i] = 2` -/
def widen (d cons : List Nat) : List Nat :=
  List.zipWith (fun di ci => if di ≥ 2 ∧ ci = 1 then 2 else ci) d cons

/-- constraint vector of one parent: `min(dosage, parental copies)`, widened for double reduction -/
def constraintOf (d dp : List Nat) (lam : Rat) : List Nat :=
  if lam > 0 then widen d (minVec d dp) else minVec d dp

/-! ### gamete pmf -/

/-- `dosage_permutations` -/
def dosagePermutations (g dp : List Nat) : Nat :=
  ((g.zip dp).map (fun x => comb x.2 x.1)).foldr (· * ·) 1

/-- `double_reduction_permutations`; `none` = its `assert n == 0` fails -/
def drPermsGo : List (Nat × Nat) → Nat → Option Nat
  | [], n => some n
  | (g, d) :: t, n =>
    if g = 2 then (if n = 0 then drPermsGo t d else none)
    else if g ≠ 0 then some 0 else drPermsGo t n

def doubleReductionPermutations (g dp : List Nat) : Option Nat := drPermsGo (g.zip dp) 0

/-- when `gamete_log_pmf` raises: λ > 0 with τ ≠ 2, `comb(ploidy, τ) = 0` or ploidy 0 under the
    division, or the assertion of `double_reduction_permutations` -/
def gameteGuard (g : List Nat) (tau : Nat) (dp : List Nat) (pp : Nat) (lam : Rat) : Bool :=
  decide (comb pp tau ≠ 0) &&
  (if lam > 0 then decide (tau = 2) && decide (pp ≠ 0) && (doubleReductionPermutations g dp).isSome
   else true)

/-- `exp(gamete_log_pmf)` -/
def gametePmf (g : List Nat) (tau : Nat) (dp : List Nat) (pp : Nat) (lam : Rat) : Rat :=
  let base := (dosagePermutations g dp : Rat) / (comb pp tau : Rat) * (1 - lam)
  if lam > 0 then
    base + (((doubleReductionPermutations g dp).getD 0 : Nat) : Rat) / (pp : Rat) * lam
  else base

/-- `exp(gamete_const_log_pmf)`: the gamete without one copy of allele `x`, no λ -/
def gameteConstPmf (x : Nat) (g : List Nat) (tau : Nat) (dp : List Nat) (pp : Nat) : Rat :=
  if g.getD x 0 < 1 then 0 else gametePmf (decAt g x) (tau - 1) dp pp 0

/-- the raw `prob` of `gamete_allele_log_pmf` before the logarithm; `none` = one of its assertions
    fails or it divides by zero.  (Before the F11 repair a negative "available" count gave a
    negative `prob`, hence NaN; the code now returns probability zero there.) -/
def gameteAlleleRaw (gcount tau pcount pp : Nat) (lam : Rat) : Option Rat :=
  if gcount > tau ∨ pcount > pp then none
  else if gcount < 1 then some 0
  else if pcount = 0 then some 0
  else
    let constCount := gcount - 1
    let constPloidy := tau - 1
    let avail : Int := (pcount : Int) - (constCount : Int)
    if avail < 0 then some 0 else      -- the constant alleles already exceed the parental copies
    let total : Int := (pp : Int) - (constPloidy : Int)
    if total = 0 then none else
    let prob : Rat := (avail : Rat) / (total : Rat) * (1 - lam)
    if lam > 0 then
      if tau ≠ 2 then none
      else if constCount ≥ 1 then some (prob + (constCount : Rat) / (constPloidy : Rat) * lam)
      else some prob
    else some prob

/-- `log_unknown_dosage_prior` (exp of): multinomial pmf with the prior frequencies -/
def unknownPmf (fs : List Rat) (g : List Nat) : Rat := multinomialCounts fs g

/-- `log_unknown_const_prior` (exp of) -/
def unknownConstPmf (fs : List Rat) (g : List Nat) (x : Nat) : Rat :=
  if g.getD x 0 > 0 then unknownPmf fs (decAt g x) else 0

/-! ### one trio -/

/-- the arguments of `trio_log_pmf` with the genotypes as vectors (see the file header) -/
structure Trio where
  d : List Nat
  dp : List Nat
  dq : List Nat
  /-- ploidy of parent p; 0 = unknown parent -/
  pp : Nat
  pq : Nat
  tp : Nat
  tq : Nat
  lp : Rat
  lq : Rat
  ep : Rat
  eq : Rat
  fs : List Rat

/-- `error_p = 1.0 if (tau_p == 0) else error_p` -/
def effErr (tau : Nat) (e : Rat) : Rat := if tau = 0 then 1 else e

/-- `valid_p` -/
def validSide (cons : List Nat) (tau : Nat) (e : Rat) : Bool :=
  decide (cons.sum ≥ tau) && decide (tau > 0) && decide (e < 1)

def Trio.consP (T : Trio) : List Nat := constraintOf T.d T.dp T.lp
def Trio.consQ (T : Trio) : List Nat := constraintOf T.d T.dq T.lq
def Trio.errP (T : Trio) : Rat := effErr T.tp T.ep
def Trio.errQ (T : Trio) : Rat := effErr T.tq T.eq
def Trio.validP (T : Trio) : Bool := validSide T.consP T.tp T.errP
def Trio.validQ (T : Trio) : Bool := validSide T.consQ T.tq T.errQ

/-- an enumerator of gamete vectors: `enum tau constraint` -/
abbrev GameteEnum := Nat → List Nat → List (List Nat)

/-- `exp(trio_log_pmf)` with the four branches of the code; the enumerator is a parameter so that
    the bridge to the specification can be stated for any complete enumerator -/
def trioPmfWith (enum : GameteEnum) (T : Trio) : Rat :=
  let ep := T.errP
  let eq := T.errQ
  let Gp := fun g => gametePmf g T.tp T.dp T.pp T.lp * (1 - ep)
  let Gq := fun g => gametePmf g T.tq T.dq T.pq T.lq * (1 - eq)
  let U := unknownPmf T.fs
  let s1 :=
    if T.validP && T.validQ then
      ((enum T.tp T.consP).map (fun gp =>
        let gq := vsub T.d gp
        Gp gp * Gq gq + Gp gp * (U gq * eq))).sum
    else if T.validP then
      ((enum T.tp T.consP).map (fun gp => Gp gp * (U (vsub T.d gp) * eq))).sum
    else 0
  let s2 :=
    if T.validQ then
      ((enum T.tq T.consQ).map (fun gq => (U (vsub T.d gq) * ep) * Gq gq)).sum
    else 0
  s1 + s2 + U T.d * ep * eq

/-- the model of `trio_log_pmf` (exp of) -/
def trioPmfCode (T : Trio) : Rat := trioPmfWith enumDosage T

/-- `trio_log_pmf` does not raise -/
def trioGuard (T : Trio) : Bool :=
  decide (T.d.sum = T.tp + T.tq) &&
  (if T.lp > 0 then decide (T.tp = 2) else true) &&
  (if T.lq > 0 then decide (T.tq = 2) else true) &&
  (if T.validP then
      (enumDosage? T.tp T.consP).isSome &&
      (enumDosage T.tp T.consP).all (fun gp => gameteGuard gp T.tp T.dp T.pp T.lp &&
        (if T.validQ then gameteGuard (vsub T.d gp) T.tq T.dq T.pq T.lq else true))
   else true) &&
  (if T.validQ then
      (enumDosage? T.tq T.consQ).isSome &&
      (enumDosage T.tq T.consQ).all (fun gq => gameteGuard gq T.tq T.dq T.pq T.lq)
   else true)

/-! ### the allele-level pmf used by the Gibbs move -/

/-- weight of the "the allele came from this gamete" term: `2 τ / (τ_p + τ_q)` (the variable allele
    belongs to the gamete of p with probability `τ_p/(τ_p+τ_q)`; scaled to 1 for balanced gametes;
    `lweight = -inf` for `τ = 0` is the same value 0) -/
def gameteWeight (tau tp tq : Nat) : Rat := 2 * (tau : Rat) / ((tp + tq : Nat) : Rat)

/-- the weights before the F6 repair: both gamete-of-origin terms were added with weight one
    (kept to document the defect: `C18.gibbs_old_weights_counterexample`) -/
def gameteWeightOld (_tau _tp _tq : Nat) : Rat := 1

def gameteAllelePmf (gcount tau pcount pp : Nat) (lam : Rat) : Rat :=
  (gameteAlleleRaw gcount tau pcount pp lam).getD 0

/-- `gamete_allele_log_pmf` returns a number (no assertion, no NaN from a negative probability) -/
def gameteAlleleOk (gcount tau pcount pp : Nat) (lam : Rat) : Bool :=
  match gameteAlleleRaw gcount tau pcount pp lam with
  | some v => decide (v ≥ 0)
  | none => false

/-- `exp(trio_allele_log_pmf)` for the allele with vector index `x` -/
def trioAlleleWith (w : Nat → Nat → Nat → Rat) (enum : GameteEnum) (T : Trio) (x : Nat) : Rat :=
  let ep := T.errP
  let eq := T.errQ
  let wp := w T.tp T.tp T.tq
  let wq := w T.tq T.tp T.tq
  let U := unknownPmf T.fs
  let fx := T.fs.getD x 0
  let GP := fun g => gametePmf g T.tp T.dp T.pp T.lp
  let GQ := fun g => gametePmf g T.tq T.dq T.pq T.lq
  let AP := fun (g : List Nat) => gameteConstPmf x g T.tp T.dp T.pp
      * gameteAllelePmf (g.getD x 0) T.tp (T.dp.getD x 0) T.pp T.lp
  let AQ := fun (g : List Nat) => gameteConstPmf x g T.tq T.dq T.pq
      * gameteAllelePmf (g.getD x 0) T.tq (T.dq.getD x 0) T.pq T.lq
  let known := fun gp gq => (wp * (GQ gq * AP gp) + wq * (GP gp * AQ gq)) * (1 - ep) * (1 - eq)
  let qUnknown := fun gp gq =>
    (wp * (U gq * AP gp) + wq * (GP gp * (unknownConstPmf T.fs gq x * fx))) * (1 - ep) * eq
  let pUnknown := fun gp gq =>
    (wp * (GQ gq * (unknownConstPmf T.fs gp x * fx)) + wq * (U gp * AQ gq)) * ep * (1 - eq)
  let s1 :=
    if T.validP && T.validQ then
      ((enum T.tp T.consP).map (fun gp =>
        let gq := vsub T.d gp
        known gp gq + qUnknown gp gq)).sum
    else if T.validP then
      ((enum T.tp T.consP).map (fun gp => qUnknown gp (vsub T.d gp))).sum
    else 0
  let s2 :=
    if T.validQ then
      ((enum T.tq T.consQ).map (fun gq => pUnknown (vsub T.d gq) gq)).sum
    else 0
  s1 + s2 + unknownConstPmf T.fs T.d x * (fx * 2) * ep * eq

def trioAlleleCode (T : Trio) (x : Nat) : Rat := trioAlleleWith gameteWeight enumDosage T x

/-- `trio_allele_log_pmf` does not raise (its final `assert not np.isnan(lprob)` included) -/
def trioAlleleGuard (T : Trio) (x : Nat) : Bool :=
  trioGuard T && decide (T.d.getD x 0 ≥ 1) &&
  (if T.validP then
      (enumDosage T.tp T.consP).all (fun gp =>
        gameteAlleleOk (gp.getD x 0) T.tp (T.dp.getD x 0) T.pp T.lp &&
        (if T.validQ then
          gameteAlleleOk ((vsub T.d gp).getD x 0) T.tq (T.dq.getD x 0) T.pq T.lq else true))
   else true) &&
  (if T.validQ then
      (enumDosage T.tq T.consQ).all (fun gq =>
        gameteAlleleOk (gq.getD x 0) T.tq (T.dq.getD x 0) T.pq T.lq)
   else true)

/-! ### validity (`validation.py`) -/

/-- `duo_valid`; `none` = ValueError (λ > 0 with τ ≠ 2) -/
def duoValid (d dp : List Nat) (tau : Nat) (lam : Rat) : Option Bool :=
  if lam > 0 ∧ tau ≠ 2 then none
  else some (decide ((constraintOf d dp lam).sum ≥ tau))

/-- `trio_valid` with the enumerator as a parameter -/
def trioValidWith (enum : GameteEnum) (d dp dq : List Nat) (tp tq : Nat) (lp lq : Rat) : Bool :=
  let cp := constraintOf d dp lp
  let cq := constraintOf d dq lq
  if cp.sum < tp ∨ cq.sum < tq then false
  else (enum tp cp).any (fun gp =>
    let gq := vsub d gp
    vle gq cq && decide (vadd gp gq = d))

/-- `trio_valid`; `none` = the code raises (ValueError: λ > 0 with τ ≠ 2).  For a clonal `τ_p = 0`
    edge the first gamete (all zero) always matches when the constraint test passed, so
    `increment_dosage` is never reached with the all-zero vector it cannot handle. -/
def trioValid (d dp dq : List Nat) (tp tq : Nat) (lp lq : Rat) : Option Bool :=
  if (lp > 0 ∧ tp ≠ 2) ∨ (lq > 0 ∧ tq ≠ 2) then none
  else some (trioValidWith enumDosage d dp dq tp tq lp lq)

/-! ### specification: the inheritance distribution as a sum over ALL gamete pairs -/

/-- multivariate hypergeometric pmf of a gamete `g` of size `tau` drawn from `dp` (`pp` copies) -/
def hyperPmf (dp : List Nat) (pp tau : Nat) (g : List Nat) : Rat :=
  (dosagePermutations g dp : Rat) / (comb pp tau : Rat)

/-- `2 e_i` -/
def twoUnit (n i : Nat) : List Nat := (List.range n).map (fun j => if j = i then 2 else 0)

/-- double reduction: `Σ_i [g = 2 e_i] · d_i / ploidy` -/
def drSpec (dp : List Nat) (pp : Nat) (g : List Nat) : Rat :=
  (((List.range g.length).map (fun i => if g = twoUnit g.length i then dp.getD i 0 else 0)).sum : Nat)
    / (pp : Rat)

/-- gamete pmf: `(1−λ)·hypergeometric + λ·double reduction` (the λ term only for τ = 2) -/
def gameteSpec (dp : List Nat) (pp tau : Nat) (lam : Rat) (g : List Nat) : Rat :=
  (1 - lam) * hyperPmf dp pp tau g + (if tau = 2 then lam * drSpec dp pp g else 0)

/-- error forced to one for a clonal edge (τ = 0) or an unknown parent (ploidy 0) -/
def specErr (pp tau : Nat) (e : Rat) : Rat := if tau = 0 ∨ pp = 0 then 1 else e

/-- per-gamete mixture `(1−e)·gamete + e·multinomial(frequencies)` -/
def mixPmf (dp : List Nat) (pp tau : Nat) (lam e : Rat) (fs : List Rat) (g : List Nat) : Rat :=
  (1 - specErr pp tau e) * gameteSpec dp pp tau lam g + specErr pp tau e * unknownPmf fs g

def gametePairs (n tp tq : Nat) : List (List Nat × List Nat) :=
  (compositions n tp).flatMap (fun a => (compositions n tq).map (fun b => (a, b)))

/-- probability of the progeny count vector `T.d`: sum over all pairs of gametes that add up to it -/
def trioPmf (T : Trio) : Rat :=
  (((gametePairs T.d.length T.tp T.tq).filter (fun ab => vadd ab.1 ab.2 = T.d)).map
    (fun ab => mixPmf T.dp T.pp T.tp T.lp T.ep T.fs ab.1 * mixPmf T.dq T.pq T.tq T.lq T.eq T.fs ab.2)).sum

/-- reference enumerator: all vectors of the right sum under the constraint -/
def enumSpec : GameteEnum := fun tau c => (compositions c.length tau).filter (fun g => vle g c)

/-- the allele-level quantity summed over all gamete pairs (same per-pair formula as the code) -/
def trioAlleleSpec (T : Trio) (x : Nat) : Rat := trioAlleleWith gameteWeight enumSpec T x

/-- Mendelian validity, by specification -/
def trioValidSpec (d dp dq : List Nat) (tp tq : Nat) (lp lq : Rat) : Bool :=
  trioValidWith enumSpec d dp dq tp tq lp lq

/-! ### the pedigree -/

structure Ped where
  nb : Nat
  haps : List Hap
  freqs : List Rat
  ploidy : List Nat
  /-- parent indices, negative = unknown -/
  parents : List (Int × Int)
  tau : List (Nat × Nat)
  lam : List (Rat × Rat)
  err : List (Rat × Rat)
  /-- per sample: unique reads with counts (rows of the rectangular read array) -/
  reads : List Reads

def Ped.n (P : Ped) : Nat := P.haps.length
def Ped.size (P : Ped) : Nat := P.ploidy.length

/-- joint state: the ordered alleles of every sample (trimmed to its ploidy) -/
abbrev PedState := List (List Nat)

/-- the arguments `markov_blanket_log_probability` passes to `trio_log_pmf` for sample `i` -/
def trioOf (P : Ped) (s : PedState) (i : Nat) : Trio :=
  let pq := P.parents.getD i (-1, -1)
  let vec := fun (j : Int) => if j < 0 then zeros P.n else countsOf P.n (s.getD j.toNat [])
  let pl := fun (j : Int) => if j < 0 then 0 else P.ploidy.getD j.toNat 0
  { d := countsOf P.n (s.getD i []), dp := vec pq.1, dq := vec pq.2,
    pp := pl pq.1, pq := pl pq.2,
    tp := (P.tau.getD i (0, 0)).1, tq := (P.tau.getD i (0, 0)).2,
    lp := (P.lam.getD i (0, 0)).1, lq := (P.lam.getD i (0, 0)).2,
    ep := if pq.1 < 0 then 1 else (P.err.getD i (0, 0)).1,
    eq := if pq.2 < 0 then 1 else (P.err.getD i (0, 0)).2,
    fs := P.freqs }

def isChild (P : Ped) (t i : Nat) : Bool :=
  let pq := P.parents.getD i (-1, -1)
  decide (pq.1 = (t : Int)) || decide (pq.2 = (t : Int))

/-- row `t` of `sample_children_matrix` without the padding (a selfed child is listed once) -/
def childrenOf (P : Ped) (t : Nat) : List Nat := (List.range P.size).filter (isChild P t)

/-- `sample_children_matrix` -/
def sampleChildrenMatrix (P : Ped) : List (List Int) :=
  let rows := (List.range P.size).map (childrenOf P)
  let w := (rows.map List.length).foldr max 0
  rows.map (fun r => r.map (fun (i : Nat) => (i : Int)) ++ List.replicate (w - r.length) (-1))

/-- read likelihood of sample `i` -/
def likOf (P : Ped) (s : PedState) (i : Nat) : Rat :=
  likAllelesPedigree (P.reads.getD i []) P.nb P.haps (s.getD i [])

/-- `exp(markov_blanket_log_probability)` over a trio function `f` -/
def blanketWith (f : Trio → Rat) (P : Ped) (s : PedState) (t : Nat) : Rat :=
  f (trioOf P s t) * ((childrenOf P t).map (fun c => f (trioOf P s c))).prod

def markovBlanketProb (P : Ped) (s : PedState) (t : Nat) : Rat := blanketWith trioPmfCode P s t

/-- `exp(markov_blanket_log_allele_probability)` -/
def blanketAlleleWith (fa : Trio → Nat → Rat) (f : Trio → Rat) (P : Ped) (s : PedState) (t k : Nat) : Rat :=
  fa (trioOf P s t) ((s.getD t []).getD k 0) * ((childrenOf P t).map (fun c => f (trioOf P s c))).prod

def markovBlanketAlleleProb (P : Ped) (s : PedState) (t k : Nat) : Rat :=
  blanketAlleleWith trioAlleleCode trioPmfCode P s t k

/-- the state with allele `x` at slot `k` of sample `t` -/
def setAllele (s : PedState) (t k x : Nat) : PedState := s.set t ((s.getD t []).set k x)

def pedGibbsWeightsWith (fa : Trio → Nat → Rat) (f : Trio → Rat) (P : Ped) (s : PedState) (t k : Nat) : List Rat :=
  (List.range P.n).map (fun x =>
    let s' := setAllele s t k x
    likOf P s' t * blanketAlleleWith fa f P s' t k)

/-- unnormalised `exp(log_probabilities)` of `gibbs_probabilities` -/
def pedGibbsWeights (P : Ped) (s : PedState) (t k : Nat) : List Rat :=
  pedGibbsWeightsWith trioAlleleCode trioPmfCode P s t k

/-- `gibbs_probabilities` -/
def gibbsProbabilities (P : Ped) (s : PedState) (t k : Nat) : List Rat :=
  normalise (pedGibbsWeights P s t k)

/-- the Gibbs vector for an arbitrary gamete-weight function (`gameteWeight`: the code as it is) -/
def gibbsProbabilitiesW (w : Nat → Nat → Nat → Rat) (P : Ped) (s : PedState) (t k : Nat) : List Rat :=
  normalise (pedGibbsWeightsWith (trioAlleleWith w enumDosage) trioPmfCode P s t k)

/-- `metropolis_hastings_probabilities` -/
def metropolisHastingsProbabilities (P : Ped) (s : PedState) (t k : Nat) : List Rat :=
  let g := s.getD t []
  let cur := g.getD k 0
  let w := likOf P s t * markovBlanketProb P s t
  let c : Rat := (g.count cur : Nat)
  let raw := (List.range P.n).map (fun x =>
    if x = cur then (0 : Rat) else
      let s' := setAllele s t k x
      let r := (likOf P s' t * markovBlanketProb P s' t) / w
                * ((((s'.getD t []).count x : Nat) : Rat) / c)
      (if r < 1 then r else 1) / ((P.n : Rat) - 1))
  raw.set cur (1 - raw.sum)

/-- joint posterior weight over a trio function: `∏_i lik_i · f(trio_i)` -/
def jointWith (f : Trio → Rat) (P : Ped) (s : PedState) : Rat :=
  ((List.range P.size).map (fun i => likOf P s i * f (trioOf P s i))).prod

/-- the joint pedigree posterior (unnormalised) -/
def joint (P : Ped) (s : PedState) : Rat := jointWith trioPmf P s

/-! ### the parental allele swap -/

/-- the reads `pair_allele_swap_step` uses for parent q: q's own rows (`idx_q`).  Before the F5
    repair the code masked them with parent p's `read_counts > 0`, i.e.
    `((rq.zip rp).filter (fun x => x.2.2 > 0)).map (·.1)`. -/
def swapReadsQ (_rp rq : Reads) : Reads := rq

/-- one row of `parental_pair_markov_blankets`: p, q and all their children, ascending -/
def pairBlanket (P : Ped) (p q : Nat) : List Nat :=
  (List.range P.size).filter (fun i => decide (i = p) || decide (i = q) || isChild P p i || isChild P q i)

def pairPrior (f : Trio → Rat) (P : Ped) (s : PedState) (p q : Nat) : Rat :=
  ((pairBlanket P p q).map (fun i => f (trioOf P s i))).prod

def swapLik (P : Ped) (s : PedState) (p q : Nat) : Rat :=
  let rp := P.reads.getD p []
  let rq := P.reads.getD q []
  likAllelesPedigree rp P.nb P.haps (s.getD p []) * likAllelesPedigree (swapReadsQ rp rq) P.nb P.haps (s.getD q [])

/-- the state after exchanging slot `ip` of p with slot `iq` of q (sequential writes, as the code) -/
def swapState (s : PedState) (p q ip iq : Nat) : PedState :=
  let a := (s.getD p []).getD ip 0
  let b := (s.getD q []).getD iq 0
  let s1 := s.set p ((s.getD p []).set ip b)
  s1.set q ((s1.getD q []).set iq a)

/-- `prob_accept` of `pair_allele_swap_step`; `none` = the two alleles are equal (`(nan, False)`) -/
def swapAccept (P : Ped) (s : PedState) (p q ip iq : Nat) : Option Rat :=
  let gp := s.getD p []
  let gq := s.getD q []
  let a := gp.getD ip 0
  let b := gq.getD iq 0
  if a = b then none else
  let proposal : Rat := ((gp.count a * gq.count b : Nat) : Rat)
  let reversal : Rat := (((1 + gp.count b) * (1 + gq.count a) : Nat) : Rat)
  let s' := swapState s p q ip iq
  let r := (swapLik P s' p q / swapLik P s p q)
            * (pairPrior trioPmfCode P s' p q / pairPrior trioPmfCode P s p q)
            * (reversal / proposal)
  some (if r < 1 then r else 1)

end MCHap
