import MCHap.Model.Comb
import MCHap.Model.CallMoves
/-
Model of the trace → posterior-summary classes:

* `mchap/assemble/classes.py`: `GenotypeMultiTrace` (`__post_init__` canonical sort, `burn`, `posterior`,
  `split`, `replicate_incongruence`), `PosteriorGenotypeDistribution` (`mode`, `mode_genotype_support`,
  `allele_frequencies`), `GenotypeSupportDistribution` (`alleles`, `mode_genotype`);
* `mchap/calling/classes.py`: `GenotypeAllelesMultiTrace` (`relabel`, `burn`, `posterior`, `split`,
  `replicate_incongruence`, `posterior_frequencies`), `PosteriorGenotypeAllelesDistribution` (`mode`,
  `as_array`), `mchap/calling/utils.py: posterior_as_array`;
* `mchap/mset.py`: `unique` (first-occurrence order), `count`, `unique_counts`, `union` on duplicate-free arrays;
* `mchap/encoding/integer/sequence.py`: `sort` (lexicographic row sort);
* `mchap/pedigree/classes.py`: `PedigreeAllelesMultiTrace.burn`, `.individual`.

A trace is `chains × steps × genotype`; a genotype is a list of `α` (`α = List Nat`, a haplotype, for
assemble; `α = Nat`, an allele index, for call / call-pedigree).  Everything is exact (`Rat`): the code's
probabilities are `count / total` in float64.

Core Lean only (compiled into `driver_sum`).  `argmaxFirst` (= `np.argmax`) is the one of `Model/CallMoves`.
-/
namespace MCHap.Trace
open MCHap

/-- lexicographic `≤` on haplotypes: `integer.sort` is `np.lexsort` with column 0 most significant -/
def lexLe : List Nat → List Nat → Bool
  | [], _ => true
  | _ :: _, [] => false
  | a :: as, b :: bs => if a < b then true else if a = b then lexLe as bs else false

/-- `≤` on allele indices (`genotype_alleles.sort()`, `np.sort`) -/
def natLe (a b : Nat) : Bool := decide (a ≤ b)

abbrev RawTrace (α : Type) := List (List (List α))

/-- stable insertion sort (structural, so that closed instances evaluate in the kernel): `x` goes before the
    first element it is `≤` to, hence before the equal elements that followed it in the input -/
def insertBy {β : Type} (le : β → β → Bool) (x : β) : List β → List β
  | [] => [x]
  | y :: t => if le x y then x :: y :: t else y :: insertBy le x t

def sortBy {β : Type} (le : β → β → Bool) (l : List β) : List β := l.foldr (insertBy le) []

section generic
variable {α : Type} [DecidableEq α]

/-- the canonical form of one stored genotype (`integer.sort(genotypes[c, i])`); the sorting algorithm is
    irrelevant: rows that compare equal are identical -/
def canon (le : α → α → Bool) (g : List α) : List α := sortBy le g

/-- `GenotypeMultiTrace.__post_init__`: every step of every chain is sorted -/
def canonTrace (le : α → α → Bool) (t : RawTrace α) : RawTrace α :=
  t.map (fun ch => ch.map (canon le))

/-- `burn(n)`: `genotypes[:, n:]` -/
def burn (n : Nat) (t : RawTrace α) : RawTrace α := t.map (List.drop n)

/-- `genotypes.reshape(n_chain * n_step, …)`: chains concatenated in order -/
def merged (t : RawTrace α) : List (List α) := t.flatten

/-- `mset.unique`: the distinct elements in order of first occurrence -/
def uniq {β : Type} [DecidableEq β] : List β → List β
  | [] => []
  | x :: t => x :: (uniq t).filter (fun y => decide (y ≠ x))

/-- `mset.unique_counts(array)` (order = None): categories in first-occurrence order with their counts -/
def uniqueCounts {β : Type} [DecidableEq β] (l : List β) : List (β × Nat) :=
  (uniq l).map (fun x => (x, l.count x))

/-- `probs = counts / np.sum(counts)` -/
def probsOf {β : Type} [DecidableEq β] (l : List β) : List (β × Rat) :=
  let uc := uniqueCounts l
  let total : Nat := (uc.map (·.2)).sum
  uc.map (fun xc => (xc.1, (xc.2 : Rat) / (total : Rat)))

/-- `idx = np.flip(np.argsort(probs))`: ascending (modelled as the stable sort), then reversed.
    numpy's default sort is not stable, so the order inside a group of equal probabilities is the part of
    this definition the correspondence compares only up to ties. -/
def sortDesc {β : Type} (ps : List (β × Rat)) : List (β × Rat) :=
  (sortBy (fun a b => decide (a.2 ≤ b.2)) ps).reverse

/-- `posterior()` of a list of (already canonical) steps -/
def posteriorOf {β : Type} [DecidableEq β] (steps : List β) : List (β × Rat) := sortDesc (probsOf steps)

/-- `GenotypeMultiTrace(genotypes, llks).burn(n).posterior()` (assemble): sort in `__post_init__`, burn, merge -/
def posterior (le : α → α → Bool) (n : Nat) (t : RawTrace α) : List (List α × Rat) :=
  posteriorOf (merged (burn n (canonTrace le t)))

/-- `GenotypeAllelesMultiTrace(genotypes, …).burn(n).posterior()` (call, call-pedigree): **no** sort here —
    the class relies on the sampler (`compound_step`: `genotype_alleles.sort()`, pedigree `mcmc_sampler`:
    `np.sort` of every row) having stored sorted rows -/
def callPosterior (n : Nat) (t : RawTrace Nat) : List (List Nat × Rat) :=
  posteriorOf (merged (burn n t))

/-- probability a distribution assigns to `g` (0 when not listed) -/
def probOf {β : Type} [DecidableEq β] (post : List (β × Rat)) (g : β) : Rat :=
  match post.find? (fun gp => decide (gp.1 = g)) with
  | some gp => gp.2
  | none => 0

/-- `mode()`: `idx = np.argmax(probabilities)`; `none` models the `ValueError` on an empty distribution -/
def modeOf {β : Type} (post : List (β × Rat)) : Option (β × Rat) :=
  match post with
  | [] => none
  | _ => post[argmaxFirst (post.map (·.2))]?

/-- one update of the insertion-ordered dict `{key: running total}` -/
def addTo {κ : Type} [DecidableEq κ] (key : κ) (p : Rat) : List (κ × Rat) → List (κ × Rat)
  | [] => [(key, p)]
  | (k, q) :: t => if k = key then (k, q + p) :: t else (k, q) :: addTo key p t

/-- the loop of `mode_genotype_support` / `mode(genotype_support=True)`: total probability per support
    (`mset.unique(gen)`), keyed in order of first occurrence.  The code keys the totals by the index of the
    first genotype with that support; that index and the support determine each other. -/
def supportGroups (post : List (List α × Rat)) : List (List α × Rat) :=
  post.foldl (fun acc gp => addTo (uniq gp.1) gp.2 acc) []

/-- `mode = support_labels[np.argmax(probs)]` -/
def modeSupportKey (post : List (List α × Rat)) : Option (List α) :=
  (modeOf (supportGroups post)).map (·.1)

/-- `GenotypeSupportDistribution(self.genotypes[idx], self.probabilities[idx])`, `idx = labels == mode` -/
def modeSupportDist (post : List (List α × Rat)) : List (List α × Rat) :=
  match modeSupportKey post with
  | none => []
  | some k => post.filter (fun gp => decide (uniq gp.1 = k))

/-- SPM: `genotype_support.probabilities.sum()` -/
def supportProb (post : List (List α × Rat)) : Rat := ((modeSupportDist post).map (·.2)).sum

/-- GT / GPM: `genotype_support.mode_genotype()` — the most probable genotype *within* the mode support -/
def supportModeGenotype (post : List (List α × Rat)) : Option (List α × Rat) :=
  modeOf (modeSupportDist post)

/-- `GenotypeSupportDistribution.alleles()`: `mset.unique(self.genotypes[0])` -/
def supportAlleles (post : List (List α × Rat)) : Option (List α) :=
  (modeSupportDist post).head?.map (fun gp => uniq gp.1)

/-- posterior dosage (expected copy number) of `h`: `Σ prob · dose` -/
def dosageOf (post : List (List α × Rat)) (h : α) : Rat :=
  (post.map (fun gp => gp.2 * ((gp.1.count h : Nat) : Rat))).sum

/-- posterior probability that `h` occurs at any copy number: `Σ prob [h ∈ genotype]` -/
def occurrenceOf (post : List (List α × Rat)) (h : α) : Rat :=
  ((post.filter (fun gp => decide (h ∈ gp.1))).map (·.2)).sum

/-- `PosteriorGenotypeDistribution.allele_frequencies(dosage)`: for every distinct haplotype (first-occurrence
    order over the flattened genotypes) the weight `Σ prob · dose` (divided by the ploidy unless `dosage`) and
    the occurrence probability `Σ prob [h ∈ genotype]` -/
def alleleFrequencies (post : List (List α × Rat)) (ploidy : Nat) (dosage : Bool) : List (α × Rat × Rat) :=
  (uniq (post.flatMap (·.1))).map (fun h =>
    let w : Rat := dosageOf post h
    (h, (if dosage then w else w / (ploidy : Rat)), occurrenceOf post h))

/-- the flag computed from the list of qualifying chains' allele arrays and the number the code calls `ploidy`:
    `mode_count = len({a.tobytes() for a in alleles})`; if more than one: `allele_count` = number of distinct
    alleles over all of them (`reduce(mset.union, alleles)` on duplicate-free arrays for assemble;
    `set(np.array(alleles).ravel())` for call), flag 2 when it exceeds `ploidy` -/
def incongruenceFlag (ploidy : Nat) (alleles : List (List α)) : Nat :=
  if (uniq alleles).length > 1 then
    if (uniq alleles.flatten).length > ploidy then 2 else 1
  else 0

/-- `ploidy = len(alleles[0])` -/
def firstLength (alleles : List (List α)) : Nat := (alleles.head?.map List.length).getD 0

/-- `GenotypeMultiTrace.replicate_incongruence(threshold)` on the (canonical, burnt) trace: per chain the
    posterior, its mode support, kept when the support probability reaches the threshold; the arrays compared
    are the *distinct haplotypes of the support*, so **`len(alleles[0])` is a number of distinct haplotypes, not
    the ploidy** (candidate defect F10).  `none`: a chain without steps (the code raises). -/
def replicateIncongruence (thr : Rat) (t : RawTrace α) : Option Nat :=
  if t.any (fun ch => ch.isEmpty) then none else
  let alleles := t.filterMap (fun ch =>
    let post := posteriorOf ch
    if thr ≤ supportProb post then supportAlleles post else none)
  some (incongruenceFlag (firstLength alleles) alleles)

/-- `GenotypeAllelesMultiTrace.replicate_incongruence(threshold)`: the arrays compared are the chains' *mode
    genotypes* (`mode(genotype_support=True)[0]`, dosage included), so here `len(alleles[0])` is the ploidy -/
def callReplicateIncongruence (thr : Rat) (t : RawTrace α) : Option Nat :=
  if t.any (fun ch => ch.isEmpty) then none else
  let alleles := t.filterMap (fun ch =>
    let post := posteriorOf ch
    if thr ≤ supportProb post then (supportModeGenotype post).map (·.1) else none)
  some (incongruenceFlag (firstLength alleles) alleles)

end generic

/-- `_posterior_frequencies(genotypes, n_allele)`: per allele `(AFP, ACP, AOP)` = (mean count / ploidy, mean
    count, fraction of steps in which the allele occurs).  `none`: an allele `≥ n_allele` (the jitted loop would
    write out of bounds). -/
def callFrequencies (steps : List (List Nat)) (ploidy nAllele : Nat) : Option (List (Rat × Rat × Rat)) :=
  if steps.any (fun g => g.any (fun a => decide (nAllele ≤ a))) then none else
  let nObs : Rat := (steps.length : Nat)
  some ((List.range nAllele).map (fun a =>
    let c : Rat := (((steps.map (fun g => g.count a)).sum : Nat) : Rat) / nObs
    let o : Rat := ((steps.countP (fun g => decide (a ∈ g)) : Nat) : Rat) / nObs
    (c / (ploidy : Rat), c, o)))

/-- `np.zeros(size)` followed by `probabilities[idx] = prob` for each pair; `none` = an index outside the
    array (`IndexError` in numpy; out-of-bounds write in the jitted `posterior_as_array`) -/
def scatter (size : Nat) (pairs : List (Nat × Rat)) : Option (List Rat) :=
  pairs.foldl (fun acc iv => acc.bind (fun arr =>
    if iv.1 < size then some (arr.set iv.1 iv.2) else none)) (some (List.replicate size 0))

/-- `PosteriorGenotypeAllelesDistribution.as_array(n_alleles)`: `count_unique_genotypes(n_alleles, ploidy)`
    slots, the probability of each listed genotype written at `genotype_alleles_as_index(genotype)` -/
def asArray (post : List (List Nat × Rat)) (nAlleles ploidy : Nat) : Option (List Rat) :=
  scatter (cwr nAlleles ploidy) (post.map (fun gp => (genotypeIndex gp.1, gp.2)))

/-- `relabel(labels, n_allele=None)`: `labels[genotypes]`, `n_allele` defaulting to `labels.max() + 1`;
    `none`: an allele without label -/
def relabel (labels : List Nat) (nAllele : Option Nat) (t : RawTrace Nat) : Option (RawTrace Nat × Nat) :=
  if t.any (fun ch => ch.any (fun g => g.any (fun a => decide (labels.length ≤ a)))) then none else
  some (t.map (fun ch => ch.map (fun g => g.map (fun a => labels.getD a 0))),
        nAllele.getD (labels.foldl max 0 + 1))

/-- `PedigreeAllelesMultiTrace.individual(index)`: `ploidy = (sample_trace[0, 0] >= 0).sum()`, then
    `sample_trace[:, :, 0:ploidy]` (rows are padded with −1 at the end) -/
def pedIndividual (t : List (List (List (List Int)))) (index : Nat) : List (List (List Int)) :=
  let first : List Int := ((t.head?.bind List.head?).getD []).getD index []
  let ploidy := first.countP (fun a => decide (0 ≤ a))
  t.map (fun ch => ch.map (fun st => (st.getD index []).take ploidy))

end MCHap.Trace
