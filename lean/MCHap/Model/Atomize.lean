/-
Model of `mchap/application/atomize.py` (`format_vcf_snv_block` and the functions it calls) on a decoded
haplotype record: `get_haplotype_snvs`, `get_haplotype_snv_indices`, `format_snv_alleles`, `get_sample_snv_GT`,
`get_sample_snv_ACP`, `get_sample_snv_depth`, `format_allele_floats` (its failure on an empty allele axis), PS / POS / ID.

The code's remaining exceptions are explicit outcomes (`Except Err`); they are reachable only from inputs that
are not haplotype VCFs of the calling programs (an SNVPOS entry outside a haplotype, a GT naming an unlisted
haplotype, more posterior counts than haplotypes, more than four bases at a site, ragged SNVDP).
Since the repairs of F8 / F9 / the AF0 defects the block is total on every record shape the programs produce:
a missing ALT is an empty list of alternate haplotypes, a site without alternative base is printed with ALT `.`
and `.` for every A-length value, a `.` inside FORMAT/ACP or AFP makes the sample's counts missing, a missing SQ
is printed as `.`.  (Before: `len(None)` -> TypeError, empty allele axis -> IndexError, `float += None` ->
TypeError, PQ printed as the text `None`.)
Numbers are exact rationals; decimal rendering is `MCHap.Vcf.vcfstrArrayElem` (C07) and not repeated here.

Core Lean only.
-/
namespace MCHap.Atomize

inductive Err
  | indexError   -- index beyond an axis
  | valueError   -- ragged SNVDP
  deriving Repr, DecidableEq

def Err.name : Err → String
  | .indexError => "IndexError"
  | .valueError => "ValueError"

/-- one sample column of a haplotype record as pysam decodes it -/
structure Sample where
  gt : List (Option Nat)                 -- haplotype GT, `none` = `.`; ploidy = length
  sq : Option Int                        -- FORMAT/SQ
  acp : Option (List (Option Rat))       -- FORMAT/ACP when the key is in FORMAT (`none` entries = `.`)
  afp : Option (List (Option Rat))       -- FORMAT/AFP likewise
  snvdp : Option (List Rat)              -- FORMAT/SNVDP when the key is in FORMAT
  deriving Repr

structure HapRecord where
  pos : Nat
  id : Option String                     -- `none` for `.`
  ref : List Char
  alts : Option (List (List Char))       -- `none`: ALT is `.` (pysam's `record.alts` is `None`)
  snvpos : Option (List Nat)             -- `none`: `SNVPOS=.`
  samples : List Sample
  deriving Repr

/-- `List.mapM` in `Except Err`, written out (first error wins, left to right) -/
def mapE {α β} (f : α → Except Err β) : List α → Except Err (List β)
  | [] => .ok []
  | a :: t =>
    match f a with
    | .error e => .error e
    | .ok b =>
      match mapE f t with
      | .error e => .error e
      | .ok bs => .ok (b :: bs)

/-! ## sites -/

/-- `np.array(list(seq))[snv_pos]` for 1-based SNVPOS entries (`≥ 1`) -/
def basesAt (seq : List Char) (snvpos : List Nat) : Except Err (List Char) :=
  mapE (fun p => if p = 0 then .error .indexError else
    match seq[p - 1]? with
    | some c => .ok c
    | none => .error .indexError) snvpos

/-- `get_haplotype_snvs`: rows = REF then the ALTs (`alts = vcf_record.alts or ()`: none when ALT is `.`),
    columns = the SNVPOS sites -/
def haplotypeSnvs (r : HapRecord) (snvpos : List Nat) : Except Err (List (List Char)) :=
  mapE (fun h => basesAt h snvpos) (r.ref :: r.alts.getD [])

/-- column `k` of the haplotype × site matrix -/
def column (hs : List (List Char)) (k : Nat) : List Char := hs.map (fun row => row.getD k ' ')

/-- the dict loop of `get_haplotype_snv_indices` for one site: `seen` lists the bases met so far in the order
    of their first appearance; a new base gets the next number -/
def indexLoop : List Char → List Char → List Nat
  | [], _ => []
  | c :: cs, seen =>
    if seen.contains c then seen.idxOf c :: indexLoop cs seen
    else seen.length :: indexLoop cs (seen ++ [c])

/-- the bases of a site in order of first appearance (the final `d` of the loop) -/
def firstAppearFrom : List Char → List Char → List Char
  | [], seen => seen
  | c :: cs, seen => if seen.contains c then firstAppearFrom cs seen else firstAppearFrom cs (seen ++ [c])

def firstAppear (col : List Char) : List Char := firstAppearFrom col []

/-- `get_haplotype_snv_indices`: per site, the allele number of each haplotype -/
def snvIndices (hs : List (List Char)) (nPos : Nat) : List (List Nat) :=
  (List.range nPos).map (fun k => indexLoop (column hs k) [])

/-- `format_snv_alleles`: REF base = the reference haplotype's base, ALT bases = the further bases of the
    listed haplotypes in order of first appearance -/
def formatSnvAlleles (hs : List (List Char)) (k : Nat) : Char × List Char :=
  let fa := firstAppear (column hs k)
  (fa.headD ' ', fa.tail)

/-! ## GT, AC -/

/-- `get_sample_snv_GT` for one sample and one site: the haplotype GT projected through the site's allele
    numbers; `.` stays `.`; an allele beyond the listed haplotypes is an `IndexError` -/
def sampleSnvGT (siteIdx : List Nat) (gt : List (Option Nat)) : Except Err (List (Option Nat)) :=
  mapE (fun a => match a with
    | none => .ok none
    | some h => match siteIdx[h]? with
      | some x => .ok (some x)
      | none => .error .indexError) gt

/-- `haplotype_counts[a] += 1` over all samples: number of called copies of each listed haplotype -/
def haplotypeCounts (nHap : Nat) (samples : List Sample) : List Nat :=
  (List.range nHap).map (fun h => (samples.map (fun s => s.gt.count (some h))).sum)

/-- `snv_counts[p, a] += c` over the haplotypes: counts marginalised to the site's alleles -/
def marginal {α} [Add α] [OfNat α 0] (siteIdx : List Nat) (counts : List α) (a : Nat) : α :=
  ((siteIdx.zip counts).filter (fun hc => hc.1 == a)).foldr (fun hc acc => hc.2 + acc) 0

/-- INFO/AC of a site: the ALT alleles `1 .. nAlts` -/
def siteAC (siteIdx : List Nat) (hapCounts : List Nat) (nAlts : Nat) : List Nat :=
  (List.range nAlts).map (fun i => marginal siteIdx hapCounts (i + 1))

/-! ## ACP / DS -/

/-- a FORMAT array is usable when the key is present and no entry is `.` (`(x is None) or (None in x)`) -/
def usable (v : Option (List (Option Rat))) : Option (List Rat) :=
  match v with
  | none => none
  | some c => if c.any Option.isNone then none else some (c.map (fun x => x.getD 0))

/-- per-haplotype posterior counts of one sample: FORMAT/ACP when usable, else FORMAT/AFP × ploidy when usable,
    else unknown (`.ok none` = the `nan` row); more entries than listed haplotypes is an `IndexError` -/
def sampleCounts (nHap : Nat) (s : Sample) : Except Err (Option (List Rat)) :=
  let ploidy : Rat := (s.gt.length : Rat)
  let src : Option (List Rat) :=
    match usable s.acp with
    | some c => some c
    | none => (usable s.afp).map (fun f => f.map (· * ploidy))
  match src with
  | none => .ok none
  | some c => if c.length > nHap then .error .indexError else .ok (some c)

/-- number of allele slots `get_sample_snv_ACP` allocates: four, or more when a site has more than four
    symbols (before the F25 repair it was always four and a fifth symbol was an `IndexError`) -/
def acpWidth (siteIdx : List Nat) : Nat := max 4 (siteIdx.foldr max 0 + 1)

/-- `get_sample_snv_ACP` for one sample and site: marginalise, normalise to the ploidy (`nan` = `none` when the
    sample has no counts or they sum to zero) -/
def sampleSiteACP (siteIdx : List Nat) (ploidy : Nat) (counts : Option (List Rat)) :
    Except Err (Option (List Rat)) :=
  match counts with
  | none => .ok none
  | some c =>
    let m : List Rat := (List.range (acpWidth siteIdx)).map (fun a => marginal siteIdx c a)
    let denom := m.foldr (· + ·) 0
    if denom = 0 then .ok none else .ok (some (m.map (fun x => x / denom * (ploidy : Rat))))

/-- one output line of a block -/
structure SnvLine where
  pos : Nat
  id : String
  ref : Char
  alts : List Char
  ac : List Nat                               -- INFO/AC, A entries
  acp : List (Option Rat)                     -- INFO/ACP, R entries
  dp : Option Rat                             -- INFO/DP
  ps : Nat                                    -- INFO/PS
  gts : List (List (Option Nat))              -- per sample, phased
  pq : List (Option Int)                      -- FORMAT/PQ per sample (`none` is printed as `.`)
  sdp : List (Option Rat)                     -- FORMAT/DP per sample
  ds : List (List (Option Rat))               -- FORMAT/DS per sample, A entries
  deriving Repr, DecidableEq

def sumOpt (l : List (Option Rat)) : Option Rat :=
  l.foldr (fun x acc => match x, acc with | some a, some b => some (a + b) | _, _ => none) (some 0)

/-- `get_sample_snv_depth`: FORMAT/SNVDP per sample, `nan` when the key is absent; rows of unequal length
    do not form an array -/
def depths (nPos : Nat) (samples : List Sample) : Except Err (List (List (Option Rat))) :=
  mapE (fun s => match s.snvdp with
    | none => .ok (List.replicate nPos none)
    | some d => if d.length = nPos then .ok (d.map some) else .error .valueError) samples

/-- the lines of a block once every fallible step has succeeded -/
def blockLines (r : HapRecord) (snvpos : List Nat) (hs : List (List Char)) (gts : List (List (List (Option Nat))))
    (acp : List (List (Option (List Rat)))) (dps : List (List (Option Rat))) : List SnvLine :=
  let idxs := snvIndices hs snvpos.length
  let hapCounts := haplotypeCounts hs.length r.samples
  (List.range snvpos.length).map (fun k =>
    let siteIdx := idxs.getD k []
    let refc := (formatSnvAlleles hs k).1
    let altc := (formatSnvAlleles hs k).2
    let na := altc.length
    let sAcp : List (Option (List Rat)) := acp.getD k []
    let perSampleR : List (List (Option Rat)) := sAcp.map (fun o => match o with
      | none => List.replicate (na + 1) none
      | some v => (v.take (na + 1)).map some)
    let infoAcp : List (Option Rat) :=
      (List.range (na + 1)).map (fun a => sumOpt (perSampleR.map (fun row => row.getD a none)))
    let sdp : List (Option Rat) := dps.map (fun row => row.getD k none)
    { pos := r.pos + snvpos.getD k 0 - 1,
      id := match r.id with | some i => i ++ "_SNV" ++ toString (k + 1) | none => ".",
      ref := refc, alts := altc,
      ac := siteAC siteIdx hapCounts na,
      acp := infoAcp,
      dp := sumOpt sdp,
      ps := r.pos,
      gts := gts.getD k [],
      pq := r.samples.map (·.sq),
      sdp := sdp,
      ds := perSampleR.map (fun row => row.drop 1) : SnvLine })

/-- `format_vcf_snv_block`: `.ok none` when the record has no SNV (`SNVPOS=.`), else all lines of the block or
    the exception that aborts the program.  The steps fail in the code's order: `get_haplotype_snvs`,
    `get_sample_snv_GT`, `get_sample_snv_ACP`, `get_sample_snv_depth`.  A site without alternative base has
    `alts = []`, `ac = []`, `ds = [[] …]` (all printed as `.`) and a one-entry `acp`. -/
def block (r : HapRecord) : Except Err (Option (List SnvLine)) :=
  match r.snvpos with
  | none => .ok none
  | some snvpos =>
    match haplotypeSnvs r snvpos with
    | .error e => .error e
    | .ok hs =>
      let idxs := snvIndices hs snvpos.length
      match mapE (fun siteIdx => mapE (fun s => sampleSnvGT siteIdx s.gt) r.samples) idxs with
      | .error e => .error e
      | .ok gts =>
        match mapE (sampleCounts hs.length) r.samples with
        | .error e => .error e
        | .ok counts =>
          match mapE (fun siteIdx =>
              mapE (fun sc => sampleSiteACP siteIdx sc.1.gt.length sc.2) (r.samples.zip counts)) idxs with
          | .error e => .error e
          | .ok acp =>
            match depths snvpos.length r.samples with
            | .error e => .error e
            | .ok dps => .ok (some (blockLines r snvpos hs gts acp dps))

end MCHap.Atomize
