/-
Model of `mchap/assemble/arraymap.py` (`new`, `get`, `set`): a trie over fixed-length integer arrays
stored in a pointer array (`tree[node, j]` = child, −1 = null; the leaf reached after the last key
element keeps the index of its value in column 0), a `values` array with NaN as "empty", both doubled
on demand and emptied when doubling would exceed `max_size`.

Arrays are modelled as total functions with explicit length fields (growth is then pure
bookkeeping); `none` models NaN.  Core Lean only.
-/
namespace MCHap

structure AMap where
  tree : Nat → Nat → Int
  treeLen : Nat
  values : Nat → Option Rat
  valuesLen : Nat
  keyLen : Nat
  branches : Nat
  emptyNode : Nat
  emptyValues : Nat
  maxSize : Nat

def updTree (t : Nat → Nat → Int) (u j : Nat) (v : Int) : Nat → Nat → Int :=
  fun u' j' => if u' = u ∧ j' = j then v else t u' j'

def updVal (vs : Nat → Option Rat) (i : Nat) (v : Option Rat) : Nat → Option Rat :=
  fun i' => if i' = i then v else vs i'

/-- `arraymap.new(array_length, node_branches, initial_size, max_size)` -/
def AMap.new (keyLen branches initialSize maxSize : Nat) : AMap :=
  { tree := fun _ _ => -1, treeLen := initialSize, values := fun _ => none, valuesLen := initialSize,
    keyLen := keyLen, branches := branches, emptyNode := 1, emptyValues := 0, maxSize := maxSize }

/-- the state after `tree[:] = -1; values[:] = nan; return (tree, values, L, 1, 0, max_size)` -/
def AMap.flushed (m : AMap) : AMap :=
  { m with tree := fun _ _ => -1, values := fun _ => none, emptyNode := 1, emptyValues := 0 }

/-- follow `key` from `node`; `none` as soon as a null pointer is met -/
def walk (t : Nat → Nat → Int) : Nat → List Nat → Option Nat
  | node, [] => some node
  | node, j :: js => if t node j < 0 then none else walk t (t node j).toNat js

/-- `arraymap.get`: the stored value, or the miss sentinel `values[empty_values]` -/
def AMap.get (m : AMap) (key : List Nat) : Option Rat :=
  match walk m.tree 0 key with
  | none => m.values m.emptyValues
  | some leaf =>
    if m.tree leaf 0 < 0 then m.values m.emptyValues else m.values (m.tree leaf 0).toNat

inductive SetResult where
  | ok (m : AMap)
  /-- flushed because growing would exceed `max_size` (`empty_if_full=True`) -/
  | flushed (m : AMap)
  /-- `ValueError("cannot expand array_map beyond its maximum size.")` (`empty_if_full=False`) -/
  | full

/-- the node-allocation loop of `set`: returns the map (tree possibly grown) and the leaf, or the
    flush / error outcome -/
def insertLoop (emptyIfFull : Bool) : AMap → Nat → List Nat → (SetResult × Nat)
  | m, node, [] => (.ok m, node)
  | m, node, j :: js =>
    if m.tree node j < 0 then
      let next := m.emptyNode
      let m1 := { m with tree := updTree m.tree node j next, emptyNode := m.emptyNode + 1 }
      if m1.emptyNode + 1 ≥ m1.treeLen then
        if m1.treeLen * 2 > m1.maxSize then
          (if emptyIfFull then (.flushed m.flushed, 0) else (.full, 0))
        else insertLoop emptyIfFull { m1 with treeLen := m1.treeLen * 2 } next js
      else insertLoop emptyIfFull m1 next js
    else insertLoop emptyIfFull m (m.tree node j).toNat js

/-- `arraymap.set(array_map, array, value, empty_if_full)` -/
def AMap.set (m : AMap) (key : List Nat) (v : Option Rat) (emptyIfFull : Bool := true) : SetResult :=
  match insertLoop emptyIfFull m 0 key with
  | (.ok m1, leaf) =>
    if m1.tree leaf 0 < 0 then
      let vi := m1.emptyValues
      let m2 := { m1 with tree := updTree m1.tree leaf 0 vi, emptyValues := m1.emptyValues + 1 }
      if m2.emptyValues + 1 ≥ m2.valuesLen then
        if m2.valuesLen * 2 > m2.maxSize then
          (if emptyIfFull then .flushed m1.flushed else .full)
        else .ok { m2 with valuesLen := m2.valuesLen * 2, values := updVal m2.values vi v }
      else .ok { m2 with values := updVal m2.values vi v }
    else .ok { m1 with values := updVal m1.values (m1.tree leaf 0).toNat v }
  | (r, _) => r

def SetResult.map : SetResult → Option AMap
  | .ok m => some m
  | .flushed m => some m
  | .full => none

/-- a Boolean rendering of the bookkeeping invariants, evaluated by the driver after each
    operation (runtime-checked; the proved invariant is `C09.WF`) -/
def AMap.boundsOk (m : AMap) : Bool :=
  decide (1 ≤ m.emptyNode) && decide (m.emptyNode + 1 < m.treeLen ∨ m.emptyNode < m.treeLen)
    && decide (m.emptyValues < m.valuesLen) && (m.values m.emptyValues).isNone
    && decide (m.treeLen ≤ m.maxSize ∨ m.treeLen ≤ 2 * m.maxSize)

end MCHap
