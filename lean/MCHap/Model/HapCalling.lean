import MCHap.Model.Trace
/-
Model of the haplotype reporting step of `mchap assemble`:

* `mchap/assemble/haplotype_calling.py: call_posterior_haplotypes`;
* `mchap/application/assemble.py: call_sample_genotypes` (label map, REFMASKED, GT, AFP / AOP / ACP assignment),
  `_genotype_as_alleles`, `_genotype_posterior_as_array`;
* `mchap/assemble/classes.py: PosteriorGenotypeDistribution.allele_frequencies` (= `Trace.alleleFrequencies`).

A per-sample posterior is a list of `(genotype, probability)`, a genotype a list of haplotypes (`List Nat`).
Core Lean only.
-/
namespace MCHap.HapCalling
open MCHap MCHap.Trace

/- `Hap = List Nat` is the one of `Model/Likelihood` -/
abbrev Post := List (List Hap × Rat)

/-- posterior probability that `h` occurs (at any copy number) -/
def occurrence (post : Post) (h : Hap) : Rat := occurrenceOf post h

/-- posterior dosage (expected copy number) of `h` -/
def dosageWeight (post : Post) (h : Hap) : Rat := dosageOf post h

/-- `np.all(h == 0)` -/
def isRef (h : Hap) : Bool := h.all (fun a => decide (a = 0))

/-- the haplotypes of one sample that pass `probs >= threshold`, with their dosage weights
    (`post.allele_frequencies(dosage=True)`, `idx = probs >= threshold`) -/
def keptOf (thr : Rat) (post : Post) : List (Hap × Rat) :=
  ((alleleFrequencies post 0 true).filter (fun hwo => decide (thr ≤ hwo.2.2))).map (fun hwo => (hwo.1, hwo.2.1))

/-- the two dicts `haplotype_arrays` / `haplotype_values` after the loop over the samples: insertion-ordered,
    value = dosage summed over the samples in which the haplotype passed the threshold -/
def accumulate (thr : Rat) (posts : List Post) : List (Hap × Rat) :=
  posts.foldl (fun d post => (keptOf thr post).foldl (fun d hw => addTo hw.1 hw.2 d) d) []

/-- `values.max()` of an array initialised to −1 -/
def maxValue (vals : List Rat) : Rat := vals.foldl (fun m v => if m < v then v else m) (-1)

/-- the table that is argsorted: the non-reference entries in dict order, then the reference with
    `values.max() + 1` -/
def valueTable (thr : Rat) (posts : List Post) (nBase : Nat) : List (Hap × Rat) :=
  let alts := (accumulate thr posts).filter (fun hv => !isRef hv.1)
  alts ++ [(List.replicate nBase 0, maxValue (alts.map (·.2)) + 1)]

/-- `call_posterior_haplotypes(posteriors, threshold)`: `(haplotypes[order], ref_observed)` with
    `order = np.flip(np.argsort(values))` (ties: see `Trace.sortDesc`) -/
def callPosteriorHaplotypes (thr : Rat) (posts : List Post) (nBase : Nat) : List Hap × Bool :=
  (((sortDesc (valueTable thr posts nBase)).map (·.1)),
   (accumulate thr posts).any (fun hv => isRef hv.1))

/-- INFO/REFMASKED -/
def refMasked (thr : Rat) (posts : List Post) (nBase : Nat) : Bool :=
  !(callPosteriorHaplotypes thr posts nBase).2

/-- `haplotype_labels = {h.tobytes(): i …}`, with the reference entry popped when it was not called -/
def labelsOf (haps : List Hap) (refCalled : Bool) : List (Hap × Nat) :=
  let all := haps.zipIdx
  if refCalled then all else all.drop 1

def lookupLabel (labels : List (Hap × Nat)) (h : Hap) : Int :=
  match labels.find? (fun hi => decide (hi.1 = h)) with
  | some hi => (hi.2 : Int)
  | none => -1

def insertInt (x : Int) : List Int → List Int
  | [] => [x]
  | y :: t => if x ≤ y then x :: y :: t else y :: insertInt x t

def sortInt (l : List Int) : List Int := l.foldr insertInt []

/-- `_genotype_as_alleles(genotype, labels)`: sorted labels, the unlabelled (`-1`, printed `.`) last -/
def genotypeAsAlleles (g : List Hap) (labels : List (Hap × Nat)) : List Int :=
  let a := sortInt (g.map (lookupLabel labels))
  a.filter (fun x => decide (0 ≤ x)) ++ a.filter (fun x => decide (x < 0))

/-- the pairs written by `_genotype_posterior_as_array`: genotypes with an unlabelled haplotype are skipped -/
def gpPairs (post : Post) (labels : List (Hap × Nat)) : List (Nat × Rat) :=
  post.filterMap (fun gp =>
    let a := sortInt (gp.1.map (lookupLabel labels))
    match a with
    | [] => none   -- ploidy 0: not reachable (`alleles[0]` would raise)
    | x :: _ => if x < 0 then none else some (genotypeIndex (a.map Int.toNat), gp.2))

/-- `_genotype_posterior_as_array(posterior, labels, n_alleles=None)`: `count_unique_genotypes(n_alleles, ploidy)`
    slots, `n_alleles` defaulting to `len(labels)`; the probability of every fully labelled genotype is written at
    the VCF index of its sorted allele numbers; `none` = `IndexError` (an index beyond the array) -/
def genotypePosteriorAsArray (post : Post) (labels : List (Hap × Nat)) (ploidy : Nat) (nAlleles : Option Nat) :
    Option (List Rat) :=
  scatter (cwr (nAlleles.getD labels.length) ploidy) (gpPairs post labels)

/-- the GP of one sample as `call_sample_genotypes` computes it: label map without the reference when it is masked,
    `n_alleles = len(haplotypes)` = the record's allele count (the repair of defect F3; before it the array was
    sized from `len(labels)`, one allele short on REFMASKED records) -/
def sampleGP (post : Post) (haps : List Hap) (refCalled : Bool) (ploidy : Nat) : Option (List Rat) :=
  genotypePosteriorAsArray post (labelsOf haps refCalled) ploidy (some haps.length)

/-- the AFP / AOP assignment of `call_sample_genotypes`: one entry per listed haplotype (the reference at 0 even
    when it is masked), zero when the sample's posterior does not contain the haplotype -/
def afpAop (post : Post) (ploidy : Nat) (haps : List Hap) : List (Rat × Rat) :=
  let fr := alleleFrequencies post ploidy false
  haps.map (fun h =>
    match fr.find? (fun hwo => decide (hwo.1 = h)) with
    | some hwo => (hwo.2.1, hwo.2.2)
    | none => (0, 0))

end MCHap.HapCalling
