import MCHap.Model.Likelihood
import MCHap.Model.Prior
import MCHap.Model.Comb
/-
Model of the `mchap call` sampler moves (`mchap/calling/mcmc.py`: `gibbs_options`, `mh_options`,
`compound_step`) and of the exact posterior of `mchap call-exact` (`mchap/calling/exact.py`).
Everything is at inverse temperature one, hence exactly rational.

Core Lean only.
-/
namespace MCHap

structure CallParams where
  reads : Reads
  nb : Nat
  /-- the known haplotypes; allele `a` is `haps[a]` -/
  haps : List Hap
  F : Rat
  freqs : Option (List Rat)

def CallParams.n (P : CallParams) : Nat := P.haps.length

/-- unnormalised posterior of an unordered genotype of alleles (any order of the list):
    what `call-exact` enumerates (`llk + lpr`) -/
def callW (P : CallParams) (a : List Nat) : Rat :=
  likAlleles P.reads P.nb P.haps a * callPrior P.n P.F P.freqs a

def normalise (l : List Rat) : List Rat := l.map (· / l.sum)

/-- `gibbs_options`: unnormalised weights `exp(llk + single-allele conditional log-prior)` -/
def gibbsWeights (P : CallParams) (a : List Nat) (k : Nat) : List Rat :=
  (List.range P.n).map (fun x =>
    let a' := a.set k x
    likAlleles P.reads P.nb P.haps a' * allelePrior P.n P.F P.freqs a' k)

/-- `probabilities_array` after `gibbs_options` -/
def gibbsProbs (P : CallParams) (a : List Nat) (k : Nat) : List Rat :=
  normalise (gibbsWeights P a k)

/-- `probabilities_array` after `mh_options` -/
def mhProbs (P : CallParams) (a : List Nat) (k : Nat) : List Rat :=
  let cur := a.getD k 0
  let w := callW P a
  let c : Rat := (a.count cur : Nat)
  let raw := (List.range P.n).map (fun x =>
    if x = cur then (0 : Rat) else
      let a' := a.set k x
      let r := callW P a' / w * (((a'.count x : Nat) : Rat) / c)
      (if r < 1 then r else 1) / ((P.n : Rat) - 1))
  raw.set cur (1 - raw.sum)

/-- insertion sort of the genotype (`genotype_alleles.sort()` at the end of `compound_step`) -/
def insertSorted (x : Nat) : List Nat → List Nat
  | [] => [x]
  | y :: t => if x ≤ y then x :: y :: t else y :: insertSorted x t

def sortAlleles (a : List Nat) : List Nat := a.foldr insertSorted []

/-- the writes of one `compound_step`: copy `order[j]` takes the allele `choices[j]`, one after the other
    (`order` = the shuffled `arange(ploidy)`, `choices[j]` = the draw made for that copy) -/
def compoundWrites (g : List Nat) (order choices : List Nat) : List Nat :=
  (order.zip choices).foldl (fun a oc => a.set oc.1 oc.2) g

/-- `compound_step` of the call sampler: the shuffled pass followed by `genotype_alleles.sort()` -/
def compoundStep (g : List Nat) (order choices : List Nat) : List Nat :=
  sortAlleles (compoundWrites g order choices)

/-! ### call-exact -/

/-- `llk + lpr` for every genotype in the order `increment_genotype` visits them (VCF order) -/
def exactJoint (P : CallParams) (ploidy : Nat) : List Rat :=
  (enumGenotypes P.n ploidy).map (callW P)

/-- `genotype_posteriors`: the normalised array (GP) -/
def exactPosterior (P : CallParams) (ploidy : Nat) : List Rat := normalise (exactJoint P ploidy)

/-- index of the first maximum (`np.argmax`) -/
def argmaxFirst : List Rat → Nat
  | [] => 0
  | x :: t =>
    let rec go (best : Rat) (bi : Nat) (i : Nat) : List Rat → Nat
      | [] => bi
      | y :: t => if y > best then go y i (i + 1) t else go best bi (i + 1) t
    go x 0 1 t

/-- the streaming pass of `_call_posterior_mode`: running total and the first strict maximum
    (`if ljoint > mode_ljoint`), starting from `-inf` (modelled as `none`) -/
def streamMode (joint : List Rat) : Nat × Rat × Rat :=
  let rec go (mode : Option (Nat × Rat)) (total : Rat) (i : Nat) : List Rat → Option (Nat × Rat) × Rat
    | [] => (mode, total)
    | y :: t =>
      let mode' := match mode with
        | none => some (i, y)
        | some (mi, mv) => if y > mv then some (i, y) else some (mi, mv)
      go mode' (total + y) (i + 1) t
  match go none 0 0 joint with
  | (some (mi, mv), total) => (mi, mv, total)
  | (none, total) => (0, 0, total)

/-- GT (as VCF index) and GPM on the low-memory path -/
def streamCall (P : CallParams) (ploidy : Nat) : Nat × Rat :=
  let (mi, mv, total) := streamMode (exactJoint P ploidy)
  (mi, mv / total)

/-- GT (as VCF index) and GPM on the full-array path -/
def arrayCall (P : CallParams) (ploidy : Nat) : Nat × Rat :=
  let post := exactPosterior P ploidy
  let i := argmaxFirst post
  (i, post.getD i 0)

def distinctAlleles (g : List Nat) : List Nat := g.eraseDups

def sameSupport (g g' : List Nat) : Bool :=
  g.all (fun x => g'.contains x) && g'.all (fun x => g.contains x)

/-- SPM: total posterior of the genotypes with the same set of distinct alleles as `g` -/
def supportProb (P : CallParams) (ploidy : Nat) (g : List Nat) : Rat :=
  let gs := enumGenotypes P.n ploidy
  let post := exactPosterior P ploidy
  ((gs.zip post).filter (fun gp => sameSupport gp.1 g)).foldr (fun gp acc => gp.2 + acc) 0

/-- ACP: posterior mean count of each allele -/
def alleleCounts (P : CallParams) (ploidy : Nat) : List Rat :=
  let gs := enumGenotypes P.n ploidy
  let post := exactPosterior P ploidy
  (List.range P.n).map (fun a =>
    ((gs.zip post).map (fun gp => gp.2 * ((gp.1.count a : Nat) : Rat))).sum)

/-- AFP = ACP / ploidy -/
def alleleFreqs (P : CallParams) (ploidy : Nat) : List Rat :=
  (alleleCounts P ploidy).map (· / (ploidy : Rat))

/-- AOP: posterior probability that the allele occurs at any copy number -/
def alleleOccur (P : CallParams) (ploidy : Nat) : List Rat :=
  let gs := enumGenotypes P.n ploidy
  let post := exactPosterior P ploidy
  (List.range P.n).map (fun a =>
    ((gs.zip post).map (fun gp => if gp.1.contains a then gp.2 else 0)).sum)

end MCHap
