/-
Model of read extraction: `mchap/io/bam.py:extract_read_variants`, the encoding / statistics part of
`mchap/application/baseclass.py:program.encode_sample_reads`, `mchap/encoding/character/transcode.py:as_allelic`,
`mchap/encoding/integer/transcode.py:as_probabilistic`, `mchap/mset.py:unique_counts` and
`mchap/io/loci.py:Locus.validate_reference_alleles`.

The model starts from *decoded* alignment records (what pysam hands to the Python code): BAM decoding,
index look-up and the MD-tag reconstruction of the reference bases happen inside htslib and are inputs here.

Control flow follows the code: the `if / elif` cascade is an `if … else if …` cascade, the `for read in reads`
loop is a `foldlM` in `Except` (a `raise` aborts everything), dicts are association lists in insertion order,
the in-place update of the `chars` / `quals` arrays is `List.modify`.

Core Lean only.
-/
namespace MCHap

/-! ### alignment records -/

inductive CigarOp where
  | M | I | D | N | S | H | P | EQ | X
  deriving DecidableEq, Repr

/-- One alignment record as pysam presents it. `refBases` is what `get_aligned_pairs(with_seq=True)` yields as
third component (the reference base reconstructed from the MD tag), one per aligned pair, in order; `none` when the
record has no MD tag. `quals = none` is a record without base qualities (`read.qual is None`).
`mpos`, `isize`, `mateOtherContig` are only used by the pileup engine model of `find-snvs`. -/
structure Aln where
  qname : String
  contig : String
  flag : Nat
  mapq : Nat
  pos : Nat
  cigar : List (Nat × CigarOp)
  seq : List Char
  quals : Option (List Nat)
  rg : Option String
  refBases : Option (List Char)
  mpos : Int := -1
  isize : Int := 0
  mateOtherContig : Bool := false
  deriving Repr

namespace Aln
def isPaired (a : Aln) : Bool := a.flag.testBit 0
def isProperPair (a : Aln) : Bool := a.flag.testBit 1
def isUnmapped (a : Aln) : Bool := a.flag.testBit 2
def mateUnmapped (a : Aln) : Bool := a.flag.testBit 3
def isReverse (a : Aln) : Bool := a.flag.testBit 4
def isSecondary (a : Aln) : Bool := a.flag.testBit 8
def isQcfail (a : Aln) : Bool := a.flag.testBit 9
def isDuplicate (a : Aln) : Bool := a.flag.testBit 10
def isSupplementary (a : Aln) : Bool := a.flag.testBit 11
end Aln

/-- Walk of a CIGAR: (query index, reference position) of every M / = / X column.
I and S consume the query only, D and N the reference only, H nothing. A padding op P consumes nothing in the SAM
specification (`padQ = false`, what htslib's pileup does); pysam 0.24.1 `get_aligned_pairs` advances the query
index over P as if it were an insertion (`padQ = true`, what `extract_read_variants` therefore sees). -/
def alignedPairsFrom (padQ : Bool) : List (Nat × CigarOp) → Nat → Nat → List (Nat × Nat)
  | [], _, _ => []
  | (n, op) :: t, q, r =>
    match op with
    | .M | .EQ | .X => (List.range n).map (fun i => (q + i, r + i)) ++ alignedPairsFrom padQ t (q + n) (r + n)
    | .I | .S => alignedPairsFrom padQ t (q + n) r
    | .D | .N => alignedPairsFrom padQ t q (r + n)
    | .H => alignedPairsFrom padQ t q r
    | .P => alignedPairsFrom padQ t (if padQ then q + n else q) r

/-- `read.get_aligned_pairs(matches_only=True)` as pysam computes it -/
def Aln.pairs (a : Aln) : List (Nat × Nat) := alignedPairsFrom true a.cigar 0 a.pos

/-- the aligned columns per the SAM specification -/
def Aln.samPairs (a : Aln) : List (Nat × Nat) := alignedPairsFrom false a.cigar 0 a.pos

/-- number of reference bases the CIGAR consumes -/
def cigarRefLen : List (Nat × CigarOp) → Nat
  | [] => 0
  | (n, op) :: t =>
    match op with
    | .M | .EQ | .X | .D | .N => n + cigarRefLen t
    | _ => cigarRefLen t

/-- htslib `bam_endpos`: `pos + reference length`, or `pos + 1` for a record without reference-consuming CIGAR -/
def Aln.refEnd (a : Aln) : Nat :=
  let n := cigarRefLen a.cigar
  a.pos + (if n = 0 then 1 else n)

/-! ### locus, options, header -/

structure Snv where
  pos : Nat
  /-- REF first, then the ALT bases -/
  alleles : List Char
  deriving Repr

structure Locus where
  contig : String
  start : Nat
  stop : Nat
  snvs : List Snv
  deriving Repr

/-- `positions = {pos: i for i, pos in enumerate(locus.positions)}` then `positions[ref_pos]`:
a dict comprehension keeps the *last* index of a repeated position -/
def Locus.idxOfPos (L : Locus) (p : Nat) : Option Nat :=
  ((List.range L.snvs.length).filter (fun i => ((L.snvs.map Snv.pos).getD i 0) == p)).getLast?

/-- `alignment_file.fetch(contig, start, stop)`: records of that contig whose reference span meets `[start, stop)` -/
def fetched (L : Locus) (a : Aln) : Bool :=
  a.contig == L.contig && decide (a.pos < L.stop) && decide (L.start < a.refEnd)

inductive IdField where
  | SM | ID
  deriving DecidableEq, Repr

/-- the keyword arguments of `extract_read_variants`; `samples = []` is `samples=None` (and the empty set, which is
falsy in `if samples and …`) -/
structure ExtractOpts where
  idField : IdField := .SM
  minQ : Nat := 20
  skipDup : Bool := true
  skipQc : Bool := true
  skipSupp : Bool := true
  samples : List String := []
  deriving Repr

/-- one `@RG` header line: (ID, SM) -/
abbrev ReadGroup := String × String

def rgKey (f : IdField) (g : ReadGroup) : String :=
  match f with
  | .ID => g.1
  | .SM => g.2

/-- `sample_keys[read.get_tag("RG")]`: the dict is filled in header order, a repeated ID keeps the last line -/
def sampleKey (hdr : List ReadGroup) (f : IdField) (rgid : String) : Option String :=
  ((hdr.filter (fun g => g.1 == rgid)).getLast?).map (rgKey f)

/-- `if samples and sample_key not in samples: pass  else: …` -/
def selected (o : ExtractOpts) (k : String) : Bool :=
  o.samples.isEmpty || o.samples.contains k

/-! ### rows -/

/-- `(chars[idx], quals[idx])` -/
abbrev Cell := Char × Nat
abbrev Row := List Cell
/-- read name → row, in insertion order (a Python dict) -/
abbrev SampleData := List (String × Row)
/-- sample key → reads, in insertion order -/
abbrev Data := List (String × SampleData)

def blankRow (n : Nat) : Row := List.replicate n ('-', 0)

/-- the three-way update of one cell by one observed base -/
def mergeCell (c : Cell) (ch : Char) (q : Nat) : Cell :=
  if c.1 = '-' then (ch, q)          -- first observation
  else if c.1 = ch then (c.1, c.2 + q)   -- second call is congruent
  else ('N', c.2)                    -- incongruent calls

inductive ExtractError where
  /-- `ValueError`: reference allele of the variant does not match the alignment's reference base -/
  | refMismatch
  /-- `ValueError` of pysam: `get_aligned_pairs(with_seq=True)` without MD tag -/
  | noMD
  /-- `KeyError`: the record has no RG tag -/
  | noRGTag
  /-- `KeyError`: the RG tag is not a read group of the header -/
  | unknownRG
  /-- `TypeError` / `IndexError`: `read.seq[read_pos]` / `read.qual[read_pos]` on a record without them -/
  | noBaseOrQual
  /-- `IndexError`: SNV without alleles -/
  | noAlleles
  deriving DecidableEq, Repr

/-- `locus.alleles[idx][0]` -/
def Locus.refAllele (L : Locus) (j : Nat) : Option Char :=
  (L.snvs[j]?).bind (fun s => s.alleles.head?)

/-- body of `for read_pos, ref_pos, ref_char in read.get_aligned_pairs(matches_only=True, with_seq=True)`:
the calls (SNV index, base, phred) this record contributes, in order, or the first `raise` -/
def callsOfPairs (L : Locus) (a : Aln) : List ((Nat × Nat) × Char) → Except ExtractError (List (Nat × Char × Nat))
  | [] => .ok []
  | ((qi, r), rc) :: t =>
    match L.idxOfPos r with
    | none => callsOfPairs L a t
    | some j =>
      match L.refAllele j with
      | none => .error .noAlleles
      | some ra =>
        if ra.toUpper ≠ rc.toUpper then .error .refMismatch
        else
          match a.seq[qi]?, a.quals.bind (fun qs => qs[qi]?) with
          | some ch, some q => (callsOfPairs L a t).map (fun l => (j, ch, q) :: l)
          | _, _ => .error .noBaseOrQual

def readCalls (L : Locus) (a : Aln) : Except ExtractError (List (Nat × Char × Nat)) :=
  match a.refBases with
  | none => .error .noMD
  | some rb =>
    if rb.length ≠ a.pairs.length then .error .noMD
    else callsOfPairs L a (a.pairs.zip rb)

/-- the in-place updates of `chars` / `quals` by the calls of one record -/
def applyCalls (calls : List (Nat × Char × Nat)) (row : Row) : Row :=
  calls.foldl (fun row c => row.modify c.1 (fun cell => mergeCell cell c.2.1 c.2.2)) row

/-- `if read.qname not in sample_data: sample_data[read.qname] = blank` then update that entry -/
def upsertRow (sd : SampleData) (q : String) (blank : Row) (f : Row → Row) : SampleData :=
  match sd with
  | [] => [(q, f blank)]
  | (q', r) :: t => if q' = q then (q', f r) :: t else (q', r) :: upsertRow t q blank f

/-- `data[sample_key]` updated in place (keys are unique) -/
def updateSample (d : Data) (k : String) (f : SampleData → SampleData) : Data :=
  match d with
  | [] => []
  | (k', sd) :: t => if k' = k then (k', f sd) :: t else (k', sd) :: updateSample t k f

/-- the header loop: `data[sample_key] = {}` for every read group whose key is selected (first-occurrence order) -/
def initData (hdr : List ReadGroup) (o : ExtractOpts) : Data :=
  hdr.foldl (fun d g =>
    let k := rgKey o.idField g
    if selected o k then (if (d.map Prod.fst).contains k then d else d ++ [(k, [])]) else d) []

/-- the filter cascade exactly as written: `true` = the record reaches the `else` branch -/
def passes (o : ExtractOpts) (a : Aln) : Bool :=
  if a.isUnmapped then false
  else if a.mapq < o.minQ then false
  else if a.isDuplicate && o.skipDup then false
  else if a.isQcfail && o.skipQc then false
  else if a.isSupplementary && o.skipSupp then false
  else true

/-- one iteration of `for read in reads` -/
def step (L : Locus) (hdr : List ReadGroup) (o : ExtractOpts) (d : Data) (a : Aln) : Except ExtractError Data :=
  if !passes o a then .ok d
  else
    match a.rg with
    | none => .error .noRGTag
    | some rgid =>
      match sampleKey hdr o.idField rgid with
      | none => .error .unknownRG
      | some k =>
        if !selected o k then .ok d
        else
          match readCalls L a with
          | .error e => .error e
          | .ok calls =>
            .ok (updateSample d k (fun sd => upsertRow sd a.qname (blankRow L.snvs.length) (applyCalls calls)))

/-- `extract_read_variants(locus, alignment_file, samples, id, min_quality, skip_*, read_dicts=True)`;
`reads` is the content of the file in file order -/
def extract (L : Locus) (hdr : List ReadGroup) (o : ExtractOpts) (reads : List Aln) : Except ExtractError Data :=
  (reads.filter (fetched L)).foldlM (step L hdr o) (initData hdr o)

/-- `extract_read_variants(…)[name]` — `KeyError` (here `none`) when `name` is not a key of the header -/
def rowsOf (d : Data) (k : String) : Option SampleData := d.lookup k

/-! ### encoding and statistics (`encode_sample_reads`) -/

/-- `as_allelic`: `{k: v for v, k in enumerate(tup)}.get(s, -1)` — last index of a repeated allele, `none` = −1 -/
def alleleIndex (alleles : List Char) (c : Char) : Option Nat :=
  ((List.range alleles.length).filter (fun i => alleles.getD i '-' == c)).getLast?

def rowCalls (L : Locus) (r : Row) : List (Option Nat) :=
  (L.snvs.zip r).map (fun sr => alleleIndex sr.1.alleles sr.2.1)

/-- `character.depth`: rows whose char at column `j` is not the gap symbol -/
def snvDepth (rows : List Row) (j : Nat) : Nat :=
  rows.countP (fun r => (r.getD j ('-', 0)).1 != '-')

/-- `np.round` of a non-negative rational `s / n`: round half to even -/
def roundHalfEven (s n : Nat) : Nat :=
  let q := s / n
  let r := s % n
  if 2 * r < n then q else if n < 2 * r then q + 1 else if q % 2 = 0 then q else q + 1

/-- one probabilistic cell of `as_probabilistic(calls, n_alleles, p, error_factor=3)`; `none` = NaN -/
def probCell (nAlleles : Nat) (call : Option Nat) (p : Rat) (a : Nat) : Option Rat :=
  if nAlleles ≤ a then some 0              -- `new[..., n_alleles <= alleles] = 0` is applied last, also to gaps
  else
    match call with
    | none => none                         -- `new[array < 0] = nan`
    | some c => if a = c then some p else some ((1 - p) / 3)

/-- probability that the call is correct: `(1 - error_rate)` times `prob_of_qual(qual)` when phred scores are used;
`phred` is the table qual ↦ `1 - 10^(-qual/10)` (irrational in general, supplied as the exact value of the float) -/
def callProb (err : Rat) (phred : Option (List (Nat × Rat))) (q : Nat) : Option Rat :=
  match phred with
  | none => some (1 - err)
  | some tbl => (tbl.lookup q).map (fun pq => (1 - err) * pq)

abbrev Dist := List (List (Option Rat))

def rowDist (L : Locus) (maxAlleles : Nat) (err : Rat) (phred : Option (List (Nat × Rat))) (r : Row) : Option Dist :=
  (L.snvs.zip r).mapM (fun sr =>
    (callProb err phred sr.2.2).map (fun p =>
      (List.range maxAlleles).map (fun a => probCell sr.1.alleles.length (alleleIndex sr.1.alleles sr.2.1) p a)))

/-- `mset.unique_idx`: walk the array, keep an element the first time its bytes are seen -/
def uniqueFirst {α} [BEq α] : List α → List α → List α
  | [], _ => []
  | x :: t, seen => if seen.contains x then uniqueFirst t seen else x :: uniqueFirst t (x :: seen)

/-- `mset.unique_counts`: `cats = unique(array)`, `counts = count(array, cats)` — first occurrences in order, each
with its multiplicity in the whole array -/
def uniqueCounts {α} [BEq α] (l : List α) : List (α × Nat) :=
  (uniqueFirst l []).map (fun x => (x, l.count x))

structure SampleStats where
  rcount : Nat
  /-- `none` = NaN (locus without SNVs) -/
  dp : Option Nat
  snvdp : List Nat
  rcalls : Nat
  calls : List (List (Option Nat))
  /-- de-duplicated probabilistic reads with counts; `none` when a phred value is missing from the table -/
  dists : Option (List (Dist × Nat))
  deriving Repr

/-- statistics and encodings of the (pooled) rows of one sample -/
def sampleStats (L : Locus) (err : Rat) (phred : Option (List (Nat × Rat))) (rows : List Row) : SampleStats :=
  let n := L.snvs.length
  let depth := (List.range n).map (snvDepth rows)
  let calls := rows.map (rowCalls L)
  let maxAlleles := (L.snvs.map (fun s => s.alleles.length)).foldl max 0
  { rcount := rows.length
    dp := if n = 0 then none else some (roundHalfEven depth.sum n)
    snvdp := depth
    rcalls := (calls.map (fun c => c.countP Option.isSome)).sum
    calls := calls
    dists := (rows.mapM (rowDist L maxAlleles err phred)).map uniqueCounts }

/-- one pool member: `(name, path)` → the file's header and records -/
structure PoolMember where
  name : String
  hdr : List ReadGroup
  reads : List Aln

/-- the `for name, path in pairs` loop: rows of all members concatenated; any `raise` aborts; a name that is not a
key of that file's header is a `KeyError` (`none` inside) -/
def poolRows (L : Locus) (o : ExtractOpts) : List PoolMember → Except ExtractError (Option (List Row))
  | [] => .ok (some [])
  | m :: t =>
    match extract L m.hdr { o with samples := [m.name] } m.reads with
    | .error e => .error e
    | .ok d =>
      match rowsOf d m.name with
      | none => .ok none
      | some sd =>
        match poolRows L o t with
        | .error e => .error e
        | .ok none => .ok none
        | .ok (some rest) => .ok (some (sd.map Prod.snd ++ rest))

/-! ### `Locus.validate_reference_alleles` -/

inductive RefCheck where
  | ok
  /-- `ValueError`: REF of the variant differs from the reference sequence -/
  | mismatch
  /-- `IndexError`: the variant lies outside the sequence -/
  | indexError
  deriving DecidableEq, Repr

/-- Python indexing `seq[i]` with a possibly negative `i` -/
def pyIndex {α} (l : List α) (i : Int) : Option α :=
  if 0 ≤ i then l[i.toNat]? else if 0 ≤ i + l.length then l[(i + l.length).toNat]? else none

/-- `for pos, char in zip(positions, ref_alleles): if sequence[pos - start] != char: raise` (case-sensitive;
the caller has upper-cased the FASTA sequence) -/
def validateRef (seq : List Char) (start : Nat) : List Snv → RefCheck
  | [] => .ok
  | s :: t =>
    match s.alleles.head? with
    | none => .indexError
    | some ra =>
      match pyIndex seq ((s.pos : Int) - (start : Int)) with
      | none => .indexError
      | some c => if c ≠ ra then .mismatch else validateRef seq start t

end MCHap
