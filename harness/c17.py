"""C17 — the pedigree inheritance model is a proper probability distribution; zero iff invalid.

Correspondence (model `lean/MCHap/Model/Pedigree.lean`, exe `driver_ped`):
`trio_log_pmf` (jitted and `.py_func`) over completely enumerated progeny genotypes, evaluated by the
model both on allele-count vectors and on the slot vectors the code itself builds
(`set_allelic_dosage` / `set_parental_copies`, read back from the scratch arrays);
`gamete_log_pmf` over enumerated gametes; `set_initial_dosage` / `increment_dosage` sequences;
`trio_valid`, `duo_valid`.
Implementation oracles: sum of exp(trio_log_pmf) over all unordered progeny = 1; sum of the gamete pmf
over all gametes = 1; the enumerator visits every vector under the constraint exactly once in
strictly decreasing lexicographic order; with zero error `pmf > 0 <=> trio_valid / duo_valid`;
`increment_dosage` is never called outside its contract (all-zero vector) by `trio_valid`.
Round 5 (input shapes): lambda = 1, progeny alleles in arbitrary order, scratch arrays reused / pre-filled with junk,
tau = parental ploidy with the other parent contributing, odd parental ploidy, octoploids, per-edge error pairs with exactly one
side certain; `PedigreeAllelesMultiTrace.incongruence` (PEDERR) on stacked int16 traces padded with -1 against the fraction of
observations of zero inheritance probability (and an independent "is there a pair of possible gametes" test, `wp4.spec_positive`);
`parse_pedigree_arguments` on generated files and `call_pedigree.program.call_sample_genotypes` with the sampler replaced by a
recorder: dicts, the arrays handed to the sampler, and FORMAT/PEDERR of the record.
"""
from __future__ import annotations

import itertools
import math
from fractions import Fraction

import numpy as np

from . import common as C
from . import wp4 as W

PROP = "C17"
MODULE = "MCHap.Properties.C17"
EXE = "driver_ped"
THEOREMS = [
    "MCHap.C17.compositions_nodup",
    "MCHap.C17.mem_compositions_iff",
    "MCHap.C17.hyper_sum_one",
    "MCHap.C17.gamete_sum_one",
    "MCHap.C17.gameteSpec_nonneg",
    "MCHap.C17.unknown_sum_one",
    "MCHap.C17.mixture_sum_one",
    "MCHap.C17.sum_regroup",
    "MCHap.C17.trio_sum_one",
    "MCHap.C17.increment_decreasing",
    "MCHap.C17.enumerator_sound",
    "MCHap.C17.gameteSpec_pos_iff",
    "MCHap.C17.positive_iff_valid",
    "MCHap.C17.duo_positive_iff_valid",
    "MCHap.C17.enumerator_complete_small",
    "MCHap.C17.increment_is_predecessor",
    "MCHap.C17.stuck_is_minimum",
    "MCHap.C17.enumerator_complete",
    "MCHap.C17.enumerator_perm_spec",
    "MCHap.C17.trioValid_eq_spec",
    "MCHap.C17.positive_iff_trioValid",
    "MCHap.C17.multinomial_convolution",
    "MCHap.C17.gameteCode_eq_spec",
    "MCHap.C17.support_under_constraint",
    "MCHap.C17.trioCode_eq_spec",
    "MCHap.C17.trioCode_sum_one",
    "MCHap.C17.trioCode_positive_iff_trioValid",
    "MCHap.C17.trioPmf_swap",
    "MCHap.C17.duo_positive_iff_valid_q",
]
RULE = ("cases: every unordered progeny genotype of (n_alleles 1..4) x (ploidy_p, ploidy_q, tau_p, tau_q) in balanced / mixed-ploidy / "
        "unbalanced / clonal (tau = 0) / unknown-parent configurations x lambda {0, .1, .5} (tau = 2) x errors {0, .01, .5, 1} x "
        "frequencies {flat, skewed, with zeros}, parents drawn with an excess of repeated alleles; enumerated gametes; random "
        "constraint vectors for the enumerator. Non-trivial: >= 2 alleles and a progeny / gamete with a repeated allele or a "
        "parent with a repeated allele. Distinct by canonical request line. Round 5: lambda 1.0, configurations with tau = parental ploidy, "
        "parental ploidy 3 / 5 / 8, gamete tau 0 / 4, per-edge error pairs (0, x) / (x, 0) / (0, 1) / (1, 0), progeny order shuffled on ~30 % of "
        "the trios, scratch arrays fresh / shared / junk-filled; PEDERR: random pedigrees (per-individual ploidy and tau, founders, p-only and "
        "q-only duos, selfing, clones, indices permuted) x stacked Mendelian / noisy / random states as (chains, steps, N, max_ploidy) int16 "
        "traces; call-pedigree glue: pedigree / ploidy / gamete-ploidy / gamete-ibd / gamete-error given as scalar or as shuffled files, "
        "members without alignment file, then call_sample_genotypes with a recording sampler.")

# (ploidy_p, ploidy_q, tau_p, tau_q); ploidy 0 = unknown parent
CONFIGS = [
    (2, 2, 1, 1), (4, 4, 2, 2), (6, 6, 3, 3), (2, 4, 1, 2), (4, 2, 2, 1), (4, 6, 2, 3),
    (4, 4, 1, 3), (4, 4, 3, 1), (2, 4, 1, 3), (4, 2, 3, 1), (2, 4, 1, 1), (6, 4, 1, 2), (4, 6, 2, 4),
    (4, 4, 2, 0), (4, 4, 0, 2), (2, 2, 0, 2), (4, 2, 4, 0), (2, 4, 0, 4), (2, 2, 2, 0),
    (0, 0, 1, 1), (0, 0, 2, 2), (0, 4, 2, 2), (4, 0, 2, 2), (0, 2, 1, 1), (2, 0, 1, 3), (0, 4, 0, 2), (0, 0, 2, 0),
    (0, 6, 3, 3), (4, 0, 1, 2),
    # a parent that hands over ALL its copies while the other one contributes too; odd parental ploidy; octoploids
    (2, 4, 2, 2), (2, 2, 2, 2), (4, 2, 2, 2), (2, 6, 2, 3), (3, 4, 1, 2), (3, 3, 2, 1), (5, 4, 2, 2), (3, 5, 1, 3), (5, 3, 3, 1),
    (3, 0, 2, 1), (0, 5, 2, 2), (8, 8, 4, 4), (8, 4, 4, 2), (2, 8, 1, 4), (0, 8, 2, 4),
]
ERRORS = [0.0, 0.01, 0.5, 1.0]
LAMBDAS = [0.0, 0.1, 0.5, 1.0]
# per-edge error pairs: exactly one side certain, the other strictly inside (0, 1) / certainly wrong
EDGE_PAIRS = [(0.0, 0.01), (0.0, 0.2), (0.0, 0.5), (0.2, 0.0), (0.5, 0.0), (0.99, 0.0), (0.0, 1.0), (1.0, 0.0), (0.01, 0.5), (0.5, 0.01)]


def counts(alleles, n):
    out = [0] * n
    for a in alleles:
        if a >= 0:
            out[int(a)] += 1
    return out


def vtoks(v):
    return [str(len(v))] + [str(int(x)) for x in v]


def rtoks(v):
    return [str(len(v))] + [C.rat_str(x) for x in v]


def gen_freqs(r, n):
    kind = r.choice(["flat", "skew", "skew", "zeros"])
    if kind == "flat" or n == 1:
        return "flat", np.full(n, 1.0 / n)
    v = np.array([r.random() + 0.05 for _ in range(n)])
    if kind == "zeros":
        for i in r.sample(range(n), r.randint(1, n - 1)):
            v[i] = 0.0
    return kind, v / v.sum()


def gen_parent(r, n, ploidy, max_ploidy):
    if ploidy == 0:
        g = [r.randrange(n) for _ in range(max_ploidy)]          # content must be irrelevant
        return np.array(g, dtype=np.int64)
    pool = [r.randrange(n) for _ in range(r.randint(1, max(1, ploidy - 1)))] if r.random() < 0.6 else list(range(n))
    g = sorted(r.choice(pool) for _ in range(ploidy))
    if r.random() < 0.3:
        r.shuffle(g)
    return np.array(g + [-2] * (max_ploidy - ploidy), dtype=np.int64)


def scratch(m):
    z = lambda: np.zeros(m, dtype=np.int64)
    return dict(dosage=z(), dosage_p=z(), dosage_q=z(), gamete_p=z(), gamete_q=z(), constraint_p=z(), constraint_q=z(),
                dosage_log_frequencies=np.zeros(m, dtype=np.float64))


def call(f, *a, **k):
    """value or an error tag"""
    try:
        return f(*a, **k)
    except ValueError:
        return "err"
    except (AssertionError, ZeroDivisionError, IndexError):
        return "err"


def prob(x):
    if isinstance(x, str):
        return x
    x = float(x)
    return math.nan if math.isnan(x) else math.exp(x)


def same(impl, model):
    if isinstance(impl, str) or isinstance(model, str):
        return impl == model
    return C.close(impl, model, rel=1e-9, abs_=1e-13)


def bounded(c, tau):
    """all vectors <= c with sum tau, in decreasing lexicographic order (independent of the code)"""
    out = [v for v in itertools.product(*[range(x, -1, -1) for x in c]) if sum(v) == tau]
    return out


def trio_line(op, d, dp, dq, pp, pq, tp, tq, lp, lq, ep, eq, fs, extra=()):
    return " ".join([op] + vtoks(d) + vtoks(dp) + vtoks(dq) + [str(pp), str(pq), str(tp), str(tq), C.rat_str(lp), C.rat_str(lq),
                     C.rat_str(ep), C.rat_str(eq)] + rtoks(fs) + [str(x) for x in extra])


def cli_case(chk, r, tmp, tag, ARGS, CP, LocusPrior, SNP, FORMAT, classes, run_pederr):
    """one pedigree specification through parse_pedigree_arguments and program.call_sample_genotypes (sampler replaced by a
    recorder that returns a generated trace): dicts, sampler arrays and PEDERR against what the files say"""
    case = W.gen_cli_case(r, tmp, tag)
    S, names, forms = case["S"], case["names"], case["forms"]
    info = {"files": {k: (open(v).read() if isinstance(v, str) and v.startswith(tmp) else v)
                      for k, v in case["args"].items() if k.endswith("_argument")},
            "bam_samples": case["bam_samples"]}
    for k, v in forms.items():
        chk.count("cli:%s=%s" % (k, v))
    chk.count("cli:cases")
    if not all(case["has_bam"]):
        chk.count("cli:member-without-bam")
    if (S["tau"][:, 0] != S["tau"][:, 1]).any():
        chk.count("cli:unbalanced-tau")
    if (S["tau"] == 0).any():
        chk.count("cli:tau=0")
    if (S["lam"] == 1.0).any():
        chk.count("cli:lambda=1")
    if any(S["err"][k, 0] != S["err"][k, 1] for k in range(S["N"])):
        chk.count("cli:per-edge-error-differs")
    chk.case(["cli", info], S["N"] >= 2 and bool((S["parents"] >= 0).any()))
    try:
        parsed = ARGS.parse_pedigree_arguments(**case["args"])
    except Exception as e:   # noqa: BLE001
        chk.violation("parse_pedigree_arguments raises on a well-formed pedigree specification: %r" % (e,), info, "C17/cli/raises")
        return
    # ---- dicts
    nm = lambda k: names[k] if k >= 0 else None
    want = {
        "samples": case["final"],
        "sample_ploidy": {names[k]: int(S["ploidy"][k]) for k in range(S["N"])},
        "sample_parents": {names[k]: (nm(int(S["parents"][k, 0])), nm(int(S["parents"][k, 1]))) for k in range(S["N"])},
        "gamete_ploidy": {names[k]: (int(S["tau"][k, 0]), int(S["tau"][k, 1])) for k in range(S["N"])},
        "gamete_ibd": {names[k]: (float(S["lam"][k, 0]), float(S["lam"][k, 1])) for k in range(S["N"])},
        "gamete_error": {names[k]: (float(S["err"][k, 0]), float(S["err"][k, 1])) for k in range(S["N"])},
    }
    for key, exp in want.items():
        got = parsed.get(key)
        if isinstance(exp, dict):
            got = {k: (tuple(v) if isinstance(v, (tuple, list)) else v) for k, v in (got or {}).items() if k in exp}
        if got != exp:
            chk.violation("parse_pedigree_arguments: '%s' differs from what the files / arguments say" % key,
                          {**info, "got": str(got), "expected": str(exp)}, "C17/cli/parse")
            return
    for k in range(S["N"]):
        if not case["has_bam"][k] and parsed["sample_bams"].get(names[k]) != []:
            chk.violation("a pedigree member without alignment file is not given an empty list of alignment files",
                          {**info, "sample": names[k], "got": str(parsed["sample_bams"].get(names[k]))}, "C17/cli/parse")
            return
    # ---- program glue
    L = W.gen_locus(r)
    variants = tuple(SNP("ctg", 100 + p, 101 + p, ".", al) for p, al in zip(L["positions"], L["alleles"]))
    locus = LocusPrior(contig="ctg", start=100, stop=100 + len(L["sequence"]), name="loc", sequence=L["sequence"], variants=variants,
                       alts=tuple(L["haps"][1:]), frequencies=L["frequencies"].copy(), mask_reference_allele=L["mask_ref"])
    keep = [k for k in range(len(L["haps"])) if L["frequencies"][k] > 0 and not (k == 0 and L["mask_ref"])]
    if not keep:
        chk.count("cli:skipped-no-haplotype")
        return
    n = len(keep)
    chains, steps, burn = r.choice([1, 2]), r.choice([4, 6, 9]), r.choice([0, 1, 3])
    order = case["final_idx"]
    S2 = dict(S, **W.expected_arrays(case))
    S2 = dict(N=S["N"], ploidy=S2["sample_ploidy"], parents=S2["sample_parents"], tau=S2["gamete_tau"], lam=S2["gamete_lambda"],
              err=S2["gamete_error"])
    # the trace the recorder hands back: generated in an order in which parents precede children, stored in sampler order
    gen_order = []
    left = list(range(S2["N"]))
    for _ in range(S2["N"] + 1):                      # bounded topological sort
        for k in list(left):
            if all(int(x) < 0 or int(x) in gen_order for x in S2["parents"][k]):
                gen_order.append(k); left.remove(k)
    full = np.full((chains, steps, S2["N"], int(S2["ploidy"].max())), -1, dtype=np.int16)
    if not left:
        pos = {k: j for j, k in enumerate(gen_order)}
        Sg = dict(N=S2["N"], ploidy=S2["ploidy"][gen_order], tau=S2["tau"][gen_order], lam=S2["lam"][gen_order],
                  parents=np.array([[pos[int(x)] if x >= 0 else -1 for x in S2["parents"][k]] for k in gen_order], dtype=np.int64))
        tg = W.build_trace(r, Sg, n, chains, steps)
        for j, k in enumerate(gen_order):
            full[:, :, k, :] = tg[:, :, j, :]
    rec = {}

    class Recorder:
        def __init__(self, **kw):
            rec["kwargs"] = kw

        def fit(self, sample_reads, sample_read_counts, initial=None):
            rec["reads"] = np.array(sample_reads, copy=True); rec["counts"] = np.array(sample_read_counts, copy=True)
            return classes.PedigreeAllelesMultiTrace(full.copy(), n_allele=n)

    reads = {}
    prog = CP.program(vcf=None, ref=None, samples=parsed["samples"], sample_bams=parsed["sample_bams"], sample_ploidy=parsed["sample_ploidy"],
                      sample_inbreeding=parsed["sample_inbreeding"], sample_parents=parsed["sample_parents"],
                      gamete_ploidy=parsed["gamete_ploidy"], gamete_ibd=parsed["gamete_ibd"], gamete_error=parsed["gamete_error"],
                      mcmc_chains=chains, mcmc_steps=steps, mcmc_burn=burn, info_fields=[], format_fields=[], random_seed=r.randrange(1000))
    data = prog._locus_data(locus, parsed["sample_bams"])
    for k in order:
        rd, ct, calls = W.gen_sample_reads(r, L["alleles"], case["has_bam"][k])
        data.read_dists[names[k]] = rd; data.read_counts[names[k]] = ct; data.read_calls[names[k]] = calls
        reads[names[k]] = (rd, ct)
        if len(rd) == 0:
            chk.count("cli:sample-with-zero-reads")
    info = {**info, "haplotypes": L["haps"], "frequencies": L["frequencies"].tolist(), "mask_reference": L["mask_ref"],
            "chains": chains, "steps": steps, "burn": burn, "sampler_order": parsed["samples"]}
    orig = CP.PedigreeCallingMCMC
    CP.PedigreeCallingMCMC = Recorder
    try:
        try:
            prog.call_sample_genotypes(data)
        except Exception as e:   # noqa: BLE001
            cause = e.__cause__
            chk.violation("call-pedigree call_sample_genotypes raises on a well-formed pedigree / trace: %r (cause %r)" % (e, cause),
                          {**info, "trace": full.tolist()}, "C17/cli/raises")
            return
    finally:
        CP.PedigreeCallingMCMC = orig
    kw = rec.get("kwargs")
    if kw is None:
        chk.violation("call_sample_genotypes did not run the pedigree sampler although haplotypes are available", info, "C17/cli/arrays")
        return
    exp = W.expected_arrays(case)
    for key, e in exp.items():
        g = np.asarray(kw.get(key))
        if g.shape != e.shape or not bool(np.all(g == e)):          # a NaN entry is a difference
            chk.violation("the array '%s' handed to the pedigree sampler differs from the pedigree files (rows in sample order, "
                          "columns parent p / parent q)" % key, {**info, "got": g.tolist(), "expected": e.tolist()}, "C17/cli/arrays")
            return
    for key, e in (("steps", steps), ("annealing", burn), ("chains", chains)):
        if kw.get(key) != e:
            chk.violation("sampler argument '%s' differs from the program setting" % key, {**info, "got": kw.get(key), "expected": e},
                          "C17/cli/arrays")
    enc = locus.encode_haplotypes()[keep]
    if not np.array_equal(np.asarray(kw.get("haplotypes")), enc) or not np.allclose(np.asarray(kw.get("frequencies")), L["frequencies"][keep],
                                                                                     rtol=0, atol=0):
        chk.violation("haplotypes / prior frequencies handed to the pedigree sampler are not the unmasked input haplotypes",
                      {**info, "got": [np.asarray(kw.get("haplotypes")).tolist(), np.asarray(kw.get("frequencies")).tolist()]}, "C17/cli/arrays")
    for j, sname in enumerate(parsed["samples"]):
        rd, ct = reads[sname]
        R, Cn = rec["reads"], rec["counts"]
        ok = R.shape[0] == len(parsed["samples"]) and len(rd) <= R.shape[1] and np.array_equal(R[j, :len(rd)], rd, equal_nan=True) \
            and np.array_equal(Cn[j, :len(ct)], ct) and bool((Cn[j, len(ct):] == 0).all())
        if not ok:
            chk.violation("the reads handed to the pedigree sampler for a sample are not that sample's reads (padding rows must have count 0)",
                          {**info, "sample": sname}, "C17/cli/arrays")
            break
    # ---- PEDERR of the record = incongruence of the post-burn-in trace under the parameters of the files
    inc = run_pederr(S2, full, n, burn, "call_pedigree.program.call_sample_genotypes (FORMAT/PEDERR)", info) if not left else None
    if inc is not None:
        for j, sname in enumerate(parsed["samples"]):
            got = data.sampledata[FORMAT.PEDERR].get(sname)
            if got is None or not (abs(float(got) - inc[j]) <= 1e-12):
                chk.violation("FORMAT/PEDERR of a sample is not the incongruence of its post-burn-in trace",
                              {**info, "sample": sname, "got": None if got is None else float(got), "expected": inc[j]}, "C17/cli/pederr")
                break


def run(tier, replay=None):
    from mchap.pedigree import classes, prior, validation

    chk = C.Check(PROP, tier, MODULE, THEOREMS, RULE, exe=EXE, assumptions=[
        "float64 log-space evaluation (log, exp, lgamma, log1p) is compared at rel 1e-9, sums at 1e-9 absolute; not proved",
        "frequency vectors are float64 and sum to one only up to rounding; the theorems are for exact sums",
        "an unknown parent is passed as ploidy 0 with error 1.0, as every caller in mchap does (trio_log_pmf itself does not force it)",
        "trioCode_eq_spec (model of trio_log_pmf = sum over all gamete pairs) holds under TrioWF: equal vector lengths, progeny total "
        "tau_p + tau_q, unknown parent passed with error 1.0 (as every caller in mchap does), errors <= 1, lambda >= 0 and non-zero only "
        "for tau = 2; the driver still evaluates both forms in exact rationals on every case",
        "the equality of the evaluation on allele-count vectors and on first-occurrence slot vectors is tested, not proved",
    ])
    chk.prove()
    drv = C.Driver(EXE)
    r = C.rng(PROP)

    n_trio = {"warm": 4, "quick": 700, "thorough": 5000}[tier]
    n_gam = {"warm": 3, "quick": 400, "thorough": 3000}[tier]
    n_enum = {"warm": 5, "quick": 1000, "thorough": 8000}[tier]

    # ------------------------------------------------------------------ enumerator
    lines, meta = [], []
    for i in range(n_enum):
        m = r.choice([1, 2, 3, 3, 4, 4, 5, 6])
        c = [r.choice([0, 1, 1, 2, 2, 3, 4]) for _ in range(m)]
        tot = sum(c)
        boundary = r.random() < 0.12
        tau = tot + 1 if boundary else r.randint(1, max(1, tot)) if tot else 1
        lines.append(" ".join(["ped.enum", str(tau)] + vtoks(c)))
        meta.append((c, tau))
    ans = drv.ask(lines)
    for (c, tau), a, line in zip(meta, ans, lines):
        carr = np.array(c, dtype=np.int64)
        g = np.zeros(len(c), dtype=np.int64)
        chk.count("enum:len=%d" % len(c))
        seq = None
        try:
            prior.set_initial_dosage(tau, carr, g)
            seq = [tuple(int(x) for x in g)]
            bound = 1
            for x in c:
                bound *= x + 1
            for _ in range(bound + 1):
                if g.sum() == 0:                      # outside the contract of increment_dosage (never for tau >= 1)
                    break
                try:
                    prior.increment_dosage(g, carr)
                except ValueError:
                    break
                seq.append(tuple(int(x) for x in g))
        except ValueError:
            seq = None
        impl = "err" if seq is None else "|".join(" ".join(map(str, v)) for v in seq)
        nontriv = seq is not None and len(seq) >= 3
        chk.case(line, nontriv, sample={"request": line, "impl": impl[:200], "model": a[:200]})
        case = {"constraint": c, "tau": tau, "impl": impl[:400], "model": a[:400]}
        if impl != a:
            chk.disagreement("set_initial_dosage / increment_dosage sequence != model", case)
        # oracle: exactly the bounded compositions, strictly decreasing
        exp = bounded(c, tau)
        if seq is None:
            if exp:
                chk.violation("set_initial_dosage raises although a gamete fits the constraint", case, "C17/enum/initial")
        else:
            if seq != exp:
                what = "gamete enumerator repeats or skips a vector" if sorted(seq) != sorted(exp) or len(set(seq)) != len(seq) \
                    else "gamete enumerator is not in decreasing lexicographic order"
                chk.violation(what, {**case, "expected": exp[:50]}, "C17/enum/complete")

    # ------------------------------------------------------------------ gamete pmf
    lines, meta = [], []
    for i in range(n_gam):
        n = r.choice([1, 2, 3, 3, 4, 4])
        ploidy = r.choice([2, 4, 4, 6, 3, 5, 8])
        tau = r.choice([t for t in (1, 2, 2, 3, 0, 4) if t <= ploidy])
        lam = r.choice(LAMBDAS) if tau == 2 else (r.choice([0.0, 0.0, 0.0, 0.1]))
        parent = gen_parent(r, n, ploidy, ploidy)
        dp = counts(parent, n)
        for g in itertools.combinations_with_replacement(range(n), tau):
            gv = counts(g, n)
            lines.append(" ".join(["ped.gamete"] + vtoks(gv) + [str(tau)] + vtoks(dp) + [str(ploidy), C.rat_str(lam)]))
            meta.append((i, n, ploidy, tau, lam, dp, gv))
    ans = drv.ask(lines)
    sums = {}
    for (i, n, ploidy, tau, lam, dp, gv), a, line in zip(meta, ans, lines):
        args = (np.array(gv, dtype=np.int64), tau, np.array(dp, dtype=np.int64), ploidy, lam)
        impl = prob(call(prior.gamete_log_pmf, *args))
        model = a if a == "err" else float(C.parse_rat(a.split()[0]))
        chk.count("gamete:tau=%d" % tau); chk.count("gamete:lam=%s" % lam); chk.count("gamete:ploidy=%d" % ploidy)
        chk.case(line, n >= 2 and (max(gv) >= 2 or max(dp) >= 2), sample={"request": line, "impl": impl, "model": a})
        case = {"gamete": gv, "tau": tau, "parent": dp, "ploidy": ploidy, "lambda": lam, "impl": impl, "model": a}
        if not same(impl, model):
            chk.disagreement("gamete_log_pmf != model", case)
        if a != "err" and a.split()[0] != a.split()[1]:
            chk.disagreement("model: gametePmf (code form) != gameteSpec", case)
        if not isinstance(impl, str):
            sums.setdefault(i, [0.0, case])[0] += impl
    for i, (tot, case) in sums.items():
        if not (abs(tot - 1.0) <= 1e-9):     # a NaN total is a failure too
            chk.violation("gamete probabilities do not sum to one over all gametes", {**case, "sum": tot}, "C17/gamete/sum")

    # ------------------------------------------------------------------ trio pmf, validity
    oob = {"n": 0}
    orig_inc = validation.increment_dosage

    def guarded_increment(dosage, constraint):
        if dosage.sum() == 0:
            oob["n"] += 1
            raise IndexError("increment_dosage called with an all-zero dosage")
        return orig_inc(dosage, constraint)

    lines, meta = [], []
    for i in range(n_trio):
        n = r.choice([1, 2, 2, 3, 3, 3, 4, 4])
        pp, pq, tp, tq = CONFIGS[i % len(CONFIGS)] if i < 2 * len(CONFIGS) else r.choice(CONFIGS)
        if tier != "thorough" and n == 4 and tp + tq >= 6 and r.random() < 0.5:
            n = 3
        if tp + tq >= 8 or max(pp, pq) >= 8:
            n = min(n, 3 if tier == "thorough" else 2 if tp + tq >= 8 else 3)
        m = max(pp, pq, tp + tq, 2)
        par_p = gen_parent(r, n, pp, m)
        par_q = gen_parent(r, n, pq, m)
        malformed = r.random() < 0.06
        lp = r.choice(LAMBDAS) if (tp == 2 or malformed) else 0.0
        lq = r.choice(LAMBDAS) if (tq == 2 or malformed) else 0.0
        ep = 1.0 if pp == 0 else r.choice(ERRORS)
        eq = 1.0 if pq == 0 else r.choice(ERRORS)
        if r.random() < 0.35:
            ep = 1.0 if pp == 0 else 0.0
            eq = 1.0 if pq == 0 else 0.0
        elif pp and pq and r.random() < 0.3:
            ep, eq = r.choice(EDGE_PAIRS)
        shuffled = r.random() < 0.3                      # progeny alleles in arbitrary order: slot vectors with interior zeros
        smode = r.choice(["fresh", "reuse", "reuse", "junk", "junk"])
        kind, freqs = gen_freqs(r, n)
        with np.errstate(divide="ignore"):
            logf = np.log(freqs)
        use_py = (i % 9 == 0)
        for prog in itertools.combinations_with_replacement(range(n), tp + tq):
            order = list(prog)
            if shuffled:
                r.shuffle(order)
            meta.append((i, n, pp, pq, tp, tq, par_p, par_q, lp, lq, ep, eq, kind, freqs, logf, use_py, prog, m, tuple(order), smode))
    # run the implementation first (the slot vectors are read back from its scratch arrays)
    results = []
    shared = {}
    for (i, n, pp, pq, tp, tq, par_p, par_q, lp, lq, ep, eq, kind, freqs, logf, use_py, prog, m, order, smode) in meta:
        parr = np.array(list(order) + [-2] * (m - len(order)), dtype=np.int64)
        if smode == "fresh":
            sc = scratch(m)
        elif smode == "reuse":                              # one set of arrays for all calls, as the sampler does
            sc = shared.setdefault(m, scratch(m))
        else:                                               # whatever an earlier (longer, different) call left behind
            sc = scratch(m)
            for k_, arr in sc.items():
                if arr.dtype == np.float64:
                    arr[:] = [r.choice([np.nan, -np.inf, 0.0, -0.7, 3.5]) for _ in range(m)]
                else:
                    arr[:] = [r.randint(-3, 9) for _ in range(m)]
        v = call(prior.trio_log_pmf, parr, par_p, par_q, pp, pq, tp, tq, lp, lq, ep, eq, logf, **sc)
        sc = {k_: sc[k_].copy() for k_ in ("dosage", "dosage_p", "dosage_q")}     # what THIS call left (the arrays are reused)
        vpy = None
        if use_py:
            vpy = call(prior.trio_log_pmf.py_func, parr, par_p, par_q, pp, pq, tp, tq, lp, lq, ep, eq, logf, **scratch(m))
        d = counts(prog, n)
        dpv = counts(par_p, n) if pp else [0] * n
        dqv = counts(par_q, n) if pq else [0] * n
        lines.append(trio_line("ped.trio", d, dpv, dqv, pp, pq, tp, tq, lp, lq, ep, eq, freqs))
        # slot form: what the code itself built
        fslots = [float(freqs[a]) if a >= 0 else 0.0 for a in parr]
        if min(int(sc[k_].min()) for k_ in sc) < 0:        # stale junk left in a scratch vector: not a request the model can read
            chk.violation("trio_log_pmf leaves values of an earlier call in its dosage scratch vectors (they are inputs of the gamete loops)",
                          {"progeny": parr.tolist(), "parent_p": par_p.tolist(), "parent_q": par_q.tolist(), "ploidy": [pp, pq], "tau": [tp, tq],
                           "scratch_after": {k_: sc[k_].tolist() for k_ in sc}}, "C17/trio/scratch-stale")
            lines.append(lines[-1])
        elif m >= 8 and not (tier == "thorough" and i % 4 == 0):
            # the exact sum over all gamete pairs on 8 slots costs ~0.1 s per progeny in the model: the octoploid cases are
            # evaluated on allele-count vectors only (the slot vectors themselves are still compared through ped.slots)
            chk.count("slot-form-skipped(m>=8)")
            lines.append(lines[-1])
        else:
            lines.append(trio_line("ped.trio", sc["dosage"], sc["dosage_p"], sc["dosage_q"], pp, pq, tp, tq, lp, lq, ep, eq, fslots))
        lines.append(" ".join(["ped.slots"] + vtoks(parr) + vtoks(par_p) + vtoks(par_q)))
        lines.append(" ".join(["ped.valid.trio"] + vtoks(d) + vtoks(counts(par_p, n)) + vtoks(counts(par_q, n))
                              + [str(tp), str(tq), C.rat_str(lp), C.rat_str(lq)]))
        results.append((v, vpy, sc, parr))
    ans = drv.ask(lines)

    totals = {}
    for j, (mt, (v, vpy, sc, parr)) in enumerate(zip(meta, results)):
        (i, n, pp, pq, tp, tq, par_p, par_q, lp, lq, ep, eq, kind, freqs, logf, use_py, prog, m, order, smode) = mt
        a_cnt, a_slot, a_slots, a_valid = ans[4 * j: 4 * j + 4]
        impl = prob(v)
        cfg = "cfg=%d,%d,%d,%d" % (pp, pq, tp, tq)
        chk.count(cfg); chk.count("freq=" + kind); chk.count("n_alleles=%d" % n)
        chk.count("err=%s,%s" % (ep, eq)); chk.count("lam=%s,%s" % (lp, lq))
        chk.count("scratch=" + smode); chk.count("progeny-order=" + ("shuffled" if order != prog else "sorted"))
        if pp and pq and ((ep == 0.0) != (eq == 0.0)) and 0.0 < max(ep, eq) < 1.0:
            chk.count("err:one-side-zero-other-inside(0,1)")
        nontriv = n >= 2 and (len(set(prog)) < len(prog) or max(counts(par_p, n) + counts(par_q, n)) >= 2)
        chk.case(lines[4 * j], nontriv, sample={"request": lines[4 * j], "impl": impl, "model": a_cnt})
        case = {"progeny": list(order), "parent_p": par_p.tolist(), "parent_q": par_q.tolist(), "ploidy_p": pp, "ploidy_q": pq,
                "tau": [tp, tq], "lambda": [lp, lq], "error": [ep, eq], "frequencies": freqs.tolist(), "impl": impl, "model": a_cnt}
        mc = a_cnt if a_cnt == "err" else float(C.parse_rat(a_cnt.split()[0]))
        ms = a_slot if a_slot == "err" else float(C.parse_rat(a_slot.split()[0]))
        if not same(impl, mc):
            chk.disagreement("trio_log_pmf != model on allele-count vectors", case)
        if not same(impl, ms):
            chk.disagreement("trio_log_pmf != model on the code's own slot vectors", {**case, "model_slots": a_slot})
        if vpy is not None and not same(prob(vpy), impl):
            chk.disagreement("trio_log_pmf jitted != py_func", {**case, "py": prob(vpy)})
        if a_cnt != "err" and a_cnt.split()[0] != a_cnt.split()[1]:
            chk.disagreement("model: trioPmfCode (four branches + literal enumerator) != trioPmf (sum over all gamete pairs)",
                             {**case, "model": a_cnt})
        if not isinstance(impl, str):
            got = "|".join(" ".join(str(int(x)) for x in sc[k]) for k in ("dosage", "dosage_p", "dosage_q"))
            exp_slots = a_slots.split("|")
            if pp == 0:
                exp_slots[1] = " ".join(["0"] * m)
            if pq == 0:
                exp_slots[2] = " ".join(["0"] * m)
            if got != "|".join(exp_slots):
                chk.disagreement("scratch dosage vectors != model (set_allelic_dosage / set_parental_copies)",
                                 {**case, "impl_slots": got, "model_slots": a_slots})
            totals.setdefault(i, [0.0, case])[0] += impl
        # ---------------- validity
        if isinstance(impl, str):
            continue
        prog_arr = np.array(order, dtype=np.int64)
        pa = par_p[:pp] if pp else None
        qa = par_q[:pq] if pq else None
        valid = None
        if pa is not None and qa is not None:
            if tp == 0:
                validation.increment_dosage = guarded_increment
                before = oob["n"]
                try:
                    valid = call(validation.trio_valid.py_func, prog_arr, pa, qa, tp, tq, lp, lq)
                finally:
                    validation.increment_dosage = orig_inc
                if oob["n"] > before:
                    chk.violation("trio_valid calls increment_dosage on the all-zero gamete of a clonal edge (tau_p = 0): the jitted "
                                  "code reads and writes outside the array", case, "C17/trio_valid/clonal-zero-gamete")
            else:
                valid = call(validation.trio_valid, prog_arr, pa, qa, tp, tq, lp, lq)
            mv = a_valid.split()
            tag = "err" if isinstance(valid, str) else ("true" if valid else "false")
            if tag != mv[0]:
                chk.disagreement("trio_valid != model", {**case, "impl_valid": tag, "model_valid": a_valid})
            if mv[0] != "err" and mv[0] != mv[1]:
                chk.disagreement("model: trioValid (literal enumerator) != trioValidSpec", {**case, "model_valid": a_valid})
        elif pa is not None or qa is not None:
            par, tau, lam = (pa, tp, lp) if pa is not None else (qa, tq, lq)
            valid = call(validation.duo_valid, prog_arr, par, tau, lam)
            chk.count("duo_valid")
        if valid is None or isinstance(valid, str):
            continue
        zero_err = (ep == 0.0 or pp == 0) and (eq == 0.0 or pq == 0)
        if zero_err and (pp and pq or (freqs > 0).all()):
            chk.count("zero-iff-invalid")
            lam_one = (pp and tp == 2 and lp == 1.0) or (pq and tq == 2 and lq == 1.0)
            if lam_one:
                chk.count("zero-iff-invalid:lambda=1")
            # independent statement of "possible": a split into two gametes the parents can produce
            possible = W.spec_positive(list(order), [int(x) for x in pa] if pa is not None else None,
                                       [int(x) for x in qa] if qa is not None else None, tp, tq, lp, lq)
            if possible is not None and (impl > 0) != possible:
                chk.disagreement("zero-error trio_log_pmf is positive although no pair of possible gametes gives the progeny, or vice versa",
                                 {**case, "possible_by_definition": possible})
            if (impl > 0) != bool(valid):
                if lam_one and bool(valid) and not (impl > 0):
                    # candidate defect: the validity test widens the constraint for lambda > 0 but keeps the
                    # no-double-reduction gametes, which have probability (1 - lambda) = 0 at lambda = 1
                    chk.violation("lambda = 1 (fully homozygous diploid gametes), zero parent error: the inheritance probability is zero "
                                  "but the validity test that defines PEDERR passes", {**case, "valid": True}, "C17/trio_valid/lambda-one")
                else:
                    chk.violation("with zero parent error the inheritance probability is positive but the validity test fails, or vice versa",
                                  {**case, "valid": bool(valid)}, "C17/valid/positive-iff")
    for i, (tot, case) in totals.items():
        if not (abs(tot - 1.0) <= 1e-9):     # a NaN total is a failure too
            chk.violation("trio probabilities do not sum to one over all unordered progeny genotypes", {**case, "sum": tot}, "C17/trio/sum")
    chk.extra["sum_to_one_groups"] = len(totals)

    # duo_valid vs model
    lines, meta = [], []
    for i in range({"warm": 3, "quick": 200, "thorough": 2000}[tier]):
        n = r.choice([1, 2, 3, 4]); ploidy = r.choice([2, 4, 6]); pl = r.choice([2, 4, 6])
        prog = sorted(r.randrange(n) for _ in range(ploidy))
        par = gen_parent(r, n, pl, pl)
        tau = r.choice([0, 1, 2, 2, 3])
        lam = r.choice(LAMBDAS) if (tau == 2 or r.random() < 0.1) else 0.0
        lines.append(" ".join(["ped.valid.duo"] + vtoks(counts(prog, n)) + vtoks(counts(par, n)) + [str(tau), C.rat_str(lam)]))
        meta.append((prog, par, tau, lam))
    for (prog, par, tau, lam), a, line in zip(meta, drv.ask(lines), lines):
        v = call(validation.duo_valid, np.array(prog, dtype=np.int64), par, tau, lam)
        tag = "err" if isinstance(v, str) else ("true" if v else "false")
        chk.count("duo_valid"); chk.case(line, len(set(prog)) < len(prog))
        if tag != a:
            chk.disagreement("duo_valid != model", {"progeny": prog, "parent": par.tolist(), "tau": tau, "lambda": lam, "impl": tag, "model": a})
    # ------------------------------------------------------------------ PEDERR: _trace_incongruence on stacked states
    def run_pederr(S, trace, n, burn, where, extra):
        """compare PedigreeAllelesMultiTrace.incongruence with the fraction of zero-probability observations"""
        T = classes.PedigreeAllelesMultiTrace(trace, n_allele=n)
        if burn:
            T = T.burn(burn)
        case = {"where": where, "ploidy": S["ploidy"].tolist(), "parents": S["parents"].tolist(), "tau": S["tau"].tolist(),
                "lambda": S["lam"].tolist(), "n_alleles": n, "burn": burn, "trace": trace.tolist(), **extra}
        try:
            inc = T.incongruence(sample_ploidy=S["ploidy"], sample_parents=S["parents"], gamete_tau=S["tau"], gamete_lambda=S["lam"])
            inc = [float(x) for x in inc]
        except Exception as e:   # noqa: BLE001
            chk.violation("PedigreeAllelesMultiTrace.incongruence raises on a well-formed pedigree trace: %r" % (e,), case, "C17/pederr/raises")
            return None
        zero, bad, mism = W.pederr_expectations(prior, S, trace[:, burn:], n)
        for mm in mism:
            if "raised" in mm:
                chk.violation("trio_log_pmf raises on a well-formed trio of a pedigree trace (zero parent error, flat frequencies, scratch "
                              "arrays reused between calls): " + mm["raised"], {**case, **mm}, "C17/trio/raises")
                continue
            chk.disagreement("zero-error trio_log_pmf is positive although no pair of possible gametes gives the progeny, or vice versa",
                             {**case, **mm})
        for i in range(S["N"]):
            p_, q_ = int(S["parents"][i, 0]), int(S["parents"][i, 1])
            shape = "founder" if (p_ < 0 and q_ < 0) else "duo-p" if q_ < 0 else "duo-q" if p_ < 0 else "selfed" if p_ == q_ else "trio"
            chk.count("pederr:" + shape)
            if int(S["ploidy"][i]) != int(S["ploidy"].max()):
                chk.count("pederr:padded-row")
            if 0.0 < zero[i] < 1.0:
                chk.count("pederr:fraction-strictly-between-0-and-1")
            if not (abs(inc[i] - zero[i]) <= 1e-12):
                one = W.edge_lambda_one(S, i)
                sig = "C17/trio_valid/lambda-one" if (one and inc[i] < zero[i]) else "C17/pederr/fraction"
                chk.violation("PEDERR (fraction of observations failing the validity test) differs from the fraction of observations "
                              "with zero inheritance probability under zero parent error" + (" (lambda = 1 edge)" if one else ""),
                              {**case, "individual": i, "incongruence": inc[i], "fraction_zero_probability": float(zero[i]),
                               "fraction_impossible_by_definition": float(bad[i])}, sig)
        return inc

    rp = C.rng(PROP + ":pederr")
    for i in range({"warm": 2, "quick": 120, "thorough": 1200}[tier]):
        S0 = W.gen_structure(rp, uniform=rp.random() < 0.2)
        n = rp.choice([2, 2, 3, 3, 4])
        chains, steps = rp.choice([1, 2, 3]), rp.choice([1, 3, 5, 8])
        tr0 = W.build_trace(rp, S0, n, chains, steps, sort=rp.random() < 0.7)
        S, inv, _ = W.permute_structure(rp, S0)
        trace = np.ascontiguousarray(tr0[:, :, inv, :])
        burn = rp.choice([0, 0, 1, 2]) if steps > 2 else 0
        key = {"ploidy": S["ploidy"].tolist(), "parents": S["parents"].tolist(), "tau": S["tau"].tolist(), "lambda": S["lam"].tolist(),
               "trace": trace.tolist(), "burn": burn}
        chk.case(["pederr", key], bool((S["parents"] >= 0).any()) and n >= 2)
        chk.count("pederr:pedigrees"); chk.count("pederr:chains=%d" % chains)
        if (S["ploidy"] % 2 == 1).any():
            chk.count("pederr:odd-ploidy-member")
        if (S["tau"][:, 0] != S["tau"][:, 1]).any():
            chk.count("pederr:unbalanced-tau")
        if any((S["parents"][k] > k).any() for k in range(S["N"])):
            chk.count("pederr:parent-index-above-child")
        run_pederr(S, trace, n, burn, "PedigreeAllelesMultiTrace.incongruence", {})

    # ------------------------------------------------------------------ call-pedigree glue: files -> dicts -> sampler arrays -> PEDERR
    import shutil
    import tempfile
    import warnings
    rc = C.rng(PROP + ":cli")
    tmp = tempfile.mkdtemp(prefix="verif_c17_")
    try:
        with warnings.catch_warnings():                # mchap.application.baseclass turns RuntimeWarning into an error at import
            from mchap.application import arguments as ARGS, call_pedigree as CP
            from mchap.io.loci import LocusPrior, SNP
            import mchap.io.vcf.formatfields as FORMAT
            warnings.simplefilter("error", RuntimeWarning)       # as in the running program
            for i in range({"warm": 2, "quick": 60, "thorough": 600}[tier]):
                cli_case(chk, rc, tmp, "c%d" % i, ARGS, CP, LocusPrior, SNP, FORMAT, classes, run_pederr)
    finally:
        shutil.rmtree(tmp, ignore_errors=True)
    fit_hands_over_parameters(chk, C.rng(PROP + ":fit"), {"warm": 2, "quick": 25, "thorough": 250}[tier])
    return chk.finish()


def fit_hands_over_parameters(chk, r, n):
    """the inheritance model the sampler runs with is the one given: PedigreeCallingMCMC.fit hands tau / lambda / error (exact zeros and
    ones included - with error 0 an invalid trio has probability exactly 0) and the parent table to `mcmc_sampler` unchanged"""
    import inspect
    from mchap.pedigree import classes as pcls
    gm = pcls.PedigreeCallingMCMC.fit.__globals__
    orig = gm["mcmc_sampler"]
    sig = inspect.signature(orig.py_func)
    for it in range(n):
        N = r.randint(2, 5)
        ploidy = np.array([r.choice([2, 4]) for _ in range(N)], dtype=np.int64)
        parents = np.full((N, 2), -1, dtype=np.int64)
        for i in range(1, N):
            for j in range(2):
                if r.random() < 0.7:
                    parents[i, j] = r.randrange(i)
        tau = np.array([[p // 2, p - p // 2] for p in ploidy], dtype=np.int64)
        lam = np.array([[r.choice([0.0, 0.1, 0.25]) if tau[i, j] == 2 else 0.0 for j in range(2)] for i in range(N)])
        err = np.array([[r.choice([0.0, 0.0, 1e-12, 1e-6, 0.01, 0.5, 1.0]) for _ in range(2)] for _ in range(N)])
        n_h, nb = r.randint(2, 4), 2
        haps = np.array([[(h >> b) & 1 for b in range(nb)] for h in range(n_h)], dtype=np.int8)
        mp = int(ploidy.max())
        reads = np.full((N, 2, nb, 2), np.nan); counts = np.zeros((N, 2), dtype=np.int64)
        init = np.full((N, mp), -1, dtype=np.int16)
        for i in range(N):
            init[i, :ploidy[i]] = sorted(r.randrange(n_h) for _ in range(ploidy[i]))
        calls = []

        def rec(*a, **kw):
            d = dict(sig.bind(*a, **kw).arguments)
            calls.append(d)
            return np.zeros((int(d["n_steps"]), N, mp), dtype=np.int16)
        gm["mcmc_sampler"] = rec
        try:
            model = pcls.PedigreeCallingMCMC(sample_ploidy=ploidy, sample_inbreeding=np.zeros(N), sample_parents=parents, gamete_tau=tau,
                                             gamete_lambda=lam, gamete_error=err, haplotypes=haps, steps=4, annealing=1, chains=2, random_seed=1)
            model.fit(reads, counts, initial=init)
        finally:
            gm["mcmc_sampler"] = orig
        chk.count("fit-parameters"); chk.count("fit-parameters:error-with-exact-zero" if (err == 0).any() else "fit-parameters:error-positive")
        chk.case(("fit-parameters", it), bool((err == 0).any()))
        for d in calls:
            for name, v in (("gamete_error", err), ("gamete_lambda", lam), ("gamete_tau", tau), ("sample_parents", parents), ("sample_ploidy", ploidy)):
                w = d.get(name)
                if w is None or np.shape(w) != np.shape(v) or not np.array_equal(np.asarray(w), np.asarray(v)):
                    chk.violation(f"PedigreeCallingMCMC.fit runs the sampler with a {name} that is not the one it was given",
                                  {"given": np.asarray(v).tolist(), "handed_to_the_sampler": None if w is None else np.asarray(w).tolist()},
                                  "C17/fit/parameters")
                    break
