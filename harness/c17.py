"""C17 — the pedigree inheritance model is a proper probability distribution; zero iff invalid.

Correspondence (model `lean/MCHap/Model/Pedigree.lean`, exe `driver_ped`):
`trio_log_pmf` (jitted and `.py_func`) over completely enumerated progeny genotypes, evaluated by the
model both on allele-count vectors and on the slot vectors the code itself builds
(`set_allelic_dosage` / `set_parental_copies`, read back from the scratch arrays);
`gamete_log_pmf` over enumerated gametes; `set_initial_dosage` / `increment_dosage` sequences;
`trio_valid`, `duo_valid`.
Implementation oracles: sum of exp(trio_log_pmf) over all unordered progeny = 1; sum of the gamete pmf
over all gametes = 1; the enumerator visits every vector under the constraint exactly once in
strictly decreasing lexicographic order; with zero error `pmf > 0 <=> trio_valid / duo_valid`;
`increment_dosage` is never called outside its contract (all-zero vector) by `trio_valid`.
"""
from __future__ import annotations

import itertools
import math
from fractions import Fraction

import numpy as np

from . import common as C

PROP = "C17"
MODULE = "MCHap.Properties.C17"
EXE = "driver_ped"
THEOREMS = [
    "MCHap.C17.compositions_nodup",
    "MCHap.C17.mem_compositions_iff",
    "MCHap.C17.hyper_sum_one",
    "MCHap.C17.gamete_sum_one",
    "MCHap.C17.gameteSpec_nonneg",
    "MCHap.C17.unknown_sum_one",
    "MCHap.C17.mixture_sum_one",
    "MCHap.C17.sum_regroup",
    "MCHap.C17.trio_sum_one",
    "MCHap.C17.increment_decreasing",
    "MCHap.C17.enumerator_sound",
    "MCHap.C17.gameteSpec_pos_iff",
    "MCHap.C17.positive_iff_valid",
    "MCHap.C17.duo_positive_iff_valid",
    "MCHap.C17.enumerator_complete_small",
    "MCHap.C17.increment_is_predecessor",
    "MCHap.C17.stuck_is_minimum",
    "MCHap.C17.enumerator_complete",
    "MCHap.C17.enumerator_perm_spec",
    "MCHap.C17.trioValid_eq_spec",
    "MCHap.C17.positive_iff_trioValid",
    "MCHap.C17.multinomial_convolution",
    "MCHap.C17.gameteCode_eq_spec",
    "MCHap.C17.support_under_constraint",
    "MCHap.C17.trioCode_eq_spec",
    "MCHap.C17.trioCode_sum_one",
    "MCHap.C17.trioCode_positive_iff_trioValid",
    "MCHap.C17.trioPmf_swap",
    "MCHap.C17.duo_positive_iff_valid_q",
]
RULE = ("cases: every unordered progeny genotype of (n_alleles 1..4) x (ploidy_p, ploidy_q, tau_p, tau_q) in balanced / mixed-ploidy / "
        "unbalanced / clonal (tau = 0) / unknown-parent configurations x lambda {0, .1, .5} (tau = 2) x errors {0, .01, .5, 1} x "
        "frequencies {flat, skewed, with zeros}, parents drawn with an excess of repeated alleles; enumerated gametes; random "
        "constraint vectors for the enumerator. Non-trivial: >= 2 alleles and a progeny / gamete with a repeated allele or a "
        "parent with a repeated allele. Distinct by canonical request line.")

# (ploidy_p, ploidy_q, tau_p, tau_q); ploidy 0 = unknown parent
CONFIGS = [
    (2, 2, 1, 1), (4, 4, 2, 2), (6, 6, 3, 3), (2, 4, 1, 2), (4, 2, 2, 1), (4, 6, 2, 3),
    (4, 4, 1, 3), (4, 4, 3, 1), (2, 4, 1, 3), (4, 2, 3, 1), (2, 4, 1, 1), (6, 4, 1, 2), (4, 6, 2, 4),
    (4, 4, 2, 0), (4, 4, 0, 2), (2, 2, 0, 2), (4, 2, 4, 0), (2, 4, 0, 4), (2, 2, 2, 0),
    (0, 0, 1, 1), (0, 0, 2, 2), (0, 4, 2, 2), (4, 0, 2, 2), (0, 2, 1, 1), (2, 0, 1, 3), (0, 4, 0, 2), (0, 0, 2, 0),
    (0, 6, 3, 3), (4, 0, 1, 2),
]
ERRORS = [0.0, 0.01, 0.5, 1.0]
LAMBDAS = [0.0, 0.1, 0.5]


def counts(alleles, n):
    out = [0] * n
    for a in alleles:
        if a >= 0:
            out[int(a)] += 1
    return out


def vtoks(v):
    return [str(len(v))] + [str(int(x)) for x in v]


def rtoks(v):
    return [str(len(v))] + [C.rat_str(x) for x in v]


def gen_freqs(r, n):
    kind = r.choice(["flat", "skew", "skew", "zeros"])
    if kind == "flat" or n == 1:
        return "flat", np.full(n, 1.0 / n)
    v = np.array([r.random() + 0.05 for _ in range(n)])
    if kind == "zeros":
        for i in r.sample(range(n), r.randint(1, n - 1)):
            v[i] = 0.0
    return kind, v / v.sum()


def gen_parent(r, n, ploidy, max_ploidy):
    if ploidy == 0:
        g = [r.randrange(n) for _ in range(max_ploidy)]          # content must be irrelevant
        return np.array(g, dtype=np.int64)
    pool = [r.randrange(n) for _ in range(r.randint(1, max(1, ploidy - 1)))] if r.random() < 0.6 else list(range(n))
    g = sorted(r.choice(pool) for _ in range(ploidy))
    if r.random() < 0.3:
        r.shuffle(g)
    return np.array(g + [-2] * (max_ploidy - ploidy), dtype=np.int64)


def scratch(m):
    z = lambda: np.zeros(m, dtype=np.int64)
    return dict(dosage=z(), dosage_p=z(), dosage_q=z(), gamete_p=z(), gamete_q=z(), constraint_p=z(), constraint_q=z(),
                dosage_log_frequencies=np.zeros(m, dtype=np.float64))


def call(f, *a, **k):
    """value or an error tag"""
    try:
        return f(*a, **k)
    except ValueError:
        return "err"
    except (AssertionError, ZeroDivisionError, IndexError):
        return "err"


def prob(x):
    if isinstance(x, str):
        return x
    x = float(x)
    return math.nan if math.isnan(x) else math.exp(x)


def same(impl, model):
    if isinstance(impl, str) or isinstance(model, str):
        return impl == model
    return C.close(impl, model, rel=1e-9, abs_=1e-13)


def bounded(c, tau):
    """all vectors <= c with sum tau, in decreasing lexicographic order (independent of the code)"""
    out = [v for v in itertools.product(*[range(x, -1, -1) for x in c]) if sum(v) == tau]
    return out


def trio_line(op, d, dp, dq, pp, pq, tp, tq, lp, lq, ep, eq, fs, extra=()):
    return " ".join([op] + vtoks(d) + vtoks(dp) + vtoks(dq) + [str(pp), str(pq), str(tp), str(tq), C.rat_str(lp), C.rat_str(lq),
                     C.rat_str(ep), C.rat_str(eq)] + rtoks(fs) + [str(x) for x in extra])


def run(tier, replay=None):
    from mchap.pedigree import prior, validation

    chk = C.Check(PROP, tier, MODULE, THEOREMS, RULE, exe=EXE, assumptions=[
        "float64 log-space evaluation (log, exp, lgamma, log1p) is compared at rel 1e-9, sums at 1e-9 absolute; not proved",
        "frequency vectors are float64 and sum to one only up to rounding; the theorems are for exact sums",
        "an unknown parent is passed as ploidy 0 with error 1.0, as every caller in mchap does (trio_log_pmf itself does not force it)",
        "trioCode_eq_spec (model of trio_log_pmf = sum over all gamete pairs) holds under TrioWF: equal vector lengths, progeny total "
        "tau_p + tau_q, unknown parent passed with error 1.0 (as every caller in mchap does), errors <= 1, lambda >= 0 and non-zero only "
        "for tau = 2; the driver still evaluates both forms in exact rationals on every case",
        "the equality of the evaluation on allele-count vectors and on first-occurrence slot vectors is tested, not proved",
    ])
    chk.prove()
    drv = C.Driver(EXE)
    r = C.rng(PROP)

    n_trio = {"warm": 4, "quick": 700, "thorough": 5000}[tier]
    n_gam = {"warm": 3, "quick": 400, "thorough": 3000}[tier]
    n_enum = {"warm": 5, "quick": 1000, "thorough": 8000}[tier]

    # ------------------------------------------------------------------ enumerator
    lines, meta = [], []
    for i in range(n_enum):
        m = r.choice([1, 2, 3, 3, 4, 4, 5, 6])
        c = [r.choice([0, 1, 1, 2, 2, 3, 4]) for _ in range(m)]
        tot = sum(c)
        boundary = r.random() < 0.12
        tau = tot + 1 if boundary else r.randint(1, max(1, tot)) if tot else 1
        lines.append(" ".join(["ped.enum", str(tau)] + vtoks(c)))
        meta.append((c, tau))
    ans = drv.ask(lines)
    for (c, tau), a, line in zip(meta, ans, lines):
        carr = np.array(c, dtype=np.int64)
        g = np.zeros(len(c), dtype=np.int64)
        chk.count("enum:len=%d" % len(c))
        seq = None
        try:
            prior.set_initial_dosage(tau, carr, g)
            seq = [tuple(int(x) for x in g)]
            bound = 1
            for x in c:
                bound *= x + 1
            for _ in range(bound + 1):
                if g.sum() == 0:                      # outside the contract of increment_dosage (never for tau >= 1)
                    break
                try:
                    prior.increment_dosage(g, carr)
                except ValueError:
                    break
                seq.append(tuple(int(x) for x in g))
        except ValueError:
            seq = None
        impl = "err" if seq is None else "|".join(" ".join(map(str, v)) for v in seq)
        nontriv = seq is not None and len(seq) >= 3
        chk.case(line, nontriv, sample={"request": line, "impl": impl[:200], "model": a[:200]})
        case = {"constraint": c, "tau": tau, "impl": impl[:400], "model": a[:400]}
        if impl != a:
            chk.disagreement("set_initial_dosage / increment_dosage sequence != model", case)
        # oracle: exactly the bounded compositions, strictly decreasing
        exp = bounded(c, tau)
        if seq is None:
            if exp:
                chk.violation("set_initial_dosage raises although a gamete fits the constraint", case, "C17/enum/initial")
        else:
            if seq != exp:
                what = "gamete enumerator repeats or skips a vector" if sorted(seq) != sorted(exp) or len(set(seq)) != len(seq) \
                    else "gamete enumerator is not in decreasing lexicographic order"
                chk.violation(what, {**case, "expected": exp[:50]}, "C17/enum/complete")

    # ------------------------------------------------------------------ gamete pmf
    lines, meta = [], []
    for i in range(n_gam):
        n = r.choice([1, 2, 3, 3, 4, 4])
        ploidy = r.choice([2, 4, 4, 6])
        tau = r.choice([t for t in (1, 2, 2, 3) if t <= ploidy])
        lam = r.choice(LAMBDAS) if tau == 2 else (r.choice([0.0, 0.0, 0.0, 0.1]))
        parent = gen_parent(r, n, ploidy, ploidy)
        dp = counts(parent, n)
        for g in itertools.combinations_with_replacement(range(n), tau):
            gv = counts(g, n)
            lines.append(" ".join(["ped.gamete"] + vtoks(gv) + [str(tau)] + vtoks(dp) + [str(ploidy), C.rat_str(lam)]))
            meta.append((i, n, ploidy, tau, lam, dp, gv))
    ans = drv.ask(lines)
    sums = {}
    for (i, n, ploidy, tau, lam, dp, gv), a, line in zip(meta, ans, lines):
        args = (np.array(gv, dtype=np.int64), tau, np.array(dp, dtype=np.int64), ploidy, lam)
        impl = prob(call(prior.gamete_log_pmf, *args))
        model = a if a == "err" else float(C.parse_rat(a.split()[0]))
        chk.count("gamete:tau=%d" % tau); chk.count("gamete:lam=%s" % lam)
        chk.case(line, n >= 2 and (max(gv) >= 2 or max(dp) >= 2), sample={"request": line, "impl": impl, "model": a})
        case = {"gamete": gv, "tau": tau, "parent": dp, "ploidy": ploidy, "lambda": lam, "impl": impl, "model": a}
        if not same(impl, model):
            chk.disagreement("gamete_log_pmf != model", case)
        if a != "err" and a.split()[0] != a.split()[1]:
            chk.disagreement("model: gametePmf (code form) != gameteSpec", case)
        if not isinstance(impl, str):
            sums.setdefault(i, [0.0, case])[0] += impl
    for i, (tot, case) in sums.items():
        if not (abs(tot - 1.0) <= 1e-9):     # a NaN total is a failure too
            chk.violation("gamete probabilities do not sum to one over all gametes", {**case, "sum": tot}, "C17/gamete/sum")

    # ------------------------------------------------------------------ trio pmf, validity
    oob = {"n": 0}
    orig_inc = validation.increment_dosage

    def guarded_increment(dosage, constraint):
        if dosage.sum() == 0:
            oob["n"] += 1
            raise IndexError("increment_dosage called with an all-zero dosage")
        return orig_inc(dosage, constraint)

    lines, meta = [], []
    for i in range(n_trio):
        n = r.choice([1, 2, 2, 3, 3, 3, 4, 4])
        pp, pq, tp, tq = CONFIGS[i % len(CONFIGS)] if i < 2 * len(CONFIGS) else r.choice(CONFIGS)
        if tier != "thorough" and n == 4 and tp + tq >= 6 and r.random() < 0.5:
            n = 3
        m = max(pp, pq, tp + tq, 2)
        par_p = gen_parent(r, n, pp, m)
        par_q = gen_parent(r, n, pq, m)
        malformed = r.random() < 0.06
        lp = r.choice(LAMBDAS) if (tp == 2 or malformed) else 0.0
        lq = r.choice(LAMBDAS) if (tq == 2 or malformed) else 0.0
        ep = 1.0 if pp == 0 else r.choice(ERRORS)
        eq = 1.0 if pq == 0 else r.choice(ERRORS)
        if r.random() < 0.35:
            ep = 1.0 if pp == 0 else 0.0
            eq = 1.0 if pq == 0 else 0.0
        kind, freqs = gen_freqs(r, n)
        with np.errstate(divide="ignore"):
            logf = np.log(freqs)
        use_py = (i % 9 == 0)
        for prog in itertools.combinations_with_replacement(range(n), tp + tq):
            meta.append((i, n, pp, pq, tp, tq, par_p, par_q, lp, lq, ep, eq, kind, freqs, logf, use_py, prog, m))
    # run the implementation first (the slot vectors are read back from its scratch arrays)
    results = []
    for (i, n, pp, pq, tp, tq, par_p, par_q, lp, lq, ep, eq, kind, freqs, logf, use_py, prog, m) in meta:
        parr = np.array(list(prog) + [-2] * (m - len(prog)), dtype=np.int64)
        sc = scratch(m)
        v = call(prior.trio_log_pmf, parr, par_p, par_q, pp, pq, tp, tq, lp, lq, ep, eq, logf, **sc)
        vpy = None
        if use_py:
            vpy = call(prior.trio_log_pmf.py_func, parr, par_p, par_q, pp, pq, tp, tq, lp, lq, ep, eq, logf, **scratch(m))
        d = counts(prog, n)
        dpv = counts(par_p, n) if pp else [0] * n
        dqv = counts(par_q, n) if pq else [0] * n
        lines.append(trio_line("ped.trio", d, dpv, dqv, pp, pq, tp, tq, lp, lq, ep, eq, freqs))
        # slot form: what the code itself built
        fslots = [float(freqs[a]) if a >= 0 else 0.0 for a in parr]
        lines.append(trio_line("ped.trio", sc["dosage"], sc["dosage_p"], sc["dosage_q"], pp, pq, tp, tq, lp, lq, ep, eq, fslots))
        lines.append(" ".join(["ped.slots"] + vtoks(parr) + vtoks(par_p) + vtoks(par_q)))
        lines.append(" ".join(["ped.valid.trio"] + vtoks(d) + vtoks(counts(par_p, n)) + vtoks(counts(par_q, n))
                              + [str(tp), str(tq), C.rat_str(lp), C.rat_str(lq)]))
        results.append((v, vpy, sc, parr))
    ans = drv.ask(lines)

    totals = {}
    for j, (mt, (v, vpy, sc, parr)) in enumerate(zip(meta, results)):
        (i, n, pp, pq, tp, tq, par_p, par_q, lp, lq, ep, eq, kind, freqs, logf, use_py, prog, m) = mt
        a_cnt, a_slot, a_slots, a_valid = ans[4 * j: 4 * j + 4]
        impl = prob(v)
        cfg = "cfg=%d,%d,%d,%d" % (pp, pq, tp, tq)
        chk.count(cfg); chk.count("freq=" + kind); chk.count("n_alleles=%d" % n)
        chk.count("err=%s,%s" % (ep, eq)); chk.count("lam=%s,%s" % (lp, lq))
        nontriv = n >= 2 and (len(set(prog)) < len(prog) or max(counts(par_p, n) + counts(par_q, n)) >= 2)
        chk.case(lines[4 * j], nontriv, sample={"request": lines[4 * j], "impl": impl, "model": a_cnt})
        case = {"progeny": list(prog), "parent_p": par_p.tolist(), "parent_q": par_q.tolist(), "ploidy_p": pp, "ploidy_q": pq,
                "tau": [tp, tq], "lambda": [lp, lq], "error": [ep, eq], "frequencies": freqs.tolist(), "impl": impl, "model": a_cnt}
        mc = a_cnt if a_cnt == "err" else float(C.parse_rat(a_cnt.split()[0]))
        ms = a_slot if a_slot == "err" else float(C.parse_rat(a_slot.split()[0]))
        if not same(impl, mc):
            chk.disagreement("trio_log_pmf != model on allele-count vectors", case)
        if not same(impl, ms):
            chk.disagreement("trio_log_pmf != model on the code's own slot vectors", {**case, "model_slots": a_slot})
        if vpy is not None and not same(prob(vpy), impl):
            chk.disagreement("trio_log_pmf jitted != py_func", {**case, "py": prob(vpy)})
        if a_cnt != "err" and a_cnt.split()[0] != a_cnt.split()[1]:
            chk.disagreement("model: trioPmfCode (four branches + literal enumerator) != trioPmf (sum over all gamete pairs)",
                             {**case, "model": a_cnt})
        if not isinstance(impl, str):
            got = "|".join(" ".join(str(int(x)) for x in sc[k]) for k in ("dosage", "dosage_p", "dosage_q"))
            exp_slots = a_slots.split("|")
            if pp == 0:
                exp_slots[1] = " ".join(["0"] * m)
            if pq == 0:
                exp_slots[2] = " ".join(["0"] * m)
            if got != "|".join(exp_slots):
                chk.disagreement("scratch dosage vectors != model (set_allelic_dosage / set_parental_copies)",
                                 {**case, "impl_slots": got, "model_slots": a_slots})
            totals.setdefault(i, [0.0, case])[0] += impl
        # ---------------- validity
        if isinstance(impl, str):
            continue
        prog_arr = np.array(prog, dtype=np.int64)
        pa = par_p[:pp] if pp else None
        qa = par_q[:pq] if pq else None
        valid = None
        if pa is not None and qa is not None:
            if tp == 0:
                validation.increment_dosage = guarded_increment
                before = oob["n"]
                try:
                    valid = call(validation.trio_valid.py_func, prog_arr, pa, qa, tp, tq, lp, lq)
                finally:
                    validation.increment_dosage = orig_inc
                if oob["n"] > before:
                    chk.violation("trio_valid calls increment_dosage on the all-zero gamete of a clonal edge (tau_p = 0): the jitted "
                                  "code reads and writes outside the array", case, "C17/trio_valid/clonal-zero-gamete")
            else:
                valid = call(validation.trio_valid, prog_arr, pa, qa, tp, tq, lp, lq)
            mv = a_valid.split()
            tag = "err" if isinstance(valid, str) else ("true" if valid else "false")
            if tag != mv[0]:
                chk.disagreement("trio_valid != model", {**case, "impl_valid": tag, "model_valid": a_valid})
            if mv[0] != "err" and mv[0] != mv[1]:
                chk.disagreement("model: trioValid (literal enumerator) != trioValidSpec", {**case, "model_valid": a_valid})
        elif pa is not None or qa is not None:
            par, tau, lam = (pa, tp, lp) if pa is not None else (qa, tq, lq)
            valid = call(validation.duo_valid, prog_arr, par, tau, lam)
            chk.count("duo_valid")
        if valid is None or isinstance(valid, str):
            continue
        zero_err = (ep == 0.0 or pp == 0) and (eq == 0.0 or pq == 0)
        if zero_err and (pp and pq or (freqs > 0).all()):
            chk.count("zero-iff-invalid")
            if (impl > 0) != bool(valid):
                chk.violation("with zero parent error the inheritance probability is positive but the validity test fails, or vice versa",
                              {**case, "valid": bool(valid)}, "C17/valid/positive-iff")
    for i, (tot, case) in totals.items():
        if not (abs(tot - 1.0) <= 1e-9):     # a NaN total is a failure too
            chk.violation("trio probabilities do not sum to one over all unordered progeny genotypes", {**case, "sum": tot}, "C17/trio/sum")
    chk.extra["sum_to_one_groups"] = len(totals)

    # duo_valid vs model
    lines, meta = [], []
    for i in range({"warm": 3, "quick": 200, "thorough": 2000}[tier]):
        n = r.choice([1, 2, 3, 4]); ploidy = r.choice([2, 4, 6]); pl = r.choice([2, 4, 6])
        prog = sorted(r.randrange(n) for _ in range(ploidy))
        par = gen_parent(r, n, pl, pl)
        tau = r.choice([0, 1, 2, 2, 3])
        lam = r.choice(LAMBDAS) if (tau == 2 or r.random() < 0.1) else 0.0
        lines.append(" ".join(["ped.valid.duo"] + vtoks(counts(prog, n)) + vtoks(counts(par, n)) + [str(tau), C.rat_str(lam)]))
        meta.append((prog, par, tau, lam))
    for (prog, par, tau, lam), a, line in zip(meta, drv.ask(lines), lines):
        v = call(validation.duo_valid, np.array(prog, dtype=np.int64), par, tau, lam)
        tag = "err" if isinstance(v, str) else ("true" if v else "false")
        chk.count("duo_valid"); chk.case(line, len(set(prog)) < len(prog))
        if tag != a:
            chk.disagreement("duo_valid != model", {"progeny": prog, "parent": par.tolist(), "tau": tau, "lambda": lam, "impl": tag, "model": a})
    return chk.finish()
