"""C13 — haplotype reporting threshold and unknown-allele semantics in `mchap assemble`.

Correspondence: `call_posterior_haplotypes`, `PosteriorGenotypeDistribution.allele_frequencies`,
`_genotype_as_alleles`, `_genotype_posterior_as_array` and the label / AFP / AOP glue of
`call_sample_genotypes` on generated per-sample posteriors x thresholds vs the Lean model
(`MCHap/Model/HapCalling.lean`, exe `driver_sum`); the same functions observed inside real `mchap assemble`
runs on synthetic data sets (module globals wrapped by recorders), plus the printed ALT / REFMASKED / GT /
AOP / AFP / GP text.

Implementation oracles (Fractions, independent of the model): ALT iff (not reference and occurrence >=
threshold in some sample); reference first and REFMASKED iff it did not meet the criterion; no allele 0 in a GT
of a REFMASKED record; ALT order non-increasing in the dosage summed over the samples in which the haplotype
passed; `.` in GT exactly for excluded haplotypes; sum(AFP) <= 1; GP has the record's G cardinality
(allele count = 1 + #ALT) and sums to <= 1.

Float margins: a threshold within 1e-9 of an occurrence probability without being equal to it is not compared
(counted); equality itself is compared only for dyadic probabilities, where float sums are exact.
"""
from __future__ import annotations

import math
import os
import shutil
import tempfile
from fractions import Fraction

import numpy as np

from . import common as C

PROP = "C13"
MODULE = "MCHap.Properties.C13"
THEOREMS = [
    "MCHap.C13.alt_iff",
    "MCHap.C13.alt_iff_ne_ref",
    "MCHap.C13.ref_first",
    "MCHap.C13.alts_nodup",
    "MCHap.C13.refmasked_iff",
    "MCHap.C13.no_gt_zero_when_masked",
    "MCHap.C13.alts_sorted_by_summed_dosage",
    "MCHap.C13.gt_perm_labels",
    "MCHap.C13.gt_dot_iff_excluded",
    "MCHap.C13.gt_sorted_dots_last",
    "MCHap.C13.label_is_position",
    "MCHap.C13.afp_entry",
    "MCHap.C13.afp_sum_le_one",
    "MCHap.C13.gp_sum_le_one",
    "MCHap.C13.gp_entry_spec",
    "MCHap.C13.gp_spec",
    "MCHap.C13.labelled_iff",
    "MCHap.C13.gp_refmasked_repaired",
]
RULE = ("cases: 1..4 samples (ploidy 1..6) with posteriors over 1..6 distinct genotypes drawn from a pool of 2..6 haplotypes "
        "(0..3 SNVs; the reference haplotype present in ~75 % of the pools), probabilities dyadic (k/64) or general (k/N), x thresholds "
        "{0, 1, 0.2, 0.01, uniform, every distinct occurrence value, occurrence +- 1e-12 (float-margin, counted only)}; per sample "
        "the label map, GT, AFP/AOP and GP; every tenth instance has 11..18 haplotypes over 4..8 samples (two-digit allele numbers); plus the calls "
        "recorded inside `mchap assemble` runs on synthetic data (1 / 2 / 3 / 5 samples, a sample without reads, thresholds 0 / default / 0.2..1.0, "
        "varying --report subsets) where every printed GT / AFP / AOP / GP is compared with what the recorded posteriors imply. Non-trivial: "
        ">= 2 samples or >= 2 non-reference haplotypes, and a threshold that excludes at least one observed haplotype. "
        "Distinct by request line.")

SIG_F3 = "C13/assemble/GP-refmasked"


# --------------------------------------------------------------------------------------
# generation
# --------------------------------------------------------------------------------------

def gen_probs(r, k, dyadic):
    """k positive probabilities summing to one exactly (as Fractions)"""
    den = 64 if dyadic else r.choice([3, 5, 7, 10, 12, 30, 100, 1000])
    den = max(den, k)
    cuts = sorted(r.sample(range(1, den), k - 1)) if k > 1 else []
    parts = [b - a for a, b in zip([0] + cuts, cuts + [den])]
    r.shuffle(parts)
    return [Fraction(p, den) for p in parts]


def gen_instance(r, wide=False):
    """wide: 11..18 haplotypes over 4 SNVs and 4..8 samples, so that allele numbers reach two digits"""
    n_base = r.choice([0, 1, 2, 2, 3, 3]) if not wide else 4
    n_nucl = r.choice([2, 2, 3]) if not wide else 3
    pool = set()
    if r.random() < 0.75 or n_base == 0:
        pool.add(tuple([0] * n_base))
    want = 1 if n_base == 0 else r.randint(2, 6) if not wide else r.randint(11, 18)
    for _ in range(want * 6):
        if len(pool) >= want:
            break
        pool.add(tuple(r.randrange(n_nucl) for _ in range(n_base)))
    pool = sorted(pool)
    r.shuffle(pool)
    dyadic = r.random() < 0.6
    n_samples = r.choice([1, 1, 2, 2, 3, 4]) if not wide else r.randint(4, 8)
    posts = []
    for _ in range(n_samples):
        ploidy = r.choice([1, 2, 2, 3, 4, 4, 6])
        sub = r.sample(pool, r.randint(1, len(pool)) if not wide else r.randint(4, len(pool)))
        gens = set()
        for _ in range(r.randint(1, 6) * 3):
            gens.add(tuple(sorted(r.choice(sub) for _ in range(ploidy))))
            if len(gens) >= 6:
                break
        gens = sorted(gens)
        r.shuffle(gens)
        gens = gens[: r.randint(1, len(gens))]
        probs = gen_probs(r, len(gens), dyadic)
        order = sorted(range(len(gens)), key=lambda i: -probs[i])       # posterior() lists by decreasing probability
        if r.random() < 0.35:
            # the class documents no order of the haplotypes inside a genotype: copies of one haplotype need not be adjacent
            gens = [tuple(r.sample(list(g), len(g))) for g in gens]
        posts.append((ploidy, [gens[i] for i in order], [probs[i] for i in order]))
    return n_base, pool, dyadic, posts


def make_posterior(PGD, ploidy, gens, probs, n_base):
    g = np.array(gens, dtype=np.int8).reshape(len(gens), ploidy, n_base)
    return PGD(g, np.array([float(p) for p in probs], dtype=float))


def post_tokens(ploidy, gens, fprobs):
    toks = [str(len(gens)), str(ploidy)]
    for g, p in zip(gens, fprobs):
        toks.append(C.rat_str(p))
        for h in g:
            toks.extend(str(a) for a in h)
    return toks


def gpa_takes_allele_count(gpa):
    import inspect
    return "n_alleles" in inspect.signature(gpa).parameters


def call_gpa(gpa, posterior, labels, n_alleles):
    """`_genotype_posterior_as_array(posterior, labels, n_alleles=...)`; `n_alleles=None` is the two-argument call
    (a tree whose function has no such parameter is called the old way — the model then disagrees, as it should)"""
    if n_alleles is not None and gpa_takes_allele_count(gpa):
        return gpa(posterior, labels, n_alleles=n_alleles)
    return gpa(posterior, labels)


def hap_str(h):
    return ",".join(str(int(a)) for a in h) if len(h) else "-"


def p_hap(s):
    return () if s == "-" else tuple(int(x) for x in s.split(","))


# --------------------------------------------------------------------------------------
# exact oracles on (gens, float probabilities)
# --------------------------------------------------------------------------------------

def exact_stats(gens, fprobs):
    """hap -> (occurrence, dosage) as exact Fractions of the float probabilities, in first-occurrence order"""
    out = {}
    for g, p in zip(gens, fprobs):
        p = Fraction(p)
        for h in g:
            if h not in out:
                out[h] = [Fraction(0), Fraction(0)]
        for h in set(g):
            out[h][0] += p
            out[h][1] += p * g.count(h)
    return out


def vcf_index(alleles):
    return sum(math.comb(a + i, i + 1) for i, a in enumerate(sorted(alleles)))


# --------------------------------------------------------------------------------------
# one comparison of call_posterior_haplotypes and of everything that follows per sample
# --------------------------------------------------------------------------------------

def check_call(chk, drv, posts_np, posts_py, n_base, thr, dyadic, origin, fns, deep=True):
    """`_check_call`, with an exception of the implementation reported as a violation instead of aborting the check"""
    try:
        return _check_call(chk, drv, posts_np, posts_py, n_base, thr, dyadic, origin, fns, deep)
    except C.Infra:
        raise
    except Exception as e:   # noqa: BLE001
        chk.violation(f"the implementation raised {type(e).__name__} on valid per-sample posteriors",
                      {"origin": origin, "threshold": float(thr), "n_base": n_base, "error": repr(e)[:300],
                       "posteriors": [{"ploidy": p, "genotypes": [[list(h) for h in g] for g in gens], "probabilities": [float(x) for x in pr]}
                                      for p, gens, pr in posts_py]}, "C13/raises")
        return None


def _check_call(chk, drv, posts_np, posts_py, n_base, thr, dyadic, origin, fns, deep=True):
    """posts_np: list of PosteriorGenotypeDistribution; posts_py: [(ploidy, gens(tuples), float probs)]"""
    call_posterior_haplotypes, gaa, gpa, mset = fns
    thr = float(thr)
    case = {"origin": origin, "threshold": thr, "n_base": n_base,
            "posteriors": [{"ploidy": p, "genotypes": [[list(h) for h in g] for g in gens], "probabilities": [float(x) for x in pr]}
                           for p, gens, pr in posts_py]}
    stats = [exact_stats(gens, pr) for _, gens, pr in posts_py]
    T = Fraction(thr)
    margin = False
    for st in stats:
        for h, (occ, _) in st.items():
            if occ != T and abs(float(occ - T)) < 1e-9:
                margin = True
            if occ == T and not dyadic:
                margin = True
    req = " ".join(["hc.call", C.rat_str(thr), str(n_base), str(len(posts_py))]
                   + [t for p, gens, pr in posts_py for t in post_tokens(p, gens, pr)])
    if margin:
        chk.count("float-margin(threshold within 1e-9 of an occurrence; not compared)")
        return None
    ref = tuple([0] * n_base)
    passing = [{h for h, (occ, _) in st.items() if occ >= T} for st in stats]
    exp_alt = {h for ps in passing for h in ps if h != ref}
    exp_ref = any(ref in ps for ps in passing)
    summed = {h: sum((st[h][1] for st, ps in zip(stats, passing) if h in ps), Fraction(0)) for h in exp_alt}
    observed = {h for st in stats for h in st}
    nontrivial = (len(posts_py) >= 2 or len(observed - {ref}) >= 2) and len(exp_alt | ({ref} if exp_ref else set())) < len(observed)
    haps, ref_obs = call_posterior_haplotypes(posts_np, threshold=thr)
    impl_haps = [tuple(int(a) for a in h) for h in haps]
    ans = drv.ask1(req)
    chk.count(f"call:{origin}"); chk.count(f"samples={len(posts_py)}")
    chk.count("thr=0" if thr == 0 else "thr=1" if thr == 1 else "thr=other")
    chk.count("ref-called" if ref_obs else "ref-masked")
    if len(impl_haps) > 10:
        chk.count("two-digit-allele-numbers")
    chk.case(req, nontrivial, sample={"request": req[:300], "impl": str((impl_haps, bool(ref_obs))), "model": ans[:300]})
    # ---- property oracles
    if not impl_haps or impl_haps[0] != ref:
        chk.violation("the reference haplotype is not allele 0", {**case, "impl": str(impl_haps)}, "C13/call_posterior_haplotypes/ref-first")
    if set(impl_haps[1:]) != exp_alt or len(set(impl_haps)) != len(impl_haps):
        chk.violation("ALT is not {h != ref : occurrence(s, h) >= threshold for some sample s}",
                      {**case, "impl": str(impl_haps[1:]), "expected": str(sorted(exp_alt))}, "C13/call_posterior_haplotypes/alt-iff")
    if bool(ref_obs) != exp_ref:
        chk.violation("ref_observed (not REFMASKED) differs from 'the reference met the threshold in some sample'",
                      {**case, "impl": bool(ref_obs), "expected": exp_ref}, "C13/call_posterior_haplotypes/refmasked-iff")
    if set(impl_haps[1:]) == exp_alt:
        vals = [summed[h] for h in impl_haps[1:]]
        for a, b in zip(vals, vals[1:]):
            if float(a) < float(b) - 1e-9 * max(1.0, float(b)):
                chk.violation("ALT alleles are not ordered by decreasing posterior dosage summed over the samples in which they passed",
                              {**case, "impl": str(impl_haps[1:]), "summed_dosage": [str(v) for v in vals]},
                              "C13/call_posterior_haplotypes/order")
                break
    # ---- model
    if ans == "bad-op" or ";" not in ans:
        chk.disagreement("driver answered bad-op for hc.call", {**case, "reply": ans[:200]})
    else:
        body, flag = ans.split(";")
        table = [(p_hap(e.split("=")[0]), C.parse_rat(e.split("=")[1])) for e in body.split()]
        m_haps = [h for h, _ in table]
        m_val = dict(table)
        ok = bool(m_haps) and bool(impl_haps) and m_haps[0] == impl_haps[0] and set(m_haps) == set(impl_haps) \
            and (flag == "1") == bool(ref_obs)
        if ok:
            # the implementation's order must be non-increasing in the model's sort values, ties in any order
            iv = [float(m_val[h]) for h in impl_haps]
            ok = all(a >= b - 1e-9 * max(1.0, abs(b)) for a, b in zip(iv, iv[1:]))
            if any(abs(a - b) <= 1e-9 * max(1.0, abs(b)) for a, b in zip(iv, iv[1:])):
                chk.count("order-tie")
        if not ok:
            chk.disagreement("call_posterior_haplotypes != model callPosteriorHaplotypes (set, reference first, flag, order up to ties)",
                             {**case, "impl": str((impl_haps, bool(ref_obs))), "model": ans})
    if not deep:
        return impl_haps, bool(ref_obs)
    # ---- per sample: labels (glue of call_sample_genotypes), GT, AFP/AOP, GP
    labels = {h.tobytes(): i for i, h in enumerate(haps)}
    if not ref_obs:
        labels.pop(haps[0].tobytes())
    called = set(impl_haps[1:]) | ({ref} if ref_obs else set())
    hap_block = [str(len(impl_haps))] + [str(a) for h in impl_haps for a in h]
    reqs = []
    for (ploidy, gens, pr), pnp in zip(posts_py, posts_np):
        sup = pnp.mode_genotype_support()
        mode_g, _ = sup.mode_genotype()
        mg = [tuple(int(a) for a in h) for h in mode_g]
        reqs.append((" ".join(["hc.sample", "1" if ref_obs else "0", str(n_base)] + hap_block + post_tokens(ploidy, gens, pr)
                              + [str(a) for h in mg for a in h]), mode_g, mg))
    answers = drv.ask([q for q, _, _ in reqs])
    for (ploidy, gens, pr), pnp, (q, mode_g, mg), a in zip(posts_py, posts_np, reqs, answers):
        scase = {**case, "sample_ploidy": ploidy, "mode_genotype": [list(h) for h in mg], "haplotypes": [list(h) for h in impl_haps],
                 "ref_called": bool(ref_obs)}
        chk.case(q, nontrivial)
        sec = a.split(";")
        if a == "bad-op" or len(sec) != 4:
            chk.disagreement("driver answered bad-op for hc.sample", {**scase, "reply": a[:200]})
            continue
        # GT
        gt = [int(x) for x in gaa(mode_g, labels)]
        exp_labels = sorted(impl_haps.index(h) for h in mg if h in called)
        n_dot = sum(1 for h in mg if h not in called)
        if gt != exp_labels + [-1] * n_dot:
            chk.violation("GT is not the sorted allele numbers of the called genotype with '.' exactly for its excluded haplotypes (last)",
                          {**scase, "impl": gt, "expected": exp_labels + [-1] * n_dot}, "C13/_genotype_as_alleles/dot-iff-excluded")
        if not ref_obs and 0 in gt:
            chk.violation("a GT uses allele 0 although the reference is masked", {**scase, "impl": gt}, "C13/_genotype_as_alleles/masked-zero")
        chk.count("GT-with-dot" if n_dot else "GT-complete")
        if " ".join(str(x) for x in gt) != sec[0]:
            chk.disagreement("_genotype_as_alleles != model genotypeAsAlleles", {**scase, "impl": gt, "model": sec[0]})
        # AFP / AOP (the assignment of call_sample_genotypes)
        frequencies = np.zeros(len(haps)); occurrences = np.zeros(len(haps))
        uh, fr, oc = pnp.allele_frequencies()
        idx = mset.categorize(haps, uh)
        frequencies[idx >= 0] = fr[idx[idx >= 0]]
        occurrences[idx >= 0] = oc[idx[idx >= 0]]
        st = exact_stats(gens, pr)
        exp_f = [float(st[h][1] / ploidy) if h in st else 0.0 for h in impl_haps]
        exp_o = [float(st[h][0]) if h in st else 0.0 for h in impl_haps]
        if any(not C.close(x, y) for x, y in zip(frequencies, exp_f)) or any(not C.close(x, y) for x, y in zip(occurrences, exp_o)):
            chk.violation("AFP / AOP of a listed haplotype is not its posterior frequency / occurrence probability in the sample",
                          {**scase, "impl": [frequencies.tolist(), occurrences.tolist()]}, "C13/assemble/AFP-AOP")
        if float(frequencies.sum()) > 1 + 1e-9:
            chk.violation("AFP sums to more than one", {**scase, "impl": frequencies.tolist()}, "C13/assemble/AFP-sum")
        mf = [C.parse_rat(x) for x in sec[1].split()]
        mo = [C.parse_rat(x) for x in sec[2].split()]
        if len(mf) != len(frequencies) or any(not C.close(float(x), float(y)) for x, y in zip(frequencies, mf)) \
                or any(not C.close(float(x), float(y)) for x, y in zip(occurrences, mo)):
            chk.disagreement("AFP/AOP assignment != model afpAop", {**scase, "impl": [frequencies.tolist(), occurrences.tolist()], "model": sec[1] + ";" + sec[2]})
        # GP
        n_alleles = len(impl_haps)
        try:
            gp = call_gpa(gpa, pnp, labels, n_alleles)
            impl_gp = [float(x) for x in gp]
        except IndexError:
            impl_gp = "error"
        size = math.comb(n_alleles + ploidy - 1, ploidy)
        exp_gp = [0.0] * size
        for g, p in zip(gens, pr):
            if all(h in called for h in g):
                exp_gp[vcf_index([impl_haps.index(h) for h in g])] = float(p)
        if impl_gp == "error" or len(impl_gp) != size or any(x != y for x, y in zip(impl_gp, exp_gp)) or sum(impl_gp) > 1 + 1e-9:
            sig = SIG_F3 if (not ref_obs and (impl_gp == "error" or len(impl_gp) != size)) else "C13/_genotype_posterior_as_array/spec"
            chk.violation("GP is not the G-ordered array for the record's allele count (1 + #ALT): "
                          + ("IndexError" if impl_gp == "error" else f"length {len(impl_gp)} instead of {size} or wrong entries"),
                          {**scase, "impl": impl_gp, "expected_length": size}, sig)
        if impl_gp == "error":
            chk.count("GP:IndexError")
            if sec[3] != "error":
                chk.disagreement("_genotype_posterior_as_array raises IndexError, model does not", {**scase, "model": sec[3]})
        else:
            mgp = None if sec[3] == "error" else [C.parse_rat(x) for x in sec[3].split()]
            if mgp is None or len(mgp) != len(impl_gp) or any(float(x) != y for x, y in zip(mgp, impl_gp)):
                chk.disagreement("_genotype_posterior_as_array != model genotypePosteriorAsArray", {**scase, "impl": impl_gp, "model": sec[3]})
    return impl_haps, bool(ref_obs)


def check_labels(chk, drv, r, PGD, gaa, gpa, n_cases):
    """arbitrary label dicts for the two label-driven functions"""
    reqs, meta = [], []
    for _ in range(n_cases):
        n_base, pool, dyadic, posts = gen_instance(r)
        ploidy, gens, probs = posts[0]
        fpr = [float(p) for p in probs]
        sub = r.sample(pool, r.randint(0, len(pool)))
        # allele numbers beyond a signed / unsigned byte too (a locus with hundreds of known haplotypes of which the genotype
        # holds a few): GT must print them as they are and keep '.' last
        start = r.choice([0, 0, 1, 0, 1, 120, 126, 250, 254, 40000])
        lab = [(h, start + i) for i, h in enumerate(sub)]
        g = list(r.choice(gens))
        r.shuffle(g)
        toks = ["hc.labels", str(n_base), str(len(lab))]
        for h, i in lab:
            toks.extend(str(a) for a in h); toks.append(str(i))
        toks += post_tokens(ploidy, gens, fpr) + [str(a) for h in g for a in h]
        n_all = r.choice([None, start + len(lab), start + len(lab) + 1, len(lab)]) if start < 100 else r.choice([None, len(lab)])
        toks.append("none" if n_all is None else str(n_all))
        reqs.append(" ".join(toks)); meta.append((n_base, lab, ploidy, gens, fpr, g, n_all))
    for (n_base, lab, ploidy, gens, fpr, g, n_all), q, a in zip(meta, reqs, drv.ask(reqs)):
        labels = {np.array(h, dtype=np.int8).tobytes(): i for h, i in lab}
        pnp = make_posterior(PGD, ploidy, gens, fpr, n_base)
        garr = np.array(g, dtype=np.int8).reshape(ploidy, n_base)
        gt = " ".join(str(int(x)) for x in gaa(garr, labels))
        try:
            gp = " ".join(C.rat_str(float(x)) for x in call_gpa(gpa, pnp, labels, n_all))
        except IndexError:
            gp = "error"
        chk.count("labels:start=%s" % ((lab[0][1] if lab[0][1] < 100 else ">=120") if lab else 0)); chk.count("labels:GP-error" if gp == "error" else "labels:GP-ok")
        chk.count("labels:n_alleles=None" if n_all is None else "labels:n_alleles=given")
        chk.case(q, len(lab) >= 1)
        ld = dict(lab)
        want = sorted(ld[h] for h in g if h in ld) + [-1] * sum(1 for h in g if h not in ld)
        if gt != " ".join(str(x) for x in want):
            chk.violation("GT is not the sorted allele numbers of the genotype's listed haplotypes with '.' for the unlisted ones (last)",
                          {"labels": [(list(h), i) for h, i in lab], "genotype": [list(h) for h in g], "impl": gt, "expected": want},
                          "C13/_genotype_as_alleles/dot-iff-excluded")
        if f"{gt};{gp}" != a:
            chk.disagreement("_genotype_as_alleles / _genotype_posterior_as_array with an arbitrary label dict != model",
                             {"labels": [(list(h), i) for h, i in lab], "genotype": [list(h) for h in g], "impl": f"{gt};{gp}"[:400], "model": a[:400]})


# --------------------------------------------------------------------------------------
# CLI: recorded calls + text
# --------------------------------------------------------------------------------------

def _floats(text):
    """comma separated VCF numbers -> list of floats, None for '.'; None when the field is absent"""
    if text is None or text == "":
        return None
    return [None if x == "." else float(x) for x in text.split(",")]


def cli_run(chk, drv, r, fns, ds, d, thr, report, mcmc, S, A):
    """one `mchap assemble` run: the calls recorded inside the program are checked at function level and every printed record is
    compared with what the RECORDED per-sample posteriors imply (GT / AFP / AOP / GP), whatever subset of fields was requested"""
    call_posterior_haplotypes, gaa, gpa, mset = fns
    recorded = []
    orig = A.call_posterior_haplotypes

    def rec(posteriors, threshold=0.01, _orig=orig, _rec=recorded):
        out = _orig(posteriors, threshold=threshold)
        _rec.append((list(posteriors), float(threshold), out))
        return out
    argv = list(mcmc)
    if thr is not None:
        argv += ["--haplotype-posterior-threshold", thr]
    if report:
        argv += ["--report", *report]
    A.call_posterior_haplotypes = rec
    try:
        out, code, err = S.run_program(ds.assemble_argv(*argv))
    finally:
        A.call_posterior_haplotypes = orig
    chk.count("cli:assemble-runs")
    chk.count("cli:report=" + ("+".join(report) if report else "none"))
    chk.count("cli:threshold=" + ("default" if thr is None else thr))
    chk.count(f"cli:samples={len(ds.samples)}")
    rcase = {"dataset": d, "threshold": thr, "report": list(report), "n_samples": len(ds.samples)}
    if code != 0:
        masked_gp = "GP" in report and "IndexError" in err
        chk.violation("mchap assemble aborted on a synthetic data set", {**rcase, "error": err[:500]}, SIG_F3 if masked_gp else "C13/cli/abort")
        return
    _, recs = S.parse_vcf_text(out)
    T = 0.2 if thr is None else float(thr)        # the documented default
    if len(recorded) != len(recs):
        chk.violation("assemble did not call call_posterior_haplotypes once per record", {**rcase, "calls": len(recorded), "records": len(recs)},
                      "C13/cli/one-call-per-record")
    for rec_, (posts_np, t_used, (haps, ref_obs)) in zip(recs, recorded):
        case = {**rcase, "record": rec_["line"][:600]}
        if t_used != T:
            chk.violation("--haplotype-posterior-threshold (default 0.2) is not the threshold passed to call_posterior_haplotypes",
                          {**case, "passed": t_used}, "C13/cli/threshold")
        n_base = int(posts_np[0].genotypes.shape[-1])
        posts_py = []
        for p in posts_np:
            gens = [tuple(tuple(int(a) for a in h) for h in g) for g in p.genotypes]
            posts_py.append((int(p.genotypes.shape[1]), gens, [float(x) for x in p.probabilities]))
        # function level on what the program really passed (general probabilities: equality cases are margins)
        check_call(chk, drv, posts_np, posts_py, n_base, t_used, False, "cli-recorded", fns)
        # ---- the printed record
        masked = "REFMASKED" in rec_["INFO"]
        chk.count("cli:record-refmasked" if masked else "cli:record-ref-called")
        if masked == bool(ref_obs) or len(rec_["ALT"]) != len(haps) - 1:
            chk.violation("printed REFMASKED / ALT count differ from what call_posterior_haplotypes returned",
                          {**case, "ref_observed": bool(ref_obs), "n_haplotypes": len(haps)}, "C13/cli/record-vs-call")
            continue
        n_all = 1 + len(rec_["ALT"])
        if n_all > 10:
            chk.count("cli:record-with-two-digit-allele-numbers")
        if "NOA" in rec_["FILTER"]:
            chk.count("cli:record-NOA")
        impl_haps = [tuple(int(a) for a in h) for h in haps]
        ref = impl_haps[0]
        called = set(impl_haps[1:]) | ({ref} if ref_obs else set())
        labels = {h.tobytes(): i for i, h in enumerate(haps)}
        if not ref_obs:
            labels.pop(haps[0].tobytes())
        aop_max = [0.0] * n_all
        have_aop = True
        if len(rec_["samples"]) != len(posts_np):
            chk.violation("the record does not have one sample column per recorded posterior", {**case, "columns": len(rec_["samples"])}, "C13/cli/columns")
            continue
        for smp, pnp, (ploidy, gens, pr) in zip(rec_["samples"], posts_np, posts_py):
            st = exact_stats(gens, pr)
            if all(h not in called for h in st):
                chk.count("cli:sample-with-no-called-haplotype")
            # ---- GT: what the recorded posterior implies
            gt = smp.get("GT", "")
            alleles = gt.replace("|", "/").split("/")
            mode_g, _ = pnp.mode_genotype_support().mode_genotype()
            exp = [int(x) for x in gaa(mode_g, labels)]
            exp_s = "/".join("." if a < 0 else str(a) for a in exp)
            mg = [tuple(int(a) for a in h) for h in mode_g]
            want = sorted(impl_haps.index(h) for h in mg if h in called)
            want_s = "/".join([str(a) for a in want] + ["."] * (len(mg) - len(want)))
            scase = {**case, "GT": gt, "mode_genotype": [list(h) for h in mg], "haplotypes": [list(h) for h in impl_haps], "ref_called": bool(ref_obs)}
            if masked and "0" in alleles:
                chk.violation("GT uses allele 0 in a REFMASKED record", scase, "C13/cli/masked-zero")
            elif gt != want_s:
                chk.violation("printed GT is not the sorted allele numbers of the sample's called genotype with '.' exactly for its excluded haplotypes",
                              {**scase, "expected": want_s}, "C13/cli/gt-vs-posterior")
            if exp_s != want_s:
                chk.violation("_genotype_as_alleles on the recorded mode genotype: not the sorted listed alleles with '.' for excluded haplotypes",
                              {**scase, "impl": exp_s, "expected": want_s}, "C13/_genotype_as_alleles/dot-iff-excluded")
            chk.count("cli:GT-with-dot" if "." in alleles else "cli:GT-complete")
            if any(a != "." and int(a) >= n_all for a in alleles):
                chk.violation("GT uses an allele number that is not listed", scase, "C13/cli/gt-range")
            # ---- AFP / AOP
            exp_f = [float(st[h][1] / ploidy) if h in st else 0.0 for h in impl_haps]
            exp_o = [float(st[h][0]) if h in st else 0.0 for h in impl_haps]
            for key, expv in (("AFP", exp_f), ("AOP", exp_o)):
                vals = _floats(smp.get(key))
                if key in report:
                    if vals is None or len(vals) != n_all or any(v is None for v in vals):
                        chk.violation(f"{key} does not have one value per allele", {**scase, key: smp.get(key)}, "C13/cli/R-length")
                        if key == "AOP":
                            have_aop = False
                        continue
                    if any(not (abs(v - e) <= 0.00051) for v, e in zip(vals, expv)):
                        chk.violation(f"printed {key} is not the posterior {'frequency' if key == 'AFP' else 'occurrence probability'} of each listed "
                                      "haplotype in the sample's recorded posterior", {**scase, key: vals, "expected": expv}, "C13/cli/AFP-AOP-vs-posterior")
                    if key == "AFP" and sum(vals) > 1 + 0.0005 * n_all + 1e-9:
                        chk.violation("printed AFP sums to more than one", {**scase, "AFP": vals}, "C13/cli/AFP-sum")
                    if key == "AOP":
                        for i, x in enumerate(vals):
                            aop_max[i] = max(aop_max[i], x)
                elif key == "AOP":
                    have_aop = False
            # ---- GP
            if "GP" in report:
                gp = _floats(smp.get("GP"))
                size = math.comb(n_all + ploidy - 1, ploidy)
                exp_gp = [0.0] * size
                for g, p_ in zip(gens, pr):
                    if all(h in called for h in g):
                        exp_gp[vcf_index([impl_haps.index(h) for h in g])] += float(p_)
                if gp is None or len(gp) != size or any(v is None for v in gp):
                    chk.violation("printed GP does not have the record's G cardinality", {**scase, "GP": (smp.get("GP") or "")[:200], "expected_length": size},
                                  SIG_F3 if masked else "C13/cli/GP")
                else:
                    if sum(gp) > 1 + 0.0005 * size + 1e-9:
                        chk.violation("printed GP sums to more than one", {**scase, "GP_sum": sum(gp)}, "C13/cli/GP")
                    bad = [i for i, (v, e) in enumerate(zip(gp, exp_gp)) if not (abs(v - e) <= 0.00051)]
                    if bad:
                        i = bad[0]
                        chk.violation("printed GP is not the recorded posterior laid out in G order over the listed alleles "
                                      "(genotypes with an excluded haplotype carry no mass)",
                                      {**scase, "position": i, "printed": gp[i], "expected": exp_gp[i], "n_wrong": len(bad)}, "C13/cli/GP-vs-posterior")
                    if masked:
                        # positions whose genotype contains allele 0: the lowest allele of position i is 0
                        from mchap.jitutils import index_as_genotype_alleles
                        with0 = [i for i, v in enumerate(gp) if v > 0 and int(index_as_genotype_alleles(i, ploidy)[0]) == 0]
                        if with0:
                            chk.violation("GP gives mass to a genotype containing allele 0 in a REFMASKED record",
                                          {**scase, "position": with0[0], "value": gp[with0[0]]}, "C13/cli/masked-zero-GP")
        # the iff on the text, using the printed (3-decimal) AOP; values within the rounding margin are skipped
        if have_aop and "AOP" in report:
            for i, m in enumerate(aop_max):
                if abs(m - T) <= 0.00051:
                    chk.count("cli:aop-rounding-margin(not compared)")
                    continue
                meets = m >= T
                if i == 0:
                    if meets == masked:
                        chk.violation("REFMASKED is not 'the reference reached the threshold in no sample' (printed AOP)",
                                      {**case, "max_AOP_ref": m}, "C13/cli/refmasked-iff")
                elif not meets:
                    chk.violation("an ALT allele reaches the threshold in no sample (printed AOP)", {**case, "allele": i, "max_AOP": m},
                                  "C13/cli/alt-iff")
        chk.case("cli:" + rec_["line"][:200], len(rec_["ALT"]) >= 1)


def cli_part(chk, drv, r, tier, fns, PGD):
    from . import synth as S
    import mchap.application.assemble as A

    work = tempfile.mkdtemp(prefix="verif-c13-")
    n_ds = {"warm": 1, "quick": 6, "thorough": 18}[tier]
    mcmc = ["--mcmc-steps", "200", "--mcmc-burn", "80", "--mcmc-seed", str(r.randrange(1, 10 ** 6))]
    reports = [("AFP", "AOP", "GP"), ("AOP",), ("GP",), ("AFP", "AOP"), (), ("GP", "AFP"), ("AOP", "GP", "ACP")]
    try:
        for d in range(n_ds):
            kind = d % 6
            if kind == 5:      # very shallow data of few haplotypes at threshold 1.0: records in which nothing is listed (NOA + REFMASKED, no
                               # ALT) although the samples' called genotypes hold the reference haplotype - their GT is all '.'
                shape = dict(n_samples=2, ploidies=(4, 2), depth=(1, 3), max_snvs=2); thr = "1.0"
            elif kind == 0:      # common thresholds
                shape = dict(n_samples=3, ploidies=r.choice([(2, 4), (4, 2, 2)]), depth=(6, 16)); thr = r.choice(["0.2", "0.5"])
            elif kind == 1:    # high thresholds on shallow data: the reference is often present below the threshold (REFMASKED, '.' in GT)
                shape = dict(n_samples=r.choice([2, 3]), ploidies=r.choice([(2, 4), (4, 2, 2)]), depth=(3, 10)); thr = r.choice(["0.9", "1.0", "0.75", "0.95"])
            elif kind == 2:    # a single sample, one locus without any read, threshold 1.0: nothing is listed (NOA)
                shape = dict(n_samples=1, ploidies=(r.choice([2, 4]),), depth=(3, 8), features={"nodepth"}); thr = "1.0"
            elif kind == 3:    # threshold 0 on many shallow samples: every haplotype of every posterior is listed (two-digit allele numbers)
                shape = dict(n_samples=5, ploidies=(4, 2, 4), depth=(2, 5), max_snvs=4); thr = "0"
            else:              # option omitted: the default (0.2) must be what is used
                shape = dict(n_samples=2, ploidies=(4, 2), depth=(4, 12), features={"nodepth"}); thr = None
            ds = S.make_dataset(r, os.path.join(work, f"ds{d}"), n_loci=3 if tier != "thorough" else 4,
                                **{"max_snvs": 3, **shape})
            report = reports[0] if kind in (1, 3) else r.choice(reports)
            cli_run(chk, drv, r, fns, ds, d, thr, report, mcmc, S, A)
            if kind == 1:      # the same data with other subsets of the optional fields
                cli_run(chk, drv, r, fns, ds, d, thr, r.choice(reports[1:]), mcmc, S, A)
    finally:
        shutil.rmtree(work, ignore_errors=True)


def run(tier, replay=None):
    from mchap.assemble.haplotype_calling import call_posterior_haplotypes
    from mchap.assemble.classes import PosteriorGenotypeDistribution as PGD
    from mchap.application.assemble import _genotype_as_alleles as gaa, _genotype_posterior_as_array as gpa
    from mchap import mset

    chk = C.Check(PROP, tier, MODULE, THEOREMS, RULE, assumptions=[
        "`probs >= threshold` is a float comparison: thresholds within 1e-9 of an occurrence probability (and exact equality unless the "
        "probabilities are dyadic, where float sums are exact) are counted, not compared",
        "np.argsort tie order is not modelled: ALT alleles of equal summed dosage may appear in any order",
        "text-level checks use the 3-decimal AOP / AFP values printed in the VCF; values within the rounding margin of the threshold are skipped",
    ], exe="driver_sum")
    chk.prove()
    drv = C.Driver("driver_sum")
    r = C.rng(PROP)
    fns = (call_posterior_haplotypes, gaa, gpa, mset)
    n_inst = {"warm": 4, "quick": 140, "thorough": 1400}[tier]

    # the minimal reproducer of F3, always run
    post = PGD(np.array([[[0, 1], [0, 1]]], dtype=np.int8), np.array([1.0]))
    check_call(chk, drv, [post], [(2, [((0, 1), (0, 1))], [1.0])], 2, 0.2, True, "F3-minimal", fns)

    for i_inst in range(n_inst):
        wide = i_inst % 10 == 9
        n_base, pool, dyadic, posts = gen_instance(r, wide=wide)
        if wide:
            chk.count("instance:wide(>=11 haplotypes, 4..8 samples)")
        posts_py = [(p, gens, [float(x) for x in pr]) for p, gens, pr in posts]
        posts_np = [make_posterior(PGD, p, gens, pr, n_base) for p, gens, pr in posts_py]
        occs = sorted({float(o) for _, gens, pr in posts_py for o, _ in exact_stats(gens, pr).values()})
        # the implementation's own float occurrence values (what `probs >= threshold` compares)
        impl_occ = sorted({float(x) for p in posts_np for x in p.allele_frequencies(dosage=True)[2]})
        ths = [0.0, 1.0, r.choice([0.2, 0.01]), r.random()]
        ths += r.sample(impl_occ, min(3, len(impl_occ)))
        if occs:
            o = r.choice(occs)
            ths += [o + 1e-12, max(0.0, o - 1e-12)]
        chk.count("probabilities:dyadic" if dyadic else "probabilities:general")
        chk.count(f"n_base={n_base}")
        for k, thr in enumerate(ths):
            check_call(chk, drv, posts_np, posts_py, n_base, thr, dyadic, "generated", fns, deep=(k < 5))
        # allele_frequencies (dosage=True) vs model and exact oracle
        reqs = [" ".join(["hc.occ", str(n_base)] + post_tokens(p, gens, pr)) for p, gens, pr in posts_py]
        for (p, gens, pr), pnp, q, a in zip(posts_py, posts_np, reqs, drv.ask(reqs)):
            uh, w, o = pnp.allele_frequencies(dosage=True)
            impl = {tuple(int(x) for x in h): (float(a_), float(b_)) for h, a_, b_ in zip(uh, w, o)}
            st = exact_stats(gens, pr)
            chk.count("allele_frequencies")
            chk.case(q, len(st) >= 2)
            if set(impl) != set(st) or any(not C.close(impl[h][0], float(st[h][1])) or not C.close(impl[h][1], float(st[h][0])) for h in st):
                chk.violation("allele_frequencies(dosage=True): weight != expected copy number or occurrence != P(copy number >= 1)",
                              {"genotypes": [[list(h) for h in g] for g in gens], "probabilities": pr, "impl": str(impl)},
                              "C13/allele_frequencies/def")
            model = {}
            for e in a.split():
                f = e.split("=")
                model[p_hap(f[0])] = tuple(C.parse_rat(x) for x in f[1:])
            if [p_hap(e.split("=")[0]) for e in a.split()] != [tuple(int(x) for x in h) for h in uh] or any(
                    not C.close(impl[h][0], float(model[h][0])) or not C.close(impl[h][1], float(model[h][1]))
                    or model[h][0] != model[h][2] or model[h][1] != model[h][3] for h in model):
                chk.disagreement("allele_frequencies(dosage=True) != model (order of first occurrence, weights, occurrence)",
                                 {"impl": str(impl), "model": a})
    check_labels(chk, drv, r, PGD, gaa, gpa, {"warm": 5, "quick": 150, "thorough": 1500}[tier])
    cli_part(chk, drv, r, tier, fns, PGD)
    return chk.finish()
