"""C18 — the pedigree sampler moves are stationary at the joint pedigree posterior.

Correspondence (model `lean/MCHap/Model/Pedigree.lean`, exe `driver_ped`): the vectors returned by
`gibbs_probabilities` / `metropolis_hastings_probabilities` (jitted, and `.py_func` on a subset), the
`prob_accept` of `pair_allele_swap_step` (observed on `.py_func` with the module's `np.random` draws
forced), `sample_children_matrix` and the pair blankets, on small generated pedigrees.
Implementation oracles (S): the exact joint `prod_i lik_i * trio_pmf_i` is evaluated with the
implementation's own `log_likelihood_alleles_cached` and `trio_log_pmf`; from it the exact full
conditional of one allele slot (vs the Gibbs vector), the detailed-balance residual of the MH vector,
and the exact Metropolis ratio of the parental swap (vs `prob_accept`).
Round 5 (input shapes): individuals from unbalanced / clonal / triploid / unreduced edges that are parents themselves, random pedigrees
with per-individual ploidy and tau (`wp4.gen_structure`), indices permuted (children before parents), lambda = 1, single edges with
error 0, int16 genotypes padded with -1 and the numba dict likelihood cache shared by all calls on a pedigree, one haplotype, no reads,
members without reads, multi-allelic SNVs; the swap with the uniform draw forced to accept / reject / a random value (state and decision
checked); `allele_step` (py_func with `random_choice` forced, and jitted with numba's generator seeded), `sample_step`, `compound_step`
(visit order); the jitted `pair_allele_swap_step` on production types against the table of all index pairs.
"""
from __future__ import annotations

import math

import numpy as np

from . import common as C
from . import gen as G
from . import wp4 as W

PROP = "C18"
MODULE = "MCHap.Properties.C18"
EXE = "driver_ped"
THEOREMS = [
    "MCHap.C18.blanket_factor",
    "MCHap.C18.rest_invariant",
    "MCHap.C18.blanket_ratio",
    "MCHap.C18.ped_mh_db",
    "MCHap.C18.mh_ratio_joint",
    "MCHap.C18.swap_db",
    "MCHap.C18.pair_factor",
    "MCHap.C18.rest_pair_invariant",
    "MCHap.C18.pair_blanket_ratio",
    "MCHap.C18.swap_ratio_joint",
    "MCHap.C18.ped_swap_db",
    "MCHap.C18.swap_self_perm",
    "MCHap.C18.jointWith_perm",
    "MCHap.C18.swap_self_joint",
    "MCHap.C18.ped_mh_vector",
    "MCHap.C18.hyper_allele_step",
    "MCHap.C18.unknown_allele_step",
    "MCHap.C18.kappa_of_fixed_weights",
    "MCHap.C18.trio_allele_weighted",
    "MCHap.C18.trio_allele_exact",
    "MCHap.C18.ped_gibbs_scaled",
    "MCHap.C18.ped_gibbs_is_conditional",
    "MCHap.C18.joint_code_eq_spec",
    "MCHap.C18.ped_gibbs_is_conditional_joint",
    "MCHap.C18.trio_allele_balanced_old",
    "MCHap.C18.ped_gibbs_old_weights_balanced",
    "MCHap.C18.gibbs_old_weights_counterexample",
    "MCHap.C18.pairBlanket_nodup",
    "MCHap.C18.pairPrior_of_listing",
    "MCHap.C18.pairPrior_of_repeated",
    "MCHap.C18.ped_iteration_invariant",
]
RULE = ("cases: generated pedigrees (founder, clone founder, duo with unknown parent, trio, half-sibs, selfing, two generations, mixed "
        "ploidy 2x x 4x -> 3x, unbalanced tau (1,3)/(3,1)/(1,2), clonal edges) over 2..4 haplotypes, lambda {0,.1,.5} on tau = 2 edges, "
        "errors {.01,.1,.5,1} plus 0 on congruent states, frequencies flat/skewed, reads all-NaN or informative with zero-count rows; "
        "every sample x up to 2 allele slots for Gibbs and MH, up to 3 index pairs per parental pair for the swap. Non-trivial: the "
        "target has a parent or a child in the pedigree and >= 2 haplotypes. Distinct by request line. Round 5: templates whose unbalanced / "
        "clonal / triploid / unreduced individuals are parents, random pedigrees with per-individual tau, permuted indices, lambda 1.0, "
        "single zero-error edges, int16 / -1 states, dict cache, n_haps = 1, n_reads = 0, members without reads, multi-allelic SNVs; step "
        "functions driven with forced choices; jitted swap.")

ERRORS = [0.01, 0.1, 0.5, 1.0]
LAMBDAS = [0.1, 0.5, 0.5, 1.0]


# ----------------------------------------------------------------------------- pedigree generator
def templates():
    U = -1
    return {
        "founder2x": dict(parent=[[U, U]], tau=[[1, 1]]),
        "founder4x": dict(parent=[[U, U]], tau=[[2, 2]]),
        "clone-founder": dict(parent=[[U, U]], tau=[[2, 0]]),
        "duo4x": dict(parent=[[U, U], [0, U]], tau=[[2, 2], [2, 2]]),
        "duo2x-q": dict(parent=[[U, U], [U, 0]], tau=[[1, 1], [1, 1]]),
        "trio2x": dict(parent=[[U, U], [U, U], [0, 1]], tau=[[1, 1], [1, 1], [1, 1]]),
        "trio4x": dict(parent=[[U, U], [U, U], [0, 1]], tau=[[2, 2], [2, 2], [2, 2]]),
        "trio6x": dict(parent=[[U, U], [U, U], [0, 1]], tau=[[3, 3], [3, 3], [3, 3]]),
        "mixed-2x4x-3x": dict(parent=[[U, U], [U, U], [0, 1]], tau=[[1, 1], [2, 2], [1, 2]]),
        "unbalanced-13": dict(parent=[[U, U], [U, U], [0, 1]], tau=[[1, 1], [3, 3], [1, 3]]),
        "unbalanced-31": dict(parent=[[U, U], [U, U], [0, 1]], tau=[[2, 2], [1, 1], [3, 1]]),
        "unbalanced-13-4x": dict(parent=[[U, U], [U, U], [0, 1]], tau=[[2, 2], [2, 2], [1, 3]]),
        "clonal-edge": dict(parent=[[U, U], [U, U], [0, 1]], tau=[[2, 2], [1, 1], [2, 0]]),
        "halfsibs": dict(parent=[[U, U], [U, U], [U, U], [0, 1], [0, 2]], tau=[[1, 1]] * 5),
        "halfsibs4x": dict(parent=[[U, U], [U, U], [U, U], [0, 1], [2, 0]], tau=[[2, 2]] * 5),
        "selfing2x": dict(parent=[[U, U], [0, 0]], tau=[[1, 1], [1, 1]]),
        "selfing4x": dict(parent=[[U, U], [0, 0], [0, 0]], tau=[[2, 2]] * 3),
        "two-gen": dict(parent=[[U, U], [U, U], [0, 1], [U, U], [2, 3]], tau=[[1, 1]] * 5),
        "two-gen4x": dict(parent=[[U, U], [U, U], [0, 1], [U, 2]], tau=[[2, 2]] * 4),
        "sibs-unbalanced": dict(parent=[[U, U], [U, U], [0, 1], [0, 1]], tau=[[2, 2], [2, 2], [1, 3], [2, 2]]),
        # families of full sibs (same parents, same gamete ploidies): the sibs may well hold the same genotype while
        # their own parameters (parent-error, double reduction) differ
        "fullsibs2x": dict(parent=[[U, U], [U, U], [0, 1], [0, 1], [0, 1]], tau=[[1, 1]] * 5),
        "fullsibs4x": dict(parent=[[U, U], [U, U], [0, 1], [0, 1], [0, 1], [0, 1]], tau=[[2, 2]] * 6),
        "fullsibs+halfsib": dict(parent=[[U, U], [U, U], [U, U], [0, 1], [0, 1], [0, 2], [0, 1]], tau=[[1, 1]] * 7),
        # a member of a parental pair with further progeny of its own (other parent unknown / itself / its own child)
        "pair+duo-p": dict(parent=[[U, U], [U, U], [0, 1], [0, U]], tau=[[1, 1]] * 4),
        "pair+duo-q": dict(parent=[[U, U], [U, U], [0, 1], [U, 1]], tau=[[1, 1]] * 4),
        "pair+duos4x": dict(parent=[[U, U], [U, U], [0, 1], [0, U], [U, 1]], tau=[[2, 2]] * 5),
        "pair+selfed": dict(parent=[[U, U], [U, U], [0, 1], [0, 0]], tau=[[1, 1]] * 4),
        "backcross": dict(parent=[[U, U], [U, U], [0, 1], [0, 2]], tau=[[1, 1]] * 4),
        "backcross4x+duo": dict(parent=[[U, U], [U, U], [0, 1], [2, 0], [2, U]], tau=[[2, 2]] * 5),
        # individuals that come from an unbalanced / clonal / triploid / unreduced edge and are parents themselves
        "triploid-parent": dict(parent=[[U, U], [U, U], [0, 1], [2, U]], tau=[[1, 1], [2, 2], [1, 2], [1, 1]]),
        "triploid-parent-3x": dict(parent=[[U, U], [U, U], [0, 1], [2, U], [1, 2]], tau=[[1, 1], [2, 2], [1, 2], [2, 1], [2, 1]]),
        "unbalanced-parent": dict(parent=[[U, U], [U, U], [0, 1], [2, 1]], tau=[[2, 2], [2, 2], [1, 3], [2, 2]]),
        "unbalanced-31-parent": dict(parent=[[U, U], [U, U], [0, 1], [U, 2]], tau=[[2, 2], [1, 1], [3, 1], [2, 2]]),
        "clone-of-known": dict(parent=[[U, U], [0, U]], tau=[[2, 2], [4, 0]]),
        "clone-chain": dict(parent=[[U, U], [0, U], [1, U], [1, 0]], tau=[[2, 2], [4, 0], [2, 2], [2, 2]]),
        "clonal-edge-parent": dict(parent=[[U, U], [U, U], [0, 1], [2, U], [U, 2]], tau=[[2, 2], [1, 1], [2, 0], [1, 1], [1, 1]]),
        "unreduced-2x": dict(parent=[[U, U], [U, U], [0, 1], [2, 0]], tau=[[1, 1], [2, 2], [2, 2], [2, 1]]),
        "unreduced-both": dict(parent=[[U, U], [U, U], [0, 1], [2, 2]], tau=[[1, 1], [1, 1], [2, 2], [2, 2]]),
    }


def draw_gamete(r, g, tau, n, lam):
    g = list(g)
    if tau == 0:
        return []
    if tau == 2 and lam > 0 and r.random() < lam:
        a = r.choice(g)
        return [a, a]
    if tau > len(g):
        return [r.randrange(n) for _ in range(tau)]
    return r.sample(g, tau)


def typed_cache():
    """the likelihood cache as mcmc_sampler builds it: dict (sample, genotype index) -> float with the (-1, -1) seed entry"""
    from numba import types
    from numba.typed import Dict
    d = Dict.empty(key_type=types.UniTuple(types.int64, 2), value_type=types.float64)
    d[(-1, -1)] = np.nan
    return d


def gen_pedigree(r, name=None, directed=False):
    T = templates()
    lam = None
    if name is None and r.random() < 0.3:
        name = "random"
        S = W.gen_structure(r, uniform=r.random() < 0.15, n_min=3)      # per-individual ploidy / tau, generation order
        parents, tau, lam = S["parents"].copy(), S["tau"].copy(), S["lam"].copy()
    else:
        name = name or r.choice(sorted(T))
        t = T[name]
        parents = np.array(t["parent"], dtype=np.int64)
        tau = np.array(t["tau"], dtype=np.int64)
    N = len(parents)
    ploidy = tau.sum(axis=1)
    mp = int(ploidy.max())
    n_base = r.randint(1, 3)
    n_all = G.gen_n_alleles(r, n_base, multi=r.random() < 0.3)
    cap = 1
    for a in n_all:
        cap *= a
    n_haps = r.choice([2, 3, 3, 4]) if cap > 2 else 2
    if not directed and r.random() < 0.05:
        n_haps = 1                                                      # a locus with a single known haplotype
    seen, haps = set(), []
    for _ in range(40):
        h = tuple(G.gen_haplotype(r, n_all))
        if h not in seen:
            seen.add(h); haps.append(list(h))
        if len(haps) == n_haps:
            break
    n = len(haps)
    if lam is None:
        lam = np.zeros((N, 2))
        for i in range(N):
            for j in range(2):
                if tau[i, j] == 2 and r.random() < 0.5:
                    lam[i, j] = r.choice(LAMBDAS)
    if r.random() < 0.5:
        err = np.full((N, 2), r.choice(ERRORS))
    else:
        err = np.array([[r.choice(ERRORS) for _ in range(2)] for _ in range(N)])
    zero_err = r.random() < 0.2
    some_zero = (not zero_err) and r.random() < 0.3                     # exactly one edge of a trio certain, or a few edges
    if some_zero:
        known = [(i, j) for i in range(N) for j in range(2) if parents[i, j] >= 0]
        if known:
            i, j = r.choice(known)
            err[i, j] = 0.0
            if err[i, 1 - j] == err[i, j]:
                err[i, 1 - j] = r.choice([0.01, 0.1, 0.5])
            for (i2, j2) in known:
                if r.random() < 0.2:
                    err[i2, j2] = 0.0
    # state: founders random, children from gametes, with occasional incongruent slots
    pad, dt = r.choice([(-2, np.int64), (-1, np.int16)])                # production: int16, padded with -1
    state = np.full((N, mp), pad, dtype=dt)
    noisy = (not zero_err) and r.random() < (0.15 if some_zero else 0.5)
    for i in range(N):
        g = []
        for j in range(2):
            p = parents[i, j]
            if p < 0 or tau[i, j] == 0:
                g += [r.randrange(n) for _ in range(tau[i, j])] if p < 0 else []
            else:
                g += draw_gamete(r, state[p, :ploidy[p]].tolist(), int(tau[i, j]), n, lam[i, j])
        while len(g) < ploidy[i]:
            g.append(r.randrange(n))
        if noisy and r.random() < 0.4:
            g[r.randrange(len(g))] = r.randrange(n)
        r.shuffle(g)
        state[i, :ploidy[i]] = g
        # a full sib (same parents, same gamete ploidies) of an earlier individual often carries the very same genotype row
        for i0 in range(i):
            if (parents[i0] == parents[i]).all() and parents[i].min() >= 0 and (tau[i0] == tau[i]).all() and r.random() < 0.45:
                state[i] = state[i0]
                break
    if zero_err:
        err[:] = 0.0
    kind = r.choice(["flat", "skew"])
    if kind == "flat":
        freqs = np.full(n, 1.0 / n)
    else:
        v = np.array([r.random() + 0.1 for _ in range(n)]); freqs = v / v.sum()
    # reads
    n_reads = r.choice([0, 1, 1, 2, 2, 3, 3, 4, 4, 4]) if not directed else r.choice([1, 2, 3, 4])
    mx = max(n_all)
    reads = np.full((N, n_reads, n_base, mx), np.nan)
    counts = np.ones((N, n_reads), dtype=np.int64)
    informative = n_reads > 0 and r.random() < 0.6
    no_reads = []
    if informative:
        for i in range(N):
            truth = [haps[a] for a in state[i, :ploidy[i]]]
            rd, ct = G.gen_reads(r, n_all, n_reads, haps=truth, gap=0.2, style=r.choice(["encoded", "encoded", "free"]),
                                 zero_counts=True)
            reads[i] = rd; counts[i] = ct
            if not directed and r.random() < 0.15:                      # a pedigree member without alignment file: NaN rows, count 0
                reads[i] = np.nan; counts[i] = 0; no_reads.append(i)
    deep = False
    if informative and not directed and N > 1 and r.random() < 0.15:
        # deep data, and one parent whose reads are those of another genotype (a mislabelled sample): its own reads rule out, by
        # hundreds of log units, alleles its progeny demand - the full conditional still weighs likelihood x inheritance exactly
        deep = True
        counts = counts * r.choice([20, 40])
        par_idx = sorted({int(p_) for p_ in parents.ravel() if p_ >= 0})
        if par_idx:
            i = r.choice(par_idx)
            other = [haps[r.randrange(n)] for _ in range(int(ploidy[i]))]
            rd, ct = G.gen_reads(r, n_all, n_reads, haps=other, gap=0.1, style="encoded", zero_counts=False)
            reads[i] = rd; counts[i] = ct * r.choice([20, 40])
    permuted = False
    if not directed and N > 1 and r.random() < 0.4:                    # children may precede their parents
        perm = list(range(N)); r.shuffle(perm)                          # new index of old i
        inv = [0] * N
        for old, new in enumerate(perm):
            inv[new] = old
        permuted = perm != list(range(N))
        par2 = parents[inv].copy()
        for i in range(N):
            for j in range(2):
                if par2[i, j] >= 0:
                    par2[i, j] = perm[par2[i, j]]
        parents, tau, ploidy, lam, err, state, reads, counts = (par2, tau[inv], ploidy[inv], lam[inv], err[inv], state[inv],
                                                                reads[inv], counts[inv])
    return dict(name=name, parents=np.ascontiguousarray(parents), tau=np.ascontiguousarray(tau), ploidy=np.ascontiguousarray(ploidy),
                lam=np.ascontiguousarray(lam), err=np.ascontiguousarray(err), state=np.ascontiguousarray(state),
                haps=np.array(haps, dtype=np.int64), freqs=freqs, reads=np.ascontiguousarray(reads), counts=np.ascontiguousarray(counts),
                informative=informative, n=n, N=N, mp=mp, zero_err=zero_err, some_zero=some_zero, permuted=permuted,
                cache=typed_cache() if r.random() < 0.5 else None, multi=max(n_all) > 2, n_reads=n_reads, deep=deep)


def directed_hexaploid(r):
    """hexaploid trio, tau (3,3), positive errors: the candidate genotype 0,0,0,0,1,2 makes the complementary gamete of q
    hold three copies of an allele q carries once (boundary stream)"""
    P = gen_pedigree(r, "trio6x", directed=True)
    n_base = P["haps"].shape[1]
    if P["n"] < 3:
        return None
    P["state"][:] = np.array([[0, 1, 2, 2, 2, 2], [0, 1, 2, 2, 2, 2], [0, 0, 0, 1, 1, 2]])
    P["err"][:] = r.choice([0.01, 0.1, 0.5])
    P["lam"][:] = 0.0
    P["reads"][:] = np.nan
    P["counts"][:] = 1
    P["informative"] = False
    P["name"] = "directed-hexaploid"
    return P


def ped_tokens(P, state):
    N = P["N"]
    toks = [str(P["n"]), str(P["haps"].shape[1])] + [str(int(x)) for x in P["haps"].reshape(-1)]
    toks += [str(P["n"])] + [C.rat_str(x) for x in P["freqs"]]
    toks += [str(N)] + [str(int(x)) for x in P["ploidy"]]
    toks += [str(int(x)) for x in P["parents"].reshape(-1)]
    toks += [str(int(x)) for x in P["tau"].reshape(-1)]
    toks += [C.rat_str(x) for x in P["lam"].reshape(-1)]
    toks += [C.rat_str(x) for x in P["err"].reshape(-1)]
    for i in range(N):
        toks += G.reads_tokens(P["reads"][i], P["counts"][i])
    for i in range(N):
        g = state[i, :P["ploidy"][i]]
        toks += [str(len(g))] + [str(int(a)) for a in g]
    return toks


def scratch(m):
    z = lambda: np.zeros(m, dtype=np.int64)
    return dict(dosage=z(), dosage_p=z(), dosage_q=z(), gamete_p=z(), gamete_q=z(), constraint_p=z(), constraint_q=z(),
                dosage_log_frequencies=np.zeros(m, dtype=np.float64))


def fact_prod(g):
    out = 1
    for a in set(g):
        out *= math.factorial(list(g).count(a))
    return out


class _Rand:
    def __init__(self, draws, u=2.0, perm=None):
        self.draws = list(draws)
        self.u = u
        self.perm = perm
        self.shuffled = 0

    def randint(self, n):
        v = self.draws.pop(0)
        assert 0 <= v < n
        return v

    def rand(self):
        return self.u       # 2.0: never accept (the state is left as it was); 0.0: accept whenever prob_accept > 0

    def shuffle(self, x):
        self.shuffled += 1
        x[:] = x[self.perm] if self.perm is not None else x[::-1].copy()


class _NP:
    def __init__(self, real, draws, u=2.0, perm=None):
        self._real = real
        self.random = _Rand(draws, u, perm)

    def __getattr__(self, k):
        return getattr(self._real, k)


def check_sampler_wiring(chk, mcmc, peds, n_max, logf_of, base_of):
    """what `mcmc_sampler` hands to its moves: the source of the sampler runs with `compound_step` and `pair_allele_swap_step`
    replaced by recorders.  Per iteration: one compound step, then one exchange per unordered pair of known parents, each with a
    blanket that lists the two parents and every individual with one of them as a parent exactly once (the exchange multiplies
    the inheritance terms of the listed individuals: a repeated one is counted twice, a missing one not at all), and the
    pedigree / parameters / reads of the call itself."""
    import inspect
    f = mcmc.mcmc_sampler.py_func
    g = f.__globals__
    orig_c, orig_s = g["compound_step"], g["pair_allele_swap_step"]
    sig_c, sig_s = inspect.signature(orig_c.py_func), inspect.signature(orig_s.py_func)
    for pi, P in enumerate(peds[:n_max]):
        calls = []

        def rec_c(*a, **kw):
            d_ = dict(sig_c.bind(*a, **kw).arguments)
            calls.append(("compound", d_))
            sg_ = d_["sample_genotypes"]
            sg_[0, 0] = (int(sg_[0, 0]) + 1) % P["n"]          # the step works in place (on the sampler's own copy of the state)

        def rec_s(*a, **kw):
            d = dict(sig_s.bind(*a, **kw).arguments)
            d["markov_blanket"] = np.array(d["markov_blanket"]).copy()
            calls.append(("swap", d))
            return np.nan, False

        n_steps = 2
        g["compound_step"], g["pair_allele_swap_step"] = rec_c, rec_s
        given_state = P["state"].copy()
        try:
            f(given_state, P["ploidy"], P["parents"], P["tau"], P["lam"], P["err"], P["reads"], P["counts"], P["haps"], logf_of(P),
              n_steps=n_steps, annealing=0, step_type=pi % 2, swap_parental_alleles=True)
        finally:
            g["compound_step"], g["pair_allele_swap_step"] = orig_c, orig_s
        if not np.array_equal(given_state, P["state"]):
            chk.violation("mcmc_sampler changes the initial genotypes of its caller (every chain of a fit starts from them)",
                          base_of(P), "C18/sampler/initial-state-modified")
        par = P["parents"]
        N = P["N"]
        want_pairs = sorted({tuple(sorted((int(par[i, 0]), int(par[i, 1])))) for i in range(N) if par[i, 0] >= 0 and par[i, 1] >= 0})
        case = {**base_of(P), "expected_pairs": [list(x) for x in want_pairs]}
        chk.case(["sampler-wiring", pi], len(want_pairs) >= 1)
        chk.count("sampler-wiring"); chk.count("sampler-wiring:pairs=%d" % min(len(want_pairs), 3))
        if any(par[i, 0] > par[i, 1] >= 0 for i in range(N)):
            chk.count("sampler-wiring:a-child-lists-the-higher-numbered-parent-first")
        kinds = [k for k, _ in calls]
        per_step = ["compound"] + ["swap"] * len(want_pairs)
        if kinds != per_step * n_steps:
            chk.disagreement("mcmc_sampler does not run one compound step followed by one exchange per pair of known parents in each "
                             "iteration (the structure this check observes it through)", {**case, "calls": kinds})
            continue
        passed = {"sample_ploidy": P["ploidy"], "sample_parents": P["parents"], "gamete_tau": P["tau"], "gamete_lambda": P["lam"],
                  "gamete_error": P["err"], "sample_read_dists": P["reads"], "sample_read_counts": P["counts"], "haplotypes": P["haps"],
                  "log_frequencies": logf_of(P)}
        for step in range(n_steps):
            blk = calls[step * len(per_step):(step + 1) * len(per_step)]
            got_pairs = sorted(tuple(sorted((int(d["p"]), int(d["q"])))) for k, d in blk if k == "swap")
            if got_pairs != want_pairs:
                chk.violation("the pairs handed to the exchange move are not the pairs of known parents, each once",
                              {**case, "pairs": [list(x) for x in got_pairs]}, "C18/sampler/pairs")
                break
            bad = None
            for k, d in blk:
                for name, v in passed.items():
                    w = d.get(name)
                    if w is None or np.shape(w) != np.shape(v) or not np.array_equal(np.asarray(w), np.asarray(v), equal_nan=True):
                        bad = (k, name)
                if k == "swap":
                    pp, qq = int(d["p"]), int(d["q"])
                    bl = sorted(int(x) for x in d["markov_blanket"] if x >= 0)
                    want_bl = sorted({pp, qq} | {c for c in range(N) if par[c, 0] in (pp, qq) or par[c, 1] in (pp, qq)})
                    if bl != want_bl:
                        chk.violation("the blanket mcmc_sampler hands to the exchange of a parental pair is not the two parents and "
                                      "each individual with one of them as a parent, once each",
                                      {**case, "p": pp, "q": qq, "blanket": bl, "expected": want_bl}, "C18/sampler/blanket")
                        bad = bad or ("swap", "markov_blanket (reported)")
            if bad and not bad[1].endswith("(reported)"):
                chk.violation(f"mcmc_sampler hands its {bad[0]} move a {bad[1]} that is not the one it was called with",
                              {**case, "move": bad[0], "argument": bad[1]}, "C18/sampler/arguments")
            if bad:
                break

    # ---- inside a sweep: every update draws from the Gibbs / MH vector of the state as it is at that moment.  compound_step,
    # sample_step and allele_step run as plain Python (calling each other), the two vector functions are wrapped: the wrapper
    # returns what the code computes with whatever it was handed and compares it with the vector computed afresh from the
    # current state and the standard arguments alone (anything carried along a sweep - a table built when the sweep started -
    # would be stale after the first accepted change)
    std = ("target_index", "allele_index", "sample_genotypes", "sample_ploidy", "sample_parents", "sample_children", "gamete_tau",
           "gamete_lambda", "gamete_error", "sample_read_dists", "sample_read_counts", "haplotypes", "log_frequencies", "llk_cache",
           "dosage", "dosage_p", "dosage_q", "gamete_p", "gamete_q", "constraint_p", "constraint_q", "dosage_log_frequencies")
    names = ("compound_step", "sample_step", "allele_step", "gibbs_probabilities", "metropolis_hastings_probabilities")
    gc = mcmc.compound_step.py_func.__globals__
    orig = {k: gc[k] for k in names}
    n_sweeps = 0
    for pi, P in enumerate(peds[:n_max]):
        if P["N"] < 2 or not (P["parents"] >= 0).any() or P["n"] < 2:
            continue
        stale = []

        def wrap(kind):
            real = orig[kind]
            sig_ = inspect.signature(real.py_func)

            def f_(*a, **kw):
                d = dict(sig_.bind(*a, **kw).arguments)
                out = real(*a, **kw)
                fresh_args = {k_: d[k_] for k_ in std}
                fresh_args["sample_genotypes"] = d["sample_genotypes"].copy()
                for k_ in ("dosage", "dosage_p", "dosage_q", "gamete_p", "gamete_q", "constraint_p", "constraint_q", "dosage_log_frequencies"):
                    fresh_args[k_] = np.zeros_like(d[k_])
                fresh_args["llk_cache"] = None if d["llk_cache"] is None else typed_cache()
                fresh = real(**fresh_args)
                a_, b_ = np.asarray(out, dtype=float), np.asarray(fresh, dtype=float)
                if a_.shape != b_.shape or not np.allclose(a_, b_, rtol=1e-9, atol=1e-12, equal_nan=True):
                    stale.append({"target": int(d["target_index"]), "slot": int(d["allele_index"]), "state": d["sample_genotypes"].tolist(),
                                  "used": a_.tolist(), "of_the_current_state": b_.tolist(), "kind": kind})
                return out
            return f_
        s2 = np.where(P["state"] < 0, -1, P["state"]).astype(np.int16)
        args = dict(sample_genotypes=s2, sample_ploidy=P["ploidy"], sample_parents=P["parents"], sample_children=P["children"],
                    gamete_tau=P["tau"], gamete_lambda=P["lam"], gamete_error=P["err"], sample_read_dists=P["reads"],
                    sample_read_counts=P["counts"], haplotypes=P["haps"], log_frequencies=logf_of(P), llk_cache=typed_cache(),
                    **scratch(P["mp"]))
        gc["sample_step"], gc["allele_step"] = orig["sample_step"].py_func, orig["allele_step"].py_func
        gc["gibbs_probabilities"], gc["metropolis_hastings_probabilities"] = wrap("gibbs_probabilities"), wrap("metropolis_hastings_probabilities")
        try:
            np.random.seed(1000 + pi)
            for sweep in range(3):
                try:
                    orig["compound_step"].py_func(step_type=pi % 2, **args)
                except (AssertionError, ValueError, ZeroDivisionError):
                    break
        finally:
            gc.update(orig)
        n_sweeps += 1
        chk.count("sweep-vectors"); chk.case(["sweep-vectors", pi], True)
        if stale:
            chk.violation("inside a sweep an allele is drawn from a vector that is not the Gibbs / MH vector of the state at that moment",
                          {**base_of(P), **stale[0], "n_updates_affected": len(stale)}, "C18/sweep/stale-vector")
        if n_sweeps >= max(5, n_max // 3):
            break

    # ---- PedigreeCallingMCMC.fit -> mcmc_sampler: the model's own pedigree, parameters, log prior frequencies, options
    from mchap.pedigree import classes as pcls
    gm = pcls.PedigreeCallingMCMC.fit.__globals__
    orig_m = gm["mcmc_sampler"]
    sig_m = inspect.signature(orig_m.py_func)
    for pi, P in enumerate(peds[:max(3, n_max // 4)]):
        calls = []

        def rec_m(*a, **kw):
            d = dict(sig_m.bind(*a, **kw).arguments)
            calls.append(d)
            k = len(calls)
            return np.full((int(d["n_steps"]), P["N"], P["mp"]), k, dtype=np.int16)
        flat = pi % 3 == 0
        st_name = "Gibbs" if pi % 2 == 0 else "Metropolis-Hastings"
        n_ch, steps, anneal, swap = 1 + pi % 3, 6, 2 + pi % 2, bool(pi % 4)
        init = np.where(P["state"] < 0, -1, P["state"]).astype(np.int16)
        gm["mcmc_sampler"] = rec_m
        try:
            model = pcls.PedigreeCallingMCMC(sample_ploidy=P["ploidy"], sample_inbreeding=np.zeros(P["N"]), sample_parents=P["parents"],
                                             gamete_tau=P["tau"], gamete_lambda=P["lam"], gamete_error=P["err"], haplotypes=P["haps"],
                                             frequencies=None if flat else P["freqs"], steps=steps, annealing=anneal, chains=n_ch,
                                             random_seed=3, step_type=st_name, swap_parental_alleles=swap)
            tr = model.fit(P["reads"], P["counts"], initial=init)
        finally:
            gm["mcmc_sampler"] = orig_m
        chk.count("fit-wiring")
        chk.case(["fit-wiring", pi], True)
        want_lf = np.log(np.full(P["n"], 1.0 / P["n"])) if flat else np.log(P["freqs"])
        passed = {"sample_ploidy": P["ploidy"], "sample_parents": P["parents"], "gamete_tau": P["tau"], "gamete_lambda": P["lam"],
                  "gamete_error": P["err"], "sample_read_dists": P["reads"], "sample_read_counts": P["counts"], "haplotypes": P["haps"],
                  "sample_genotypes": init}
        bad = None
        if len(calls) != n_ch:
            bad = "number of sampler runs (one per chain)"
        for k, d in enumerate(calls):
            for name, v in passed.items():
                w = d.get(name)
                if w is None or np.shape(w) != np.shape(v) or not np.array_equal(np.asarray(w), np.asarray(v), equal_nan=True):
                    bad = name
            lf = np.asarray(d.get("log_frequencies"))
            if lf.shape != want_lf.shape or not np.allclose(lf, want_lf, rtol=1e-12, atol=0):
                bad = "log_frequencies (log of the model's prior frequencies, flat when none are given)"
            if int(d["n_steps"]) != steps or int(d["annealing"]) != anneal or int(d["step_type"]) != (0 if st_name == "Gibbs" else 1) \
                    or bool(d["swap_parental_alleles"]) != swap:
                bad = "n_steps / annealing / step_type / swap_parental_alleles"
            if not (np.asarray(tr.genotypes[k]) == k + 1).all():
                bad = "trace (not what the chains returned, chain by chain)"
        if bad:
            chk.violation("PedigreeCallingMCMC.fit hands mcmc_sampler a wrong " + bad, {**base_of(P), "what": bad}, "C18/sampler/fit")


def run(tier, replay=None):
    from mchap.pedigree import mcmc, prior
    from mchap.pedigree.likelihood import log_likelihood_alleles_cached

    chk = C.Check(PROP, tier, MODULE, THEOREMS, RULE, exe=EXE, assumptions=[
        "float64 log-space evaluation is compared at rel 1e-9 (oracles 1e-8), not proved",
        "the current state has positive joint probability (states the sampler can be in)",
        "irreducibility / convergence is not claimed; the theorems are detailed balance and conditional exactness",
        "prob_accept of the swap is observed on .py_func (same source as the jitted function) with np.random forced; the jitted swap is "
        "run with numba's generator seeded and must match one of the index pairs of the .py_func table",
        "the joint of the model (trio function trioPmfCode) is the joint of the C17 specification (joint_code_eq_spec, via "
        "C17.trioCode_eq_spec) for well-formed trios (TrioWF)",
        "well-formedness hypotheses of ped_gibbs_is_conditional (parent genotypes of the right ploidy over the known alleles, tau <= ploidy, "
        "lambda in [0,1] and non-zero only for tau = 2, no individual its own parent) hold for every pedigree mchap accepts",
    ])
    chk.prove()
    drv = C.Driver(EXE)
    r = C.rng(PROP)
    rs = C.rng(PROP + ":draws")
    n_ped = {"warm": 3, "quick": 400, "thorough": 3000}[tier]
    names = sorted(templates())

    def logf_of(P):
        return np.log(P["freqs"])

    def impl_trio(P, st, i):
        p, q = P["parents"][i]
        ep, pp = (P["err"][i, 0], P["ploidy"][p]) if p >= 0 else (1.0, 0)
        eq, pq = (P["err"][i, 1], P["ploidy"][q]) if q >= 0 else (1.0, 0)
        return float(prior.trio_log_pmf(st[i], st[p], st[q], pp, pq, P["tau"][i, 0], P["tau"][i, 1], P["lam"][i, 0], P["lam"][i, 1],
                                        ep, eq, logf_of(P), **scratch(P["mp"])))

    def impl_llk(P, st, i):
        idx = P["counts"][i] > 0
        return float(log_likelihood_alleles_cached(P["reads"][i][idx], P["counts"][i][idx], P["haps"], i,
                                                   np.sort(st[i, :P["ploidy"][i]]), None))

    def impl_log_joint(P, st):
        return sum(impl_llk(P, st, i) + impl_trio(P, st, i) for i in range(P["N"]))

    def call_probs(f, P, st, t, k):
        st = st.copy()
        try:
            v = f(t, k, st, P["ploidy"], P["parents"], P["children"], P["tau"], P["lam"], P["err"], P["reads"], P["counts"],
                  P["haps"], logf_of(P), P["cache"], **scratch(P["mp"]))
        except (AssertionError, ValueError, ZeroDivisionError):
            return "err", st
        return [float(x) for x in v], st

    def nan_in_allele_pmf(P, st, t):
        """does gamete_allele_log_pmf return NaN for some (gamete count, parental count) reachable at target t?"""
        for j in range(2):
            par = int(P["parents"][t, j]); tau = int(P["tau"][t, j]); lam = float(P["lam"][t, j])
            if par < 0 or tau == 0 or (lam > 0 and tau != 2):
                continue
            pl = int(P["ploidy"][par])
            g = st[par, :pl].tolist()
            for x in range(P["n"]):
                for gc in range(1, tau + 1):
                    try:
                        v = float(prior.gamete_allele_log_pmf(gc, tau, g.count(x), pl, lam))
                    except (AssertionError, ValueError, ZeroDivisionError):
                        continue
                    if math.isnan(v):
                        return True
        return False

    def vec_tag(v):
        if isinstance(v, str):
            return v
        return "nan" if any(math.isnan(x) for x in v) else v

    def same_vec(impl, model):
        impl = vec_tag(impl)
        if isinstance(impl, str) or isinstance(model, str):
            return impl == model
        return len(impl) == len(model) and all(C.close(x, y, rel=1e-9, abs_=1e-12) for x, y in zip(impl, model))

    lines, meta, peds = [], [], []
    for i in range(n_ped):
        P = None
        for attempt in range(6):                                   # bounded: a current state of positive probability
            cand = directed_hexaploid(r) if (i % 37 == 5) else None
            if cand is None:
                cand = gen_pedigree(r, names[i % len(names)] if i < 2 * len(names) else None)
            cand["children"] = mcmc.sample_children_matrix(cand["parents"])
            if math.isfinite(impl_log_joint(cand, cand["state"])):
                P = cand
                break
        if P is None:
            chk.count("skipped:zero-probability-state")
            continue
        pi = len(peds); peds.append(P)
        toks = ped_tokens(P, P["state"])
        lines.append(" ".join(["ped.children"] + toks)); meta.append((pi, "children", None))
        for t in range(P["N"]):
            slots = list(range(P["ploidy"][t])); r.shuffle(slots)
            for k in (slots if P["name"] == "directed-hexaploid" else slots[:2]):
                for op in ("ped.gibbs", "ped.mh"):
                    lines.append(" ".join([op] + toks + [str(t), str(k)])); meta.append((pi, op, (t, k)))
        pairs, blankets = mcmc.parental_pair_markov_blankets(P["parents"], P["children"])
        P["pairs"] = pairs; P["blankets"] = blankets
        for j in range(len(pairs)):
            p, q = int(pairs[j, 0]), int(pairs[j, 1])
            for _ in range(3):
                ip, iq = r.randrange(P["ploidy"][p]), r.randrange(P["ploidy"][q])
                lines.append(" ".join(["ped.swap"] + toks + [str(p), str(q), str(ip), str(iq)])); meta.append((pi, "ped.swap", (j, ip, iq)))
    ans = drv.ask(lines)

    for (pi, op, arg), a, line in zip(meta, ans, lines):
        P = peds[pi]
        st = P["state"]
        base = {"pedigree": P["name"], "parents": P["parents"].tolist(), "tau": P["tau"].tolist(), "lambda": P["lam"].tolist(),
                "error": P["err"].tolist(), "genotypes": st.tolist(), "haplotypes": P["haps"].tolist(), "frequencies": P["freqs"].tolist(),
                "read_counts": P["counts"].tolist(),
                "reads": [[[[None if math.isnan(x) else x for x in row] for row in rd] for rd in s] for s in P["reads"].tolist()]}
        chk.count("ped=" + P["name"]); chk.count(op); chk.count("reads=" + ("informative" if P["informative"] else "nan"))
        chk.count("state=%s/pad%d" % (st.dtype.name, -1 if st.dtype == np.int16 else -2)); chk.count("cache=" + ("dict" if P["cache"] is not None else "None"))
        if P["permuted"]:
            chk.count("indices-permuted")
        if P["n"] == 1:
            chk.count("n_haps=1")
        if P["n_reads"] == 0:
            chk.count("n_reads=0")
        if P["multi"]:
            chk.count("multi-allelic-snv")
        if (P["lam"] == 1.0).any():
            chk.count("lambda=1-edge")
        if P["some_zero"]:
            chk.count("error:some-edges-zero")
        if op == "children":
            impl = "|".join(" ".join(str(int(x)) for x in row) for row in P["children"])
            chk.case(line, P["N"] > 1)
            if impl != a:
                chk.disagreement("sample_children_matrix != model", {**base, "impl": impl, "model": a})
            continue
        if op in ("ped.gibbs", "ped.mh"):
            t, k = arg
            f = mcmc.gibbs_probabilities if op == "ped.gibbs" else mcmc.metropolis_hastings_probabilities
            impl, after = call_probs(f, P, st, t, k)
            case = {**base, "target": t, "slot": k, "impl": impl, "model": a[:300]}
            related = (P["parents"][t] >= 0).any() or (P["children"].shape[1] > 0 and (P["children"][t] >= 0).any())
            chk.case(line, bool(related) and P["n"] >= 2, sample={"request": line[:240], "impl": impl, "model": a[:240]})
            if impl != "err" and (after != st).any():
                chk.violation(f"{op[4:]} probabilities: the genotype array is not restored", case, "C18/options/restore")
            tp_, tq_ = int(P["tau"][t, 0]), int(P["tau"][t, 1])
            chk.count("target-tau=" + ("balanced" if tp_ == tq_ else "unbalanced"))
            if pi % 7 == 0:
                ipy, _ = call_probs(f.py_func, P, st, t, k)
                if not same_vec(ipy, vec_tag(impl)):
                    chk.disagreement(f"{op} jitted != py_func", {**case, "py": ipy})
            if op == "ped.gibbs":
                parts = a.split(";")
                model = parts[0] if parts[0] in ("err", "nan") else [float(C.parse_rat(x)) for x in parts[0].split()]
                if not same_vec(impl, model):
                    chk.disagreement("gibbs_probabilities != model", case)
                if len(parts) == 2 and parts[0] != parts[1]:
                    chk.disagreement("model: Gibbs with the code-form trio functions != with the specification-level ones", case)
                if impl == "err":
                    if model != "err":
                        if nan_in_allele_pmf(P, st, t):
                            chk.violation("gibbs_probabilities raises: gamete_allele_log_pmf returns NaN (negative 'available' count for a "
                                          "gamete that exceeds the parental copies) for a candidate state", case, "C18/gibbs/nan-assert")
                        else:
                            chk.violation("gibbs_probabilities raises on a well-formed pedigree state", case, "C18/gibbs/raises")
                    continue
                # ---- oracle: exact full conditional of the joint (implementation's own pmf and likelihood)
                ljs = []
                for x in range(P["n"]):
                    s2 = st.copy(); s2[t, k] = x
                    ljs.append((impl_log_joint(P, s2), fact_prod(s2[t, :P["ploidy"][t]].tolist())))
                m_ = max((lj for lj, _ in ljs if math.isfinite(lj)), default=0.0)      # (deep data: weights relative to the largest)
                ws = [math.exp(lj - m_) * fpx if math.isfinite(lj) else 0.0 for lj, fpx in ljs]
                tot = sum(ws)
                if tot > 0 and vec_tag(impl) == "nan" and not isinstance(model, str):
                    chk.violation("Gibbs vector is NaN although the full conditional of the joint pedigree posterior exists",
                                  {**case, "exact_conditional": [w / tot for w in ws]}, "C18/gibbs/conditional")
                if tot > 0 and not isinstance(vec_tag(impl), str):
                    dev = max(abs(impl[x] - ws[x] / tot) for x in range(P["n"]))
                    if not (dev <= 1e-8):
                        sig = "C18/gibbs/unbalanced-tau" if tp_ != tq_ else "C18/gibbs/conditional"
                        chk.violation("Gibbs vector is not the exact full conditional of the joint pedigree posterior"
                                      + (" (target has tau_p != tau_q)" if tp_ != tq_ else ""),
                                      {**case, "exact_conditional": [w / tot for w in ws], "max_abs_dev": dev}, sig)
            else:
                model = a if a in ("err", "nan") else [float(C.parse_rat(x)) for x in a.split()]
                if not same_vec(impl, model):
                    chk.disagreement("metropolis_hastings_probabilities != model", case)
                if isinstance(vec_tag(impl), str):
                    continue
                cur = int(st[t, k])
                if not (abs(sum(impl) - 1.0) <= 1e-9) or not (min(impl) >= -1e-12):
                    chk.violation("MH vector is not a probability vector", case, "C18/mh/sum")
                lj_cur = impl_log_joint(P, st)
                for x in range(P["n"]):
                    if x == cur:
                        continue
                    s2 = st.copy(); s2[t, k] = x
                    lj = impl_log_joint(P, s2)
                    if not math.isfinite(lj):
                        if impl[x] != 0.0:
                            chk.violation("MH moves to a zero-probability state", {**case, "allele": x}, "C18/mh/zero-posterior")
                        continue
                    back, _ = call_probs(f, P, s2, t, k)
                    if isinstance(vec_tag(back), str):
                        continue
                    # flows relative to the larger of the two joints (deep data: the joints themselves underflow)
                    m_ = max(lj_cur, lj)
                    fa = math.exp(lj_cur - m_) * fact_prod(st[t, :P["ploidy"][t]].tolist()) * impl[x] if math.isfinite(lj_cur) else 0.0
                    fb = math.exp(lj - m_) * fact_prod(s2[t, :P["ploidy"][t]].tolist()) * back[cur]
                    if not (fa == fa and fb == fb) or (max(fa, fb) > 1e-280 and abs(fa - fb) > 1e-8 * max(fa, fb)):   # NaN flows fail too
                        chk.violation("MH move violates detailed balance w.r.t. the joint pedigree posterior",
                                      {**case, "allele": x, "pi*K_forward": fa, "pi*K_backward": fb}, "C18/mh/db")
                        break
            continue
        # ------------------------------------------------------------------ swap
        j, ip, iq = arg
        p, q = int(P["pairs"][j, 0]), int(P["pairs"][j, 1])
        s2 = st.copy()
        umode = rs.choice(["reject", "accept", "uniform"])
        u = {"reject": 2.0, "accept": 0.0}.get(umode, rs.random())
        orig_np = mcmc.np
        mcmc.np = _NP(orig_np, [ip, iq], u)
        acc = None
        try:
            try:
                pa, acc = mcmc.pair_allele_swap_step.py_func(p, q, P["blankets"][j], s2, P["ploidy"], P["parents"], P["tau"], P["lam"],
                                                             P["err"], P["reads"], P["counts"], P["haps"], logf_of(P), P["cache"],
                                                             **scratch(P["mp"]))
                impl = "none" if (isinstance(pa, float) and math.isnan(pa)) else float(pa)
            except (AssertionError, ValueError, ZeroDivisionError):
                impl = "err"
        finally:
            mcmc.np = orig_np
        chk.case(line, P["n"] >= 2 and st[p, ip] != st[q, iq], sample={"request": line[:240], "impl": impl, "model": a})
        case = {**base, "p": p, "q": q, "index_p": ip, "index_q": iq, "impl": impl, "model": a, "uniform_draw": u}
        chk.count("swap:" + ("selfing" if p == q else "pair")); chk.count("swap:draw=" + umode)
        swapped = st.copy(); swapped[p, ip] = st[q, iq]; swapped[q, iq] = st[p, ip]      # the two assignments of the code, in its order
        if isinstance(impl, float):
            want_acc = u < impl
            chk.count("swap:" + ("accepted" if want_acc else "rejected"))
            if bool(acc) != want_acc:
                chk.violation("swap decision differs from (uniform draw < prob_accept)", {**case, "accept": bool(acc)}, "C18/swap/decision")
            elif want_acc and (s2 != swapped).any():
                chk.violation("an accepted swap does not leave the two alleles exchanged (and everything else as it was)",
                              {**case, "after": s2.tolist()}, "C18/swap/accept-state")
            elif not want_acc and (s2 != st).any():
                chk.violation("a rejected swap does not restore the genotypes", {**case, "after": s2.tolist()}, "C18/swap/restore")
        elif (s2 != st).any():
            chk.violation("a swap step without a proposal (or one that raised) changed the genotypes", {**case, "after": s2.tolist()},
                          "C18/swap/restore")
        if a in ("none", "err", "nan"):
            if impl != a and not (a == "nan" and isinstance(impl, float) and math.isnan(impl)):
                chk.disagreement("pair_allele_swap_step prob_accept != model", case)
            continue
        mparts = a.split()
        mval = float(C.parse_rat(mparts[0]))
        if isinstance(impl, str) or not C.close(impl, mval, rel=1e-9, abs_=1e-12):
            chk.disagreement("pair_allele_swap_step prob_accept != model", case)
        bl = [int(x) for x in P["blankets"][j] if x >= 0]
        if bl != [int(x) for x in mparts[1:]]:
            chk.disagreement("parental_pair_markov_blankets row != model", {**case, "impl_blanket": bl})
        if isinstance(impl, str):
            continue
        # ---- oracle: exact Metropolis ratio on ordered states (symmetric proposal of two slot indices)
        s3 = st.copy(); s3[p, ip] = st[q, iq]; s3[q, iq] = st[p, ip] if p != q else st[p, ip]
        if p == q:
            s3 = st.copy(); a_, b_ = st[p, ip], st[p, iq]; s3[p, ip] = b_; s3[p, iq] = a_
        l0, l1 = impl_log_joint(P, st), impl_log_joint(P, s3)
        if not math.isfinite(l0):
            continue
        fp = lambda s: math.prod(fact_prod(s[i, :P["ploidy"][i]].tolist()) for i in {p, q})
        ratio = (math.exp(min(l1 - l0, 700.0)) * fp(s3) / fp(st)) if math.isfinite(l1) else 0.0     # (deep data: the ratio is capped at 1 anyway)
        exact = min(1.0, ratio)
        if not C.close(impl, exact, rel=1e-8, abs_=1e-12):
            masks_differ = ((P["counts"][p] > 0) != (P["counts"][q] > 0)).any()
            sig = "C18/swap/read-mask" if masks_differ else "C18/swap/accept"
            chk.violation("swap acceptance probability is not the Metropolis ratio of the joint pedigree posterior"
                          + (" (parents have different sets of counted reads)" if masks_differ else ""),
                          {**case, "exact": exact}, sig)
    # ------------------------------------------------------------------ the step functions themselves (random choices forced / seeded)
    from mchap.jitutils import seed_numba
    rq = C.rng(PROP + ":steps")
    n_sel = min(len(peds), {"warm": 2, "quick": 150, "thorough": 1500}[tier])
    sel = rq.sample(range(len(peds)), n_sel) if peds else []

    def step_args(P, s2, cache):
        return dict(sample_genotypes=s2, sample_ploidy=P["ploidy"], sample_parents=P["parents"], sample_children=P["children"],
                    gamete_tau=P["tau"], gamete_lambda=P["lam"], gamete_error=P["err"], sample_read_dists=P["reads"],
                    sample_read_counts=P["counts"], haplotypes=P["haps"], log_frequencies=logf_of(P), llk_cache=cache, **scratch(P["mp"]))

    def base_of(P):
        return {"pedigree": P["name"], "parents": P["parents"].tolist(), "tau": P["tau"].tolist(), "lambda": P["lam"].tolist(),
                "error": P["err"].tolist(), "genotypes": P["state"].tolist(), "haplotypes": P["haps"].tolist(),
                "frequencies": P["freqs"].tolist(), "read_counts": P["counts"].tolist(),
                "reads": [[[[None if math.isnan(x) else x for x in row] for row in rd] for rd in s_] for s_ in P["reads"].tolist()]}

    for pi in sel:
        P = peds[pi]
        st = P["state"]
        t = rq.randrange(P["N"]); k = rq.randrange(int(P["ploidy"][t])); step_type = rq.choice([0, 1])
        f = mcmc.gibbs_probabilities if step_type == 0 else mcmc.metropolis_hastings_probabilities
        vec, _ = call_probs(f, P, st, t, k)
        case = {**base_of(P), "target": t, "slot": k, "step_type": step_type, "vector": vec}
        chk.case(["allele_step", pi, t, k, step_type], P["n"] >= 2)
        if not isinstance(vec_tag(vec), str):
            support = [x for x in range(P["n"]) if vec[x] > 0]
            forced = rq.choice(support) if support else 0
            seen = []

            def forced_choice(probabilities, _seen=seen, _c=forced):
                _seen.append([float(x) for x in probabilities])
                return _c

            s2 = st.copy()
            orig_rc = mcmc.random_choice
            mcmc.random_choice = forced_choice
            ok = True
            try:
                try:
                    mcmc.allele_step.py_func(target_index=t, allele_index=k, step_type=step_type, **step_args(P, s2, P["cache"]))
                except (AssertionError, ValueError, ZeroDivisionError) as e:
                    ok = False
                    chk.violation("allele_step raises where the probability vector of the same move is defined: %r" % (e,), case,
                                  "C18/allele_step/raises")
            finally:
                mcmc.random_choice = orig_rc
            chk.count("allele_step:forced"); chk.count("allele_step:type=%d" % step_type)
            if ok:
                want = st.copy(); want[t, k] = forced
                if len(seen) != 1 or not same_vec(seen[0], vec):
                    chk.violation("allele_step draws the new allele from a vector other than the Gibbs / MH vector of that slot",
                                  {**case, "drawn_from": seen}, "C18/allele_step/vector")
                if (s2 != want).any():
                    chk.violation("allele_step changes something other than writing the drawn allele to slot [target, allele_index]",
                                  {**case, "drawn": forced, "after": s2.tolist()}, "C18/allele_step/state")
                else:
                    chk.count("allele_step:moved" if forced != st[t, k] else "allele_step:stayed")
            # the jitted function, numba's generator seeded: only that slot may change, and only to an allele of positive probability
            s3 = st.copy()
            seed_numba(rq.randrange(2 ** 31))
            try:
                mcmc.allele_step(target_index=t, allele_index=k, step_type=step_type, **step_args(P, s3, P["cache"]))
                diff = np.argwhere(s3 != st)
                if any((int(a), int(b)) != (t, k) for a, b in diff) or not (0 <= int(s3[t, k]) < P["n"]) or not (vec[int(s3[t, k])] > 0):
                    chk.violation("jitted allele_step changed another slot or moved to an allele of probability zero",
                                  {**case, "after": s3.tolist()}, "C18/allele_step/state")
                chk.count("allele_step:jitted")
            except (AssertionError, ValueError, ZeroDivisionError) as e:
                chk.violation("jitted allele_step raises where the probability vector of the same move is defined: %r" % (e,), case,
                              "C18/allele_step/raises")
        # sample_step / compound_step: every slot of the target once, every individual once, in the shuffled order
        pl = int(P["ploidy"][t])
        perm = list(range(pl)); rq.shuffle(perm)
        visits = []
        orig_np, orig_as = mcmc.np, mcmc.allele_step
        mcmc.np = _NP(orig_np, [], perm=np.array(perm))
        handed = []
        mcmc.allele_step = lambda **kw: (visits.append((int(kw["target_index"]), int(kw["allele_index"]), int(kw["step_type"]))),
                                         handed.append(kw))
        try:
            s2 = st.copy()
            given = step_args(P, s2, P["cache"])
            mcmc.sample_step.py_func(target_index=t, step_type=step_type, **given)
        finally:
            mcmc.np, mcmc.allele_step = orig_np, orig_as
        chk.count("sample_step")
        wrong = sorted({k_ for kw in handed for k_, v in given.items() if kw.get(k_) is not v and not (
            isinstance(v, np.ndarray) and isinstance(kw.get(k_), np.ndarray) and k_ not in ("sample_genotypes",) and v.shape == kw[k_].shape
            and np.array_equal(v, kw[k_], equal_nan=v.dtype.kind == "f"))})
        if wrong:
            chk.violation("sample_step hands allele_step arguments that are not the ones it was called with: " + ", ".join(wrong),
                          {**case, "arguments": wrong}, "C18/sample_step/arguments")
        if visits != [(t, x, step_type) for x in perm]:
            chk.violation("sample_step does not update every allele slot of the target exactly once in the shuffled order",
                          {**case, "shuffled_order": perm, "visited": visits}, "C18/sample_step/slots")
        permN = list(range(P["N"])); rq.shuffle(permN)
        visits = []
        orig_np, orig_ss = mcmc.np, mcmc.sample_step
        mcmc.np = _NP(orig_np, [], perm=np.array(permN))
        handed = []
        mcmc.sample_step = lambda **kw: (visits.append((int(kw["target_index"]), int(kw["step_type"]))), handed.append(kw))
        try:
            s2 = st.copy()
            given = step_args(P, s2, P["cache"])
            mcmc.compound_step.py_func(step_type=step_type, **given)
        finally:
            mcmc.np, mcmc.sample_step = orig_np, orig_ss
        chk.count("compound_step")
        wrong = sorted({k_ for kw in handed for k_, v in given.items() if kw.get(k_) is not v and not (
            isinstance(v, np.ndarray) and isinstance(kw.get(k_), np.ndarray) and k_ not in ("sample_genotypes",) and v.shape == kw[k_].shape
            and np.array_equal(v, kw[k_], equal_nan=v.dtype.kind == "f"))})
        if wrong:
            chk.violation("compound_step hands sample_step arguments that are not the ones it was called with: " + ", ".join(wrong),
                          {**case, "arguments": wrong}, "C18/compound_step/arguments")
        if visits != [(x, step_type) for x in permN]:
            chk.violation("compound_step does not update every individual exactly once in the shuffled order",
                          {**case, "shuffled_order": permN, "visited": visits}, "C18/compound_step/targets")
        # ---- the jitted pair_allele_swap_step on production types (int16 genotypes padded with -1, dict cache)
        st16 = np.where(st < 0, -1, st).astype(np.int16)
        for j in range(min(2, len(P["pairs"]))):
            p, q = int(P["pairs"][j, 0]), int(P["pairs"][j, 1])
            plp, plq = int(P["ploidy"][p]), int(P["ploidy"][q])
            if plp * plq > 36:
                continue
            table = {}
            for ip in range(plp):
                for iq in range(plq):
                    s2 = st16.copy()
                    orig_np = mcmc.np
                    mcmc.np = _NP(orig_np, [ip, iq], 2.0)
                    try:
                        try:
                            pa, _acc = mcmc.pair_allele_swap_step.py_func(p, q, P["blankets"][j], s2, P["ploidy"], P["parents"], P["tau"],
                                                                          P["lam"], P["err"], P["reads"], P["counts"], P["haps"], logf_of(P),
                                                                          None, **scratch(P["mp"]))
                            table[(ip, iq)] = float(pa)
                        except (AssertionError, ValueError, ZeroDivisionError):
                            table[(ip, iq)] = "err"
                    finally:
                        mcmc.np = orig_np
            if any(isinstance(v, str) for v in table.values()):
                chk.count("swap-jitted:skipped-raises")
                continue
            s2 = st16.copy()
            cache = typed_cache()
            seed_numba(rq.randrange(2 ** 31))
            case = {**base_of(P), "p": p, "q": q, "prob_accept_by_index_pair": {"%d,%d" % k_: v for k_, v in table.items()}}
            chk.case(["swap-jitted", pi, j], P["n"] >= 2)
            try:
                pa, acc = mcmc.pair_allele_swap_step(p, q, P["blankets"][j], s2, P["ploidy"], P["parents"], P["tau"], P["lam"], P["err"],
                                                     P["reads"], P["counts"], P["haps"], logf_of(P), cache, **scratch(P["mp"]))
            except (AssertionError, ValueError, ZeroDivisionError) as e:
                chk.violation("jitted pair_allele_swap_step raises although every index pair is evaluated without error: %r" % (e,), case,
                              "C18/swap/jitted")
                continue
            pa = float(pa); acc = bool(acc)
            chk.count("swap-jitted"); chk.count("swap-jitted:" + ("no-proposal" if math.isnan(pa) else "accepted" if acc else "rejected"))
            changed = bool((s2 != st16).any())
            good = False
            if not changed:
                # no proposal (equal alleles) or a rejection: the value must belong to some index pair; an acceptance that leaves
                # the state as it was is only possible for a selfed pair exchanging within one genotype
                good = any((math.isnan(v) and math.isnan(pa) and not acc) or
                           (not math.isnan(v) and (not acc or p == q) and C.close(pa, v, rel=1e-9, abs_=1e-12)) for v in table.values())
            elif acc:
                for (ip, iq), v in table.items():
                    want = st16.copy(); want[p, ip] = st16[q, iq]; want[q, iq] = st16[p, ip]
                    if not math.isnan(v) and v > 0 and not (want != s2).any() and C.close(pa, v, rel=1e-9, abs_=1e-12):
                        good = True
                        break
            if not good:
                chk.violation("jitted pair_allele_swap_step (int16 genotypes, dict cache): the returned probability / decision / resulting "
                              "genotypes match no pair of allele indices", {**case, "prob_accept": pa, "accept": acc, "after": s2.tolist()},
                              "C18/swap/jitted")
            # the cache it filled must hold the likelihoods of the genotypes it names
            for (smp, gi), v in cache.items():
                if smp < 0:
                    continue
                for cand in (st16, s2):
                    g = np.sort(cand[smp, :int(P["ploidy"][smp])]).astype(np.int64)
                    from mchap.jitutils import genotype_alleles_as_index
                    if int(genotype_alleles_as_index(g)) == int(gi):
                        tmp = cand.astype(np.int64)
                        if not C.close(float(v), impl_llk(P, tmp, int(smp)), rel=1e-9, abs_=0.0) and not (v == impl_llk(P, tmp, int(smp))):
                            chk.violation("the likelihood cache filled by the swap step holds a value that is not the likelihood of that "
                                          "sample's genotype", {**case, "sample": int(smp), "genotype": g.tolist(), "cached": float(v)},
                                          "C18/swap/cache")
                        break
    check_sampler_wiring(chk, mcmc, peds, {"warm": 3, "quick": 120, "thorough": 10 ** 9}[tier], logf_of, base_of)
    sigs = {}
    for v in chk.violations:
        sigs[v["signature"]] = sigs.get(v["signature"], 0) + 1
    chk.extra["violation_signatures"] = sigs
    return chk.finish()
