"""Single source of truth for MANIFEST.json (bin/mkmanifest.py)."""

_NOTE = ("Trusted: Lean 4.33 kernel + Mathlib (axioms propext, Classical.choice, Quot.sound only, audited each run); "
         "the hand-written model is tied to the code only by this run's differential correspondence; "
         "float rounding, numba and RNG streams are modelled, not verified. ")

CHECKS = {
    "C11": {
        "text": "Lean theorems over the model of jitutils' binomial / index functions: exactness of the gcd-reduced binomial, "
                "absence of int64 overflow whenever N < 2^53, index = position in the VCF ordering, bijection onto 0..N-1, "
                "decode/encode inverses, enumerator = VCF order; model tied to the jitted code by differential runs inside and beyond the tables.",
        "design_ref": "DESIGN.md section 4, C11",
        "note": _NOTE + "The 100x12 lookup tables are compared, not proved (they are filled by the same function at import).",
        "technique": "Lean 4 proof (induction on the combinatorial number system) + differential correspondence with the jitted functions",
    },
}

NOT_APPLICABLE = {}
