"""Single source of truth for MANIFEST.json (bin/mkmanifest.py)."""

_NOTE = ("Trusted: Lean 4.33 kernel + Mathlib (axioms propext, Classical.choice, Quot.sound only, audited each run); "
         "the hand-written model is tied to the code only by this run's differential correspondence; "
         "float rounding, numba and RNG streams are modelled, not verified. ")

CHECKS = {
    "C11": {
        "text": "Lean theorems over the model of jitutils' binomial / index functions: exactness of the gcd-reduced binomial, "
                "absence of int64 overflow whenever N < 2^53, index = position in the VCF ordering, bijection onto 0..N-1, "
                "decode/encode inverses, enumerator = VCF order; model tied to the jitted code by differential runs inside and beyond the tables.",
        "design_ref": "DESIGN.md section 4, C11",
        "note": _NOTE + "The 100x12 lookup tables are compared, not proved (they are filled by the same function at import).",
        "technique": "Lean 4 proof (induction on the combinatorial number system) + differential correspondence with the jitted functions",
    },
}

CHECKS["C04"] = {
    "text": "Lean theorems over the exact-rational model of the mixture likelihood: invariance under haplotype and read permutations, "
            "count k == k copies, zero-count neutrality, rearrangement-by-indirection == likelihood of the rearranged genotype, NaN cells are "
            "factor one, and the log-space value is log(lik); model tied to log_likelihood / log_likelihood_structural_change / "
            "log_likelihood_alleles (jitted and py_func) by differential runs at 1e-9.",
    "design_ref": "DESIGN.md section 4, C04",
    "note": _NOTE + "A zero-probability read with count 0 (NaN in the code) is outside the generated domain of the assemble/calling path.",
    "technique": "Lean 4 proof (list permutation / product algebra over Rat, Real.log link) + differential correspondence + metamorphic oracles",
}
CHECKS["C05"] = {
    "text": "Lean theorems: Chu-Vandermonde for rising factorials and the binomial analogue give sum-to-one of the Dirichlet-multinomial / multinomial "
            "prior over all count vectors for every ploidy, allele number, F in [0,1) and frequency vector (zeros allowed); the single-allele prior is "
            "the exact urn conditional; unordered pmf = #orderings x ordered pmf; assemble prior invariances; Gamma-ratio = rising factorial. Model tied to "
            "the three prior functions by exhaustive enumeration of small genotype spaces at 1e-9.",
    "design_ref": "DESIGN.md section 4, C05",
    "note": _NOTE + "lgamma/log/exp evaluation is compared, not proved; assemble==call(flat) is proved on instances and checked by correspondence in general.",
    "technique": "Lean 4 proof (Chu-Vandermonde by antidiagonal induction, convolution over compositions, Polya urn) + exhaustive differential correspondence",
}

CHECKS["C01"] = {
    "text": "Lean theorems: detailed balance of the single-slot MH move with the haplotype-copy-count proposal ratio for every positive weight "
            "(hence every read set, prior, inbreeding and inverse temperature), tied to the model's kernel with real-power tempering; generic "
            "path-wise detailed balance instantiated for the recombination and dosage moves on multisets of segment pairs (return count never zero); "
            "exchange detailed balance; the posterior weight is a function of the multiset of haplotypes; DB => stationarity. The model kernel "
            "(options, exact R and Q) is tied to base_step / interval_step / chain_swap_acceptance by comparing the full map "
            "{unordered result -> probability} at 1e-9; the implementation oracle extracts the whole transition matrix on enumerated instances.",
    "design_ref": "DESIGN.md section 4, C01",
    "note": _NOTE + "The refinement of the literal option enumerators to the abstract path sets is covered by the correspondence and the "
            "implementation oracle, not by a theorem; the kernel is observed on .py_func with random_choice replaced; ergodicity is not claimed.",
    "technique": "Lean 4 proof (factorial-product swap lemma, MH core, path-wise reversal bijection, rpow algebra) + kernel-level differential correspondence",
}
CHECKS["C02"] = {
    "text": "Lean theorems: the Gibbs vector is the exact full conditional of likelihood x Polya-urn probability on ordered allele sequences "
            "(hence reversible), the call-exact weight is #orderings x that ordered weight, the MH variant satisfies detailed balance with the "
            "allele-copy-count ratio, sorting leaves the weight unchanged; model tied to gibbs_options / mh_options (jitted and py_func) at 1e-9.",
    "design_ref": "DESIGN.md section 4, C02",
    "note": _NOTE + "Stated for F > 0 with explicit frequencies (flat / F = 0 are covered by C05's closed forms and by the correspondence); "
            "states of zero prior probability are excluded (unreachable).",
    "technique": "Lean 4 proof (urn conditional from C05, MH lemma from C01) + differential correspondence + exact-conditional oracle",
}
CHECKS["C03"] = {
    "text": "Lean theorems: GP sums to one; entry i is likelihood x prior of the i-th genotype of the VCF ordering, normalised; np.argmax = first maximum; "
            "the streaming pass (strict > and running sum) and the full-array pass report the same genotype index and probability in exact arithmetic. "
            "Model tied to posterior_mode and the array functions; SPM/AFP/ACP/AOP checked against an independent Fraction posterior.",
    "design_ref": "DESIGN.md section 4, C03",
    "note": _NOTE + "float32 storage on the GP/GL path is named runtime behaviour (2e-5; mode compared only when the top-two margin exceeds it); "
            "general sum theorems for AFP/ACP and GPM<=SPM<=1 are proved on an instance only and checked on the implementation.",
    "technique": "Lean 4 proof (first-maximum invariants of two folds, C11 enumeration order) + differential correspondence + CLI report-subset comparison",
}

CHECKS["C15"] = {
    "text": "Lean theorems: the (haplotype, SNV) sub-step table contains every pair exactly once for every ploidy and number of SNVs and any shuffle "
            "keeps that (with the machine-checked counter-example for the former int8 table); for every sequence of draws random_breaks yields "
            "breaks+1 contiguous non-empty intervals from 0 to n; a site is fixed iff some homozygosity probability reaches the threshold; template "
            "re-insertion puts every fixed allele and every sampled column in the right place. Model tied to compound_step (recorder under py_func and a "
            "jitted forcing read set up to 300 SNVs), random_breaks (forced draws), _homozygosity_probabilities and DenovoMCMC.fit (marker trace).",
    "design_ref": "DESIGN.md section 4, C15",
    "note": _NOTE + "np.random.shuffle is trusted to permute rows; thresholds within 1e-9 of a probability are excluded from comparison.",
    "technique": "Lean 4 proof (list permutation / nodup reasoning, sorted-insert invariants, structural induction on the fixing pattern) + differential correspondence",
}

CHECKS["C09"] = {
    "text": "Lean theorems: (trie) a well-formed arraymap IS a finite map: set refines old[key := v] through every combination of node allocation, tree growth, "
            "value-slot allocation and value-array growth, or yields a well-formed empty map on overflow; get returns the represented value with NaN as miss; "
            "every history of stores of f(key) from a new map of any size stays coherent; (abstract) for every history of cached-wrapper calls with "
            "arbitrary store / flush outcomes every served value equals the fresh value; (sampler) the carried likelihood equals f(genotype) after every "
            "move and exchange. Tied to the code by get/set histories with forced growth and flushes against the model, jitted trace recomputation, cache "
            "on/off trajectories, and monitors on every cached wrapper of the three samplers run as plain Python.",
    "design_ref": "DESIGN.md section 4, C09",
    "note": _NOTE + "Array bounds (no out-of-range index) are checked at run time by the driver, not proved; sampler-level claims are observed on the "
            "real samplers, the abstract theorems explain why they hold.",
    "technique": "Lean 4 proof (trie invariant by induction on the key, history induction over an abstract cache) + operation-sequence correspondence + monitored sampler runs",
}

NOT_APPLICABLE = {}
