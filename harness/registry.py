"""Single source of truth for MANIFEST.json (bin/mkmanifest.py)."""

_NOTE = ("Trusted: Lean 4.33 kernel + Mathlib (axioms propext, Classical.choice, Quot.sound only, audited each run); "
         "the hand-written model is tied to the code only by this run's differential correspondence; "
         "float rounding, numba and RNG streams are modelled, not verified. ")

CHECKS = {
    "C11": {
        "text": "Lean theorems over the model of jitutils' binomial / index functions: exactness of the gcd-reduced binomial, "
                "absence of int64 overflow whenever N < 2^53, index = position in the VCF ordering, bijection onto 0..N-1, "
                "decode/encode inverses, enumerator = VCF order; model tied to the jitted code by differential runs inside and beyond the tables.",
        "design_ref": "DESIGN.md section 4, C11",
        "note": _NOTE + "The 100x12 lookup tables are compared, not proved (they are filled by the same function at import).",
        "technique": "Lean 4 proof (induction on the combinatorial number system) + differential correspondence with the jitted functions",
    },
}

CHECKS["C04"] = {
    "text": "Lean theorems over the exact-rational model of the mixture likelihood: invariance under haplotype and read permutations, "
            "count k == k copies, zero-count neutrality, rearrangement-by-indirection == likelihood of the rearranged genotype, NaN cells are "
            "factor one, and the log-space value is log(lik); model tied to log_likelihood / log_likelihood_structural_change / "
            "log_likelihood_alleles (jitted and py_func) by differential runs at 1e-9.",
    "design_ref": "DESIGN.md section 4, C04",
    "note": _NOTE + "A zero-probability read with count 0 (NaN in the code) is outside the generated domain of the assemble/calling path.",
    "technique": "Lean 4 proof (list permutation / product algebra over Rat, Real.log link) + differential correspondence + metamorphic oracles",
}
CHECKS["C05"] = {
    "text": "Lean theorems: Chu-Vandermonde for rising factorials and the binomial analogue give sum-to-one of the Dirichlet-multinomial / multinomial "
            "prior over all count vectors for every ploidy, allele number, F in [0,1) and frequency vector (zeros allowed); the single-allele prior is "
            "the exact urn conditional; unordered pmf = #orderings x ordered pmf; assemble prior invariances; Gamma-ratio = rising factorial. Model tied to "
            "the three prior functions by exhaustive enumeration of small genotype spaces at 1e-9.",
    "design_ref": "DESIGN.md section 4, C05",
    "note": _NOTE + "lgamma/log/exp evaluation is compared, not proved; assemble==call(flat) is proved on instances and checked by correspondence in general.",
    "technique": "Lean 4 proof (Chu-Vandermonde by antidiagonal induction, convolution over compositions, Polya urn) + exhaustive differential correspondence",
}

NOT_APPLICABLE = {}
