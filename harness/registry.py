"""Single source of truth for MANIFEST.json (bin/mkmanifest.py)."""

_NOTE = ("Trusted: Lean 4.33 kernel + Mathlib (axioms propext, Classical.choice, Quot.sound only, audited each run); "
         "the hand-written model is tied to the code only by this run's differential correspondence; "
         "float rounding, numba and RNG streams are modelled, not verified. ")

CHECKS = {
    "C11": {
        "text": "Lean theorems over the model of jitutils' binomial / index functions: exactness of the gcd-reduced binomial, "
                "absence of int64 overflow whenever N < 2^53, index = position in the VCF ordering, bijection onto 0..N-1, "
                "decode/encode inverses, enumerator = VCF order; model tied to the jitted code by differential runs inside and beyond the tables.",
        "design_ref": "DESIGN.md section 4, C11",
        "note": _NOTE + "The 100x12 lookup tables: every entry of the model's tables is proved exact (combTable_exact, cwrTable_exact; table path == loop path) and every entry of the implementation's two tables is compared with the exact value on each run.",
        "technique": "Lean 4 proof (induction on the combinatorial number system) + differential correspondence with the jitted functions",
    },
}

CHECKS["C04"] = {
    "text": "Lean theorems over the exact-rational model of the mixture likelihood: invariance under haplotype and read permutations, "
            "count k == k copies, zero-count neutrality, rearrangement-by-indirection == likelihood of the rearranged genotype, NaN cells are "
            "factor one, and the log-space value is log(lik); model tied to log_likelihood / log_likelihood_structural_change / "
            "log_likelihood_alleles (jitted and py_func) by differential runs at 1e-9.",
    "design_ref": "DESIGN.md section 4, C04",
    "note": _NOTE + "A zero-probability read with count 0 (NaN in the code) is outside the generated domain of the assemble/calling path.",
    "technique": "Lean 4 proof (list permutation / product algebra over Rat, Real.log link) + differential correspondence + metamorphic oracles",
}
CHECKS["C05"] = {
    "text": "Lean theorems: Chu-Vandermonde for rising factorials and the binomial analogue give sum-to-one of the Dirichlet-multinomial / multinomial "
            "prior over all count vectors for every ploidy, allele number, F in [0,1) and frequency vector (zeros allowed); the single-allele prior is "
            "the exact urn conditional; unordered pmf = #orderings x ordered pmf; assemble prior invariances; Gamma-ratio = rising factorial. Model tied to "
            "the three prior functions by exhaustive enumeration of small genotype spaces at 1e-9.",
    "design_ref": "DESIGN.md section 4, C05",
    "note": _NOTE + "lgamma/log/exp evaluation is compared, not proved; that get_haplotype_dosage yields the multiplicities (a permutation of the count vector plus zeros) is checked by correspondence.",
    "technique": "Lean 4 proof (Chu-Vandermonde by antidiagonal induction, convolution over compositions, Polya urn) + exhaustive differential correspondence",
}

CHECKS["C01"] = {
    "text": "Lean theorems: detailed balance of the single-slot MH move with the haplotype-copy-count proposal ratio for every positive weight "
            "(hence every read set, prior, inbreeding and inverse temperature), tied to the model's kernel with real-power tempering; generic "
            "path-wise detailed balance instantiated for the recombination and dosage moves on multisets of segment pairs (return count never zero) and "
            "carried to the literal kernels of the model (segment labels by first occurrence, double-loop option enumerators, structural_change, "
            "return count on the option's label array): dosage_step_kernel_db / recomb_step_kernel_db hold for every ploidy, locus length, interval, "
            "duplication pattern and temperature, and the kernel mass is independent of the stored row order; "
            "exchange detailed balance; the posterior weight is a function of the multiset of haplotypes; DB => stationarity. The model kernel "
            "(options, exact R and Q) is tied to base_step / interval_step / chain_swap_acceptance by comparing the full map "
            "{unordered result -> probability} at 1e-9; the implementation oracle extracts the whole transition matrix on enumerated instances.",
    "design_ref": "DESIGN.md section 4, C01",
    "note": _NOTE + "Hypotheses of the literal-kernel theorems: all rows have n_base entries, lo <= hi <= n_base, both genotypes have positive weight "
            "(a zero-likelihood state is never entered). The kernel is observed on .py_func with random_choice replaced; ergodicity is not claimed.",
    "technique": "Lean 4 proof (factorial-product swap lemma, MH core, path-wise reversal bijection, refinement of the label-level enumerators through an injective relabelling, rpow algebra) + kernel-level differential correspondence",
}
CHECKS["C02"] = {
    "text": "Lean theorems: the Gibbs vector is the exact full conditional of likelihood x Polya-urn probability on ordered allele sequences "
            "(hence reversible), the call-exact weight is #orderings x that ordered weight, the MH variant satisfies detailed balance with the "
            "allele-copy-count ratio, sorting leaves the weight unchanged; model tied to gibbs_options / mh_options (jitted and py_func) at 1e-9.",
    "design_ref": "DESIGN.md section 4, C02",
    "note": _NOTE + "Stated for F > 0 with explicit frequencies, for F = 0 with any frequencies, and the flat prior is proved equal to the explicit flat vector; "
            "states of zero prior probability are excluded (unreachable).",
    "technique": "Lean 4 proof (urn conditional from C05, MH lemma from C01) + differential correspondence + exact-conditional oracle",
}
CHECKS["C03"] = {
    "text": "Lean theorems: GP sums to one; entry i is likelihood x prior of the i-th genotype of the VCF ordering, normalised; np.argmax = first maximum; "
            "the streaming pass (strict > and running sum) and the full-array pass report the same genotype index and probability in exact arithmetic. "
            "Model tied to posterior_mode and the array functions; SPM/AFP/ACP/AOP checked against an independent Fraction posterior.",
    "design_ref": "DESIGN.md section 4, C03",
    "note": _NOTE + "float32 storage on the GP/GL path is named runtime behaviour (2e-5; mode compared only when the top-two margin exceeds it); "
            "AFP sums to one, ACP to the ploidy and GPM <= SPM <= 1 are theorems (non-negativity of the posterior entries follows from non-negative read cells, 0 <= F <= 1 and non-negative prior frequencies: posterior_nonneg).",
    "technique": "Lean 4 proof (first-maximum invariants of two folds, C11 enumeration order) + differential correspondence + CLI report-subset comparison",
}

CHECKS["C15"] = {
    "text": "Lean theorems: the (haplotype, SNV) sub-step table contains every pair exactly once for every ploidy and number of SNVs and any shuffle "
            "keeps that (with the machine-checked counter-example for the former int8 table); for every sequence of draws random_breaks yields "
            "breaks+1 contiguous non-empty intervals from 0 to n; a site is fixed iff some homozygosity probability reaches the threshold; template "
            "re-insertion puts every fixed allele and every sampled column in the right place. Model tied to compound_step (recorder under py_func and a "
            "jitted forcing read set up to 300 SNVs), random_breaks (forced draws), _homozygosity_probabilities and DenovoMCMC.fit (marker trace).",
    "design_ref": "DESIGN.md section 4, C15",
    "note": _NOTE + "np.random.shuffle is trusted to permute rows; thresholds within 1e-9 of a probability are excluded from comparison.",
    "technique": "Lean 4 proof (list permutation / nodup reasoning, sorted-insert invariants, structural induction on the fixing pattern) + differential correspondence",
}

CHECKS["C09"] = {
    "text": "Lean theorems: (trie) a well-formed arraymap IS a finite map: set refines old[key := v] through every combination of node allocation, tree growth, "
            "value-slot allocation and value-array growth, or yields a well-formed empty map on overflow; get returns the represented value with NaN as miss; "
            "every history of stores of f(key) from a new map of any size stays coherent; (abstract) for every history of cached-wrapper calls with "
            "arbitrary store / flush outcomes every served value equals the fresh value; (sampler) the carried likelihood equals f(genotype) after every "
            "move and exchange. Tied to the code by get/set histories with forced growth and flushes against the model, jitted trace recomputation, cache "
            "on/off trajectories, and monitors on every cached wrapper of the three samplers run as plain Python.",
    "design_ref": "DESIGN.md section 4, C09",
    "note": _NOTE + "Array bounds (no out-of-range index) are checked at run time by the driver, not proved; sampler-level claims are observed on the "
            "real samplers, the abstract theorems explain why they hold.",
    "technique": "Lean 4 proof (trie invariant by induction on the key, history induction over an abstract cache) + operation-sequence correspondence + monitored sampler runs",
}

CHECKS["C06"] = {
    "text": "Lean theorems over the model of extract_read_variants / encode_sample_reads / validate_reference_alleles: one row per read name iff a fetched, filter-passing alignment of that sample bears it (insertion order, uniqueness); each cell is the order-independent merge of the bases aligned to that SNV (gap / common base / N); filter options are monotone; RCOUNT, SNVDP, RCALLS, DP (round-half-even) and the de-duplication counts are the corresponding counts; any reference disagreement (SNV file vs FASTA, MD-derived base vs SNV REF) is an error, never a matrix. Model tied to the code by differential runs on BAMs written from known records across read-group field x MAPQ x keep flags x sample selection, pools, the assemble CLI parser and assemble's FORMAT fields.",
    "design_ref": "DESIGN.md section 4, C06",
    "note": _NOTE + 'partial: BAM decoding, fetch() and MD reconstruction are runtime (pysam/htslib) and only exercised by the correspondence. Open known findings (dependency behaviour): CIGAR P walked as an insertion by pysam.get_aligned_pairs; one-base reads corrupt AlignedSegment.qual.',
    "technique": 'Lean 4 proof (fold invariants over association lists in Except, list permutation) + differential correspondence on synthetic BAMs + independent set-based pileup oracle + reference-conflict fault streams',
}
CHECKS["C07"] = {
    "text": "Lean validator over parsed VCF records with soundness theorems: GT well-formed (ploidy entries, listed alleles, ascending, '.' last); every INFO/FORMAT key declared with the 1/A/R/G cardinality for the record's allele count (REF counted when masked) and the sample's ploidy; REF = reference window and ALT differs only at input variants; AC/AN/UAN/NS/DP/RCOUNT/ACP/AFP equal the recomputation within a derived rounding bound; G length = number of genotypes (via C11); the code's GT formatter is sorted with dots last. Tied to the code by running assemble / call / call-exact / call-pedigree on synthetic data sets x --report subsets with every line through the Lean validator, an independent Python evaluation and pysam, plus read-back of captured internal values.",
    "design_ref": "DESIGN.md section 4, C07",
    "note": _NOTE + 'partial: numpy float printing and np.round ties are compared, not proved; program runs execute in a forked child. Guards the F3 / F4 repairs by signature.',
    "technique": 'Lean 4 proof (list/fold invariants, C11 bijection, rational rounding bound) + executable validator + CLI-level differential correspondence + pysam cross-read',
}
CHECKS["C08"] = {
    "text": "For fixed inputs and seed the record of a locus is a function of that locus only: fit re-seeds both generators (numpy, numba) so its trace is independent of process history; np.array_split blocks partition the loci; every terminating execution of the worker / queue / writer protocol writes a permutation of all lines, each whole, each worker's in order; a failing locus makes every execution end with the error status (no deadlock, no infinite run); single- and multi-core runs agree on status and multiset of lines. Proved by an invariant over a small-step interleaving relation, by induction on executions.",
    "design_ref": "DESIGN.md section 4, C08",
    "note": _NOTE + 'partial: OS scheduling, pipes and multiprocessing internals are over-approximated by the interleaving relation and observed only by real runs (cores 1/2/3/5, fault injection with timeout); random streams are abstract.',
    "technique": 'Lean 4 small-step model + invariant proof; correspondence by forced-schedule execution of the real _worker/_writer/_run_stdout_multi_core, array_split differential; oracles: bit-identical fits after RNG perturbation, CLI metamorphic runs, exit status under injected failures',
}
CHECKS["C10"] = {
    "text": "The per-sample loop gives each sample the column it gets alone (any subset / order of samples selects / permutes columns); a pool's de-duplicated reads-with-counts equal those of the merged sample as multisets (hence equal likelihood, via C04); assemble's ALT list is a union over samples: adding samples only adds ALT alleles and only turns '.' into named alleles, sequences never change.",
    "design_ref": "DESIGN.md section 4, C10",
    "note": _NOTE + 'partial: float summation order for physically reordered reads (exact posterior ties in call-exact are shown and counted, not compared) and argsort tie order of equally supported ALT alleles are outside the model.',
    "technique": 'Lean 4 model threading RNG state through the sample loop + list/multiset proofs incl. machine-checked counter-examples for index-dependent seeding; correspondence by wrapping encode_sample_reads / call_posterior_haplotypes in-process; oracles: textual column equality over sample subsets / orders, pools vs physically merged BAMs',
}
CHECKS["C12"] = {
    "text": "Lean theorems over the model of LocusPrior.from_variant_record / encode_haplotypes / Locus.format_haplotypes: SNV columns are exactly the columns where a sequence differs from REF, alleles are numbered by first appearance with REF = 0, format o encode is the identity on every fixed-length REF/ALT record (no-ALT and SNV-less included), encode o format is the identity on valid index vectors, and the SNV positions recovered from printed ALT strings are the polymorphic subset of assemble's SNVPOS; assemble output of synthetic data sets (REFMASKED, ALT-less, SNV-less, NOA) is fed to call and call-exact and checked for identical CHROM/POS/REF/ALT and complete GT unless NOA/AF0.",
    "design_ref": "DESIGN.md section 4, C12",
    "note": _NOTE + 'The pipeline half (assemble -> call / call-exact) is checked on generated data sets only; pysam/htslib decoding is runtime.',
    "technique": 'Lean 4 proof (list induction: template filling, first-appearance numbering, nodup index inversion) + differential correspondence on generated VCF records + CLI pipeline oracles',
}
CHECKS["C16"] = {
    "text": 'Lean theorems over the model of parse_allele_filter / apply_allele_filter / LocusPrior.from_variant_record and the masking / relabel / NOA-AF0 logic of call, call-exact, call-pedigree: retained frequencies are the named INFO values rescaled to sum to one, exactly the ALT alleles failing the predicate are removed while a failing REF is kept and masked, relabelled genotypes only contain unmasked non-zero-prior alleles, per-allele arrays have one entry per record allele, a record without usable allele takes the NOA/AF0 branch in all three programs alike. Tied to the code by generated filter strings, records with R/A Float/Integer arrays, relabelled traces and CLI output of the three programs.',
    "design_ref": "DESIGN.md section 4, C16",
    "note": _NOTE + 'Filter strings are ASCII in the model; decimal->float64 rounding of the threshold and float32 INFO storage are runtime. Guards the F4 / F12 repairs by signature.',
    "technique": 'Lean 4 proof (inversion of the Except pipeline, rational sums, list filtering) + differential correspondence + exact-Fraction oracles on CLI output',
}
CHECKS["C17"] = {
    "text": "The model of trio_log_pmf (constraint vectors min(dosage, parental copies) widened for double reduction, the four valid_p/valid_q branches, the literal set_initial_dosage / increment_dosage enumeration, the closed-form both-invalid term) is proved equal to the inheritance distribution: sum over all gamete pairs of (1-e)[(1-lambda) hypergeometric + lambda double-reduction] + e multinomial; it sums to one over all unordered progeny genotypes (gametes likewise) for every ploidy, gamete-size pair (unbalanced, clonal, unknown parent), lambda, error and frequency vector; with zero error it is positive exactly when trio_valid / duo_valid accept. The gamete enumerator is proved sound, strictly lex-decreasing, predecessor-exact and complete for every constraint.",
    "design_ref": "DESIGN.md section 4, C17",
    "note": _NOTE + "All theorems are about the code-structure model (trioCode_eq_spec, trioCode_sum_one, trioCode_positive_iff_trioValid); hypotheses = the code's own conventions (unknown parent passed with error 1, errors <= 1, lambda >= 0 and only at tau = 2). trioPmf_swap: the probability does not depend on which parent is listed first (hence the duo statement in both orientations). Not proved: equality of evaluation on allele-count vs first-occurrence slot vectors (tested).",
    "technique": "Lean 4 proofs (multivariate Vandermonde via convolution over compositions, lex-predecessor / tightness argument + mixed-radix rank for enumerator completeness, support = constraint, multinomial convolution, pair-sum reindexing) + differential correspondence on enumerated genotype spaces at 1e-9 + sum / zero-iff-invalid oracles",
}
CHECKS["C18"] = {
    "text": "Gibbs update = exact full conditional of the joint pedigree posterior J = prod lik_i x trioPmf_i for every gamete-size pair (per-gamete identity P(g-e_x)P(x|rest) = (g_x/tau)P(g), weights 2 tau/(tau_p+tau_q)); single-allele MH and the parental allele swap satisfy detailed balance w.r.t. J x prod mult!; J factorises over the Markov blanket of an individual / a parental pair; the joint of the code model is literally the C17 inheritance pmf (joint_code_eq_spec).",
    "design_ref": "DESIGN.md section 4, C18",
    "note": _NOTE + "The former equal-weights code is refuted by a machine-checked counter-example (tau=(1,2)); oracles C18/gibbs/unbalanced-tau, C18/gibbs/nan-assert, C18/swap/read-mask guard the F6 / F11 / F5 repairs; under selfing (p = q) the swap is proved to permute the one genotype (swap_self_perm: unordered state unchanged whatever the decision); ped_mh_vector: the returned MH vector has min(1, ratio)/(n-1) at every other allele, the remaining mass at the current one and sums to one.",
    "technique": "Lean 4 proofs (MH.base_step_db / factProd_swap instances, termwise scaling of the allele-level pmf, product splitting over the blanket) + differential correspondence of probability vectors / prob_accept + exact-conditional and detailed-balance oracles",
}
CHECKS["C19"] = {
    "text": "Lean theorems over the model of find_snvs.bam_region_depths / write_vcf_block: the configured read filters are translated into the pileup's flag mask and MAPQ threshold so that the engine's read filter is the configured one plus 'not secondary, not an orphan mate' (enginePasses_engineCfgOf); on regions whose fetched records have no secondary record, no orphan mate, base qualities >= 13 and distinct read names the depths are exactly the base calls among the reads passing the configured filters (depths_eq_spec_partial) and each option changes them by exactly the reads it governs (filter_option_effect, monotone); machine-checked witnesses outside that region (4 open causes) and regression statements for the 4 repaired causes; an allele is listed iff it meets ind-maf / ind-mad / min-ind, maf (mean over samples with reads) and mad; emitted iff >= 2 kept; REF first, REFMASKED iff REF failed; ALT by non-increasing mean frequency. Tied to bam_region_depths, write_vcf_block and find-snvs stdout by differential runs; every deviation of the real depths from the property is attributed to its cause by a per-feature stream.",
    "design_ref": "DESIGN.md section 4, C19",
    "note": _NOTE + "partial: the pileup engine (htslib bam_plp + pysam defaults: secondary masked, base quality >= 13, orphans dropped, overlapping-mate quality tweak) is modelled from observed behaviour and tied only by correspondence; mates with D/N ops inside an overlap are outside the model. Open known findings: secondary-dropped, baseq13-dropped, orphans-dropped, overlapping-mates-merged. Guards the F7 / F15 repairs by signature.",
    "technique": "Lean 4 proof (bit-mask <-> flag predicates, countP / filter algebra, sort stability, partial-correctness theorem + decide witnesses and regression statements) + differential correspondence (in-process, patched depths, CLI) + exact-arithmetic property oracle with per-cause attribution",
}
CHECKS["C20"] = {
    "text": "Lean model of atomize's block function with theorems: line at POS+SNVPOS-1 with PS=POS; sample GT = projection of the haplotype GT; site alleles numbered by first appearance with REF first; AC/ACP/DS = haplotype-level counts marginalised to the site; skipped without SNVs; totality on every record shape. Tied to atomize by generated haplotype VCFs of every shape and by real assemble / call / call-exact outputs parsed independently.",
    "design_ref": "DESIGN.md section 4, C20",
    "note": _NOTE + 'partial: pysam float32 decoding and pandas/numpy text output are runtime. Guards the F8 / F9 / F13 / F14 repairs by signature.',
    "technique": 'Lean 4 proof (restricted-growth numbering invariant, marginal-sum algebra, explicit Except outcomes) + differential correspondence on generated and pipeline-produced VCFs + direct Python oracle',
}

CHECKS["C13"] = {
    "text": "Lean theorems over the model of call_posterior_haplotypes and the assemble label/GT/AFP/AOP/GP assignment: ALT iff non-reference and occurrence >= threshold in some sample; reference first; REFMASKED iff the reference met the criterion nowhere; no allele 0 in a masked record's GT; ALT order non-increasing in dosage summed over passing samples; '.' exactly for excluded haplotypes; sum AFP <= 1; GP has the record's G cardinality with each fully-called genotype's probability at its VCF index (C11 injectivity) and sums to <= 1, reference called or masked. Tied to the code by differential runs at function level and inside real assemble runs, plus text-level checks.",
    "design_ref": "DESIGN.md section 4, C13",
    "note": _NOTE + '`probs >= threshold` is a float comparison: thresholds within 1e-9 of an occurrence value are counted, not compared; argsort tie order is not modelled; text checks use 3-decimal printed values. Guards the F3 repair by signature.',
    "technique": 'Lean 4 proof (insertion-ordered accumulator, stable sort, scatter lemmas, combinatorial-number-system injectivity) + differential correspondence + Fraction oracles + CLI recording',
}
CHECKS["C14"] = {
    "text": 'Lean theorems over the model of the assemble and call trace classes: posterior(G) = #retained steps equal to G as multisets / #retained, sums to one, independent of within-step order; burn removes exactly n steps of every chain; mode, support probability, allele frequency / count / occurrence, the G-ordered array (C11 injectivity) and the incongruence flag are the stated functionals of that distribution. Tied to the code by exact (k/N) differential runs over all burn-ins and shuffled orderings.',
    "design_ref": "DESIGN.md section 4, C14",
    "note": _NOTE + "Call classes count stored rows; this is a multiset count because the samplers store sorted rows (proved conditional, checked on sampler output). Open known finding F10: assemble's replicate_incongruence uses the size of the first qualifying support as ploidy (partial theorem + machine-checked witnesses; the repair changes a golden file).",
    "technique": 'Lean 4 proof (counting via Finset.sum_list_map_count, sorting-uniqueness, expectation lemma) + exact differential correspondence + Counter / metamorphic oracles',
}

# ---------------------------------------------------------------------------------------------------------------
# Correspondence streams added after four rounds of deliberately broken versions and five reviewer gap lists
# (DESIGN.md section 7): what each harness additionally drives through the real code on every run.
# ---------------------------------------------------------------------------------------------------------------
EXTRA = {
    "C01": "The moves are also observed through the functions that call them: interval kernels and the enumerated detailed-balance oracle run through structural.compound_step, recorders check what mutation.compound_step / structural.compound_step / _denovo_assembler hand to the moves (inbreeding, the chain's temperature, read counts, allele numbers, move type, exchange partner), chain_swap_step is driven with the draw forced, and pools with more than 127 copies of one haplotype are included. DenovoMCMC.fit is run with a recording _denovo_assembler (reads, counts, allele numbers, inbreeding, sorted temperatures, step probabilities, cache threshold, trace chain by chain) and the assembler loop is checked to hand every sweep the sample's reads and log(#haplotypes). A ledger of the likelihood each chain carries through the assembler loop; the likelihood handed between the moves of a sweep is that of the current genotype (real moves wrapped); the exchange step's decision threshold is pinned with uniforms just below / above the acceptance probability.",
    "C02": "Pooled ploidies (16-40 copies), int32 / unsorted genotypes, panels of up to 300 haplotypes, hard reads and tiny frequencies are generated; the per-sample plumbing observer (harness/plumbing.py) runs mchap call with per-sample ploidy / inbreeding files and asserts that every sample is fit with its own parameters and reads. Wiring: the Python source of compound_step / mcmc_sampler / CallingMCMC.fit runs with recording callees (every copy once per compound step, the sample's reads / counts / inbreeding / frequencies / cache, the trace records what the callee left); user-style priors with 1e-9..1e-30 entries and exact zeros go through call / call-pedigree (only an exact zero removes an allele). Theorems call_compound_step_invariant / call_sampler_invariant lift the per-copy kernels to the shuffled compound step and to the run. Tiny non-zero inbreeding coefficients (1e-3..1e-5); the in-sweep vector stream (every vector used inside a compound step equals the kernel run afresh on the current state) also on panels and pools; Lean model compoundStep against the real step on the observed order and draws.",
    "C03": "An end-to-end oracle compares what mchap call-exact prints (GT, GPM, GP, AFP, ACP, AOP; both code paths; plain, REFMASKED, filtered and --prior-frequencies inputs; per-sample inbreeding files in shuffled order) with the Lean posterior on the reads the program encoded and the prior it reports; the plumbing observer checks the parameters of every exact call.",
    "C04": "Includes the pedigree wrapper with one cache shared by a family of mixed ploidy, counts up to 1000, hundreds of reads, ploidy up to 128, single-cell NaNs, ndarray / None intervals, and (plumbing observer) that the GL arrays of assemble / call / call-exact are computed from each sample's own reads. genotype_likelihoods (FORMAT/GL, array path of call-exact) is compared entry by entry with the likelihood of that genotype, reads with 0/1 base calls (impossible genotypes) included. genotype_likelihoods over spaces of 1365-6435 genotypes.",
    "C05": "Includes pools with dose >= 128 through the callers' dosage buffers, frequency ranges down to 1e-12, F close to 0 and to 1, haplotype spaces up to 2^700, unsorted / int32 genotypes, and (plumbing observer) that every program evaluates the prior with the sample's own inbreeding coefficient.",
    "C06": "--bam list files (incl. sample<TAB>path selection out of a multi-sample BAM), split multi-allelic / indel / ALT-less --variants records, extraction through LocusPrior (call programs), soft-masked references, gzipped / commented / 3-column BED, CRAM, substring sample names, several alignments per read name with qualities. A second --variants record of a position whose REF is not the reference base must be reported, never merged.",
    "C07": "Glue streams: every optional field requested alone, panels of 130-200 haplotypes through call / call-pedigree, NOA and many-ALT assemble outputs fed to the callers, --filter-input-haplotypes, ploidies 1/3/8 and integer --ploidy, cohort-wide ploidy files, bam lists, pools, read-group ID, a pedigree member without BAM, BED3 / gzipped BED / --region / POS=1 / two contigs. A locus without reads in any sample (synthetic feature nodepth_all).",
    "C08": "Boundary seeds (0, 2^32-2), pedigree fits, core counts that do not divide the number of loci, overlapping / repeated targets, sampler options on the command line, fresh-process baselines for every program, faults: worker exception, worker killed by a signal (open finding K8), closed pipe / full disk on stdout, malformed haplotype record. One haplotype record carries REFMASKED next to a record of equal allele count; the unflagged records are run alone before the interpreter has read any masked record (module-level state set by the first masked record would otherwise look the same in every later run) and in a fresh process. call-exact with 30 pools and GP + GL (record lines of 10^5 bytes) on four cores into a pipe that is read late.",
    "C09": "One cache shared by families of mixed ploidy (key type probed, not assumed), permuted read rows and samples without reads, keys near 2^53 / 2^63, jitted assemble sampler with cache overflow, jitted call sampler cache on / off, CLI cache threshold toggle, swap-step cache audit on every parental pair. One CallingMCMC / DenovoMCMC object is fitted to two samples in a row: trace likelihoods recomputed for the second sample and the run compared with a new object. Every chain of small ladders incl. ladders starting at inverse temperature 0; deep samples with the homozygosity screen on (carried likelihood = likelihood over the non-fixed positions with the sample's counts); call sampler with a single haplotype.",
    "C10": "The per-sample plumbing observer runs all four programs with shuffled per-sample files (ploidy, inbreeding, temperatures, gamete files) and non-default values of every sampler option and asserts that each model is fit with that sample's own parameters and reads and that every option reaches its consumer; --report fields are compared per allele sequence; samples without reads, odd ploidies, bam list files, read-group ID, pools named after a member. One dataset runs with --mcmc-seed 0. A dataset with a locus without reads in any sample, samples of equal ploidy and a per-sample inbreeding file.",
    "C11": "Both lookup tables are compared entry by entry with exact values; count_unique_genotypes (sizes every G-length array) is included; int8/16/32 genotype arrays; enumerations beyond the table edge; ploidy 10-13 with 46-110 alleles against an independent VCF rank. genotype_likelihoods order over > 1024 genotypes; posterior_as_array on int16 / int32 / int64 genotypes over spaces above 32767.",
    "C12": "Pipelines with NOA / AF0 records, --prior-frequencies AFP and --filter-input-haplotypes on real assemble output (record count in == out), use_snvpos, loci of 300 bases with >= 130 SNV columns / ALTs, five-symbol columns, two contigs, overlapping targets, --region. Variant records on the bases next to every target with an SNVPOS oracle; call-exact with a core count that does not divide the records.",
    "C13": "Printed GT / AFP / AOP / GP of every sample are compared with what the recorded posteriors imply (incl. no mass on a masked reference); thresholds 0, default, 0.95, 1.0; samples without reads; 1-5 samples; >= 10 ALT alleles; seven --report subsets. Label dictionaries with allele numbers 120..40000 (beyond a byte) with a direct GT oracle. Genotypes stored in arbitrary haplotype order; very shallow data at threshold 1.0 (NOA + REFMASKED records).",
    "C14": "Program-level part: the traces handed to assemble / call / call-pedigree are recorded (or substituted by synthetic traces whose chains agree / disagree inside or outside the burn-in) and printed GT / GPM / SPM / MCI / AFP / GP are recomputed from the trace minus exactly --mcmc-burn steps per chain, for --mcmc-chains 1-3 and several thresholds; long traces (> 255 repeats), ploidy 3-4 large panels, relabel summaries, wide pedigree traces. Traces over 33-130 positions and five symbols (haplotypes differing in the leading / last columns only).",
    "C15": "Whole DenovoMCMC.fit iterations with recorders (every (haplotype, site) pair once per step and temperature with the site's own allele number, random_breaks on the non-fixed SNVs, intervals partition), loci of 130-300 SNVs, inbreeding on both sides, thresholds 0 .. 1, the command-line value of --mcmc-fix-homozygous reaching the sampler (option plumbing); the read array handed to the sampler equals the model's restriction to the non-fixed columns (restrictHap), read counts passed through.",
    "C16": "Report lists with and without GP (both call-exact branches), mixed-ploidy pedigrees with a member without BAM, priors down to 1e-42 and nan, --prior-frequencies AFP and filters on AFP / AC applied to real assemble output (REFMASKED, NOA, monomorphic records), zero-read samples, --inbreeding, up to 257 alleles. Every third generated record puts the zero prior on the allele the samples carry, call always runs with a frequency tag and F > 0; plumbing observer on call / call-exact / call-pedigree.",
    "C17": "PEDERR: PedigreeAllelesMultiTrace.incongruence on int16 traces against the zero-error pmf; call-pedigree array construction from the --sample-parents / --gamete-ploidy / --gamete-ibd / --gamete-error files (shuffled rows, members without BAM, scalar / file forms) against an independent parse; lambda = 1 (open finding K7), shuffled progeny, reused scratch arrays, unreduced / odd / octoploid configurations, one-sided zero errors. PedigreeCallingMCMC.fit runs the sampler with the inheritance parameters given (exact zeros and ones included).",
    "C18": "Pedigrees whose unbalanced / clonal / triploid individuals are parents, permuted indices, pair members with further progeny, random pedigrees; accepted and rejected branch of the swap with the draw forced, jitted swap on int16 / -1 padded states with the dict cache, allele_step / sample_step / compound_step visit order, one-sided zero errors, lambda = 1, single-haplotype panels, members without reads. Sampler wiring: mcmc_sampler's source runs with recording moves (one compound step, then one exchange per pair of known parents; blanket = the two parents and each individual with one of them as a parent, once each - theorems pairPrior_of_listing / pairPrior_of_repeated; the call's own pedigree / parameters / reads), sample_step / compound_step pass their arguments on unchanged, PedigreeCallingMCMC.fit hands over the model's fields and log prior frequencies; ped_iteration_invariant lifts the per-move theorems to an iteration and a run. Inside a sweep every vector used equals the Gibbs / MH vector of the state at that moment (sweep functions as plain Python, vector functions wrapped); deep pedigrees with a mislabelled parent (log-domain oracles).",
    "C19": "Several filter flags at once, several read groups / --read-group-field ID, numeric contig names, commented / 3-column BED, --min-ind 1..n with pairwise distinct thresholds, fixed differences and reference-fails sites, depth beyond 8000, bam list files, regions at contig ends, reads without qualities. Targets nested in or overlapping the previous one (a position in k targets may be reported up to k times, identically).",
    "C20": "Alphabet ACGTN*, NOA / partial / all-missing genotypes, acp-dot / afp-dot shapes, outputs of runs with priors / filters / pools / call-pedigree on two contigs, gzipped and header-only inputs, up to 36 samples and ploidy 64. Unusual sample names (REF, ALT, POS, numbers, punctuation).",
}
for _p, _t in EXTRA.items():
    CHECKS[_p]["text"] = CHECKS[_p]["text"] + " Correspondence streams: " + _t

NOT_APPLICABLE = {}
