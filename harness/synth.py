"""Synthetic datasets for the MCHap programs, and runners for those programs.

Everything written here is known *by construction*: every alignment record is a `ReadSpec` (the BAM files
are produced from them, the MD / NM tags are computed here from the reference), every sample has `ploidy`
true chromosomes, every target has a list of SNVs with their alleles.  Checks derive their expectations from
`Dataset.reads` / `Dataset.truth` and compare them with what `mchap` prints.

Formats the programs need (read off /repo/mchap/application/*.py, /repo/mchap/io/{bam,loci}.py):

* ``--bam``       coordinate-sorted, indexed BAM; the header needs ``@RG`` lines with ``ID`` and ``SM``; every
                  read needs an ``RG`` tag, an ``MD`` tag (``get_aligned_pairs(with_seq=True)``) and base
                  qualities (``read.qual[i]`` is subscripted even if phred scores are ignored).  The sample name is
                  the ``SM`` (or ``ID`` with ``--read-group-field ID``) of the read group; several read groups of a
                  BAM may share a sample, several samples may share a BAM, but a sample in two BAMs is an error.
                  `find-snvs` additionally demands exactly one sample per BAM.
* ``--variants``  bgzipped + tabix-indexed VCF; only records with single-base REF and ALTs are used.
* ``--reference`` FASTA with ``.fai``.
* ``--targets``   BED (3 or 4 columns, 4th = record ID), plain text *or* gzipped, no index needed
                  (`assemble` sniffs the gzip magic, `find-snvs` reads it with ``pandas.read_table``).
                  `write_bed` writes plain text, which both accept.
* ``--haplotypes`` bgzipped + tabix-indexed VCF as printed by `assemble` (`atomize` takes it positionally and
                  also reads plain text).
* ``--ploidy``    an integer, or a file of ``sample<TAB>ploidy`` lines (`Dataset.ploidy_file`).

Deviations from the requested API are listed in the docstrings of `ReadSpec` (hard clips are not part of
``seq``), `run_program` (exit code of ``SystemExit``) and `parse_vcf_text` (``sample_names`` key).

All randomness comes from the `random.Random` passed in; nothing depends on time, pid or hash order.
"""
from __future__ import annotations

import array
import os
import re
import shutil
import subprocess
import sys
import tempfile
from dataclasses import dataclass, field

import pysam

from . import common as C

BASES = "ACGT"
ALL_FEATURES = frozenset(
    {"indels", "clips", "mates", "flags", "lowmapq", "multi_rg", "nodepth", "lowqual", "nodepth_all"}
)

FLAG_PAIRED = 0x1
FLAG_PROPER = 0x2
FLAG_UNMAPPED = 0x4
FLAG_REVERSE = 0x10
FLAG_MREVERSE = 0x20
FLAG_READ1 = 0x40
FLAG_READ2 = 0x80
FLAG_SECONDARY = 0x100
FLAG_QCFAIL = 0x200
FLAG_DUPLICATE = 0x400
FLAG_SUPPLEMENTARY = 0x800

_CIGAR_RE = re.compile(r"(\d+)([MIDNSHP=X])")
_REF_OPS = "MDN=X"      # consume reference
_QUERY_OPS = "MIS=X"    # consume query (SEQ)
_ALIGNED_OPS = "M=X"    # consume both, produce aligned pairs


# --------------------------------------------------------------------------------------
# data classes
# --------------------------------------------------------------------------------------

@dataclass
class ReadSpec:
    """One alignment record, fully known by construction.

    ``pos`` is the 0-based leftmost reference position.  ``seq`` is the SAM ``SEQ`` field: it contains the
    soft-clipped and inserted bases but NOT hard-clipped ones (``H`` consumes nothing, as in SAM), always in
    reference-forward orientation.  ``quals`` is one phred integer per base of ``seq`` or None (``*``).
    ``cigar`` is ``"*"`` and ``contig``/``pos`` may still be set for a placed unmapped read; ``contig=None``
    is an unplaced read (written after all placed ones).  The mate fields are optional.
    """

    qname: str
    contig: str | None
    pos: int
    cigar: str
    seq: str
    quals: list | None
    flag: int = 0
    mapq: int = 60
    rg: str | None = None
    mate_contig: str | None = None
    mate_pos: int = -1
    tlen: int = 0

    @property
    def ref_end(self) -> int:
        """0-based exclusive end on the reference (pos + 1 without CIGAR, like htslib)."""
        n = cigar_ref_len(self.cigar)
        return self.pos + (n if n > 0 else 1)


@dataclass
class Locus:
    name: str
    contig: str
    start: int            # 0-based, half open
    stop: int
    snv_positions: list   # 0-based reference positions inside [start, stop), increasing
    snv_alleles: list     # per SNV: REF base first, then ALT bases


@dataclass
class Dataset:
    dir: str
    fasta: str
    contigs: dict
    samples: list
    ploidy: dict
    bams: list            # one path per file; = order of `samples` unless "multi_rg" put two samples in one file
    sample_bam: dict      # sample -> path
    read_groups: dict     # bam path -> list of {"ID":.., "SM":..}
    reads: dict           # bam path -> list[ReadSpec] in file (coordinate) order
    snv_vcf: str
    bed: str
    loci: list
    truth: dict           # sample -> locus name -> list (len ploidy) of haplotype strings over [start, stop)
    # ---- additions to the requested shape
    ploidy_file: str = ""                 # "sample\tploidy" lines, for --ploidy
    features: frozenset = frozenset()
    truth_alleles: dict = field(default_factory=dict)   # sample -> locus name -> list of allele-index lists
    chromosomes: dict = field(default_factory=dict)     # sample -> contig -> list (len ploidy) of full sequences
    nodepth: list = field(default_factory=list)         # [(sample, locus name)] with zero reads by construction
    fasta_contigs: dict = field(default_factory=dict)   # the sequences as written to the FASTA (lower case where soft-masked)

    def locus(self, name: str) -> Locus:
        for l in self.loci:
            if l.name == name:
                return l
        raise KeyError(name)

    def single_sample_bams(self) -> list:
        """BAM files holding exactly one sample (what `find-snvs` accepts)."""
        out = []
        for p in self.bams:
            if len({rg["SM"] for rg in self.read_groups[p]}) == 1:
                out.append(p)
        return out

    def assemble_argv(self, *extra: str) -> list:
        return [
            "mchap", "assemble", "--bam", *self.bams, "--ploidy", self.ploidy_file,
            "--targets", self.bed, "--variants", self.snv_vcf, "--reference", self.fasta, *extra,
        ]

    def call_argv(self, program: str, haplotypes_vcf_gz: str, *extra: str) -> list:
        """argv of `call`, `call-exact` (program = "call" | "call-exact")"""
        return [
            "mchap", program, "--bam", *self.bams, "--ploidy", self.ploidy_file,
            "--haplotypes", haplotypes_vcf_gz, *extra,
        ]


# --------------------------------------------------------------------------------------
# CIGAR / MD arithmetic (independent of pysam)
# --------------------------------------------------------------------------------------

def parse_cigar(cigar: str) -> list:
    """"20M2D10M3S" -> [(20,"M"),(2,"D"),(10,"M"),(3,"S")]; "*" or "" -> []"""
    if cigar in ("*", "", None):
        return []
    ops = [(int(n), op) for n, op in _CIGAR_RE.findall(cigar)]
    if "".join(f"{n}{op}" for n, op in ops) != cigar:
        raise ValueError(f"bad CIGAR {cigar!r}")
    return ops


def cigar_ref_len(cigar: str) -> int:
    return sum(n for n, op in parse_cigar(cigar) if op in _REF_OPS)


def cigar_query_len(cigar: str) -> int:
    return sum(n for n, op in parse_cigar(cigar) if op in _QUERY_OPS)


def aligned_pairs(spec: ReadSpec) -> list:
    """[(query index, reference position)] of the M/=/X columns (what pysam calls matches_only)."""
    out = []
    q, r = 0, spec.pos
    for n, op in parse_cigar(spec.cigar):
        if op in _ALIGNED_OPS:
            out.extend((q + i, r + i) for i in range(n))
            q += n
            r += n
        elif op in ("I", "S"):
            q += n
        elif op in ("D", "N"):
            r += n
    return out


def read_ref_bases(spec: ReadSpec) -> dict:
    """reference position -> (base, phred or None) for every aligned column of the record"""
    return {
        r: (spec.seq[q], None if spec.quals is None else spec.quals[q])
        for q, r in aligned_pairs(spec)
    }


def md_nm(spec: ReadSpec, refseq: str) -> tuple:
    """(MD string, NM) of a record against the sequence of its contig."""
    md = []
    run = 0
    nm = 0
    q, r = 0, spec.pos
    for n, op in parse_cigar(spec.cigar):
        if op in _ALIGNED_OPS:
            for i in range(n):
                rb = refseq[r + i]
                if spec.seq[q + i].upper() == rb.upper():
                    run += 1
                else:
                    md.append(str(run))
                    md.append(rb.upper())
                    run = 0
                    nm += 1
            q += n
            r += n
        elif op == "D":
            md.append(str(run))
            md.append("^" + refseq[r:r + n].upper())
            run = 0
            nm += n
            r += n
        elif op == "I":
            nm += n
            q += n
        elif op == "S":
            q += n
        elif op == "N":
            r += n
        # H, P: nothing
    md.append(str(run))
    return "".join(md), nm


# --------------------------------------------------------------------------------------
# writers
# --------------------------------------------------------------------------------------

def write_text(path, text) -> str:
    path = str(path)
    os.makedirs(os.path.dirname(path) or ".", exist_ok=True)
    with open(path, "w") as f:
        f.write(text)
    return path


def write_fasta(path, contigs: dict) -> str:
    """FASTA (60 columns) + .fai"""
    lines = []
    for name, seq in contigs.items():
        lines.append(f">{name}")
        for i in range(0, len(seq), 60):
            lines.append(seq[i:i + 60])
    path = write_text(path, "\n".join(lines) + "\n")
    if os.path.exists(path + ".fai"):
        os.remove(path + ".fai")
    pysam.faidx(path)
    return path


def sort_reads(contigs: dict, reads: list) -> list:
    """stable coordinate sort: contig order of `contigs`, then pos; unplaced reads last"""
    tid = {c: i for i, c in enumerate(contigs)}
    n = len(tid)

    def key(r):
        if r.contig is None:
            return (n, 0)
        return (tid[r.contig], r.pos)

    return sorted(reads, key=key)


def write_bam(path, contigs: dict, reads: list, read_groups: list) -> str:
    """Write a coordinate-sorted, indexed BAM from ReadSpecs.

    MD and NM are computed from `contigs` for every record that has a CIGAR; the RG tag is set from `rg`.
    CIGAR ops M = X I D N S H P are honoured.  Raises ValueError when a record is inconsistent (SEQ length vs
    CIGAR, alignment running off the contig, unknown read group).
    """
    path = str(path)
    os.makedirs(os.path.dirname(path) or ".", exist_ok=True)
    header = {
        "HD": {"VN": "1.6", "SO": "coordinate"},
        "SQ": [{"SN": c, "LN": len(s)} for c, s in contigs.items()],
        "RG": [dict(rg) for rg in read_groups],
        "PG": [{"ID": "synth", "PN": "synth", "VN": "1"}],
    }
    tid = {c: i for i, c in enumerate(contigs)}
    rg_ids = {rg["ID"] for rg in read_groups}
    with pysam.AlignmentFile(path, "wb", header=header) as out:
        for r in sort_reads(contigs, reads):
            ops = parse_cigar(r.cigar)
            if ops and cigar_query_len(r.cigar) != len(r.seq):
                raise ValueError(f"{r.qname}: SEQ length {len(r.seq)} != CIGAR {r.cigar}")
            if r.quals is not None and len(r.quals) != len(r.seq):
                raise ValueError(f"{r.qname}: {len(r.quals)} qualities for {len(r.seq)} bases")
            if r.rg is not None and r.rg not in rg_ids:
                raise ValueError(f"{r.qname}: read group {r.rg!r} not in the header")
            a = pysam.AlignedSegment(out.header)
            a.query_name = r.qname
            a.query_sequence = r.seq if r.seq else None
            a.flag = r.flag
            if r.contig is None:
                a.reference_id = -1
                a.reference_start = -1
            else:
                if r.pos < 0 or r.pos + cigar_ref_len(r.cigar) > len(contigs[r.contig]):
                    raise ValueError(f"{r.qname}: alignment leaves contig {r.contig}")
                a.reference_id = tid[r.contig]
                a.reference_start = r.pos
            a.mapping_quality = r.mapq
            a.cigarstring = r.cigar if ops else None
            if r.quals is not None and r.seq:
                a.query_qualities = array.array("B", r.quals)
            if r.mate_contig is not None:
                a.next_reference_id = tid[r.mate_contig]
                a.next_reference_start = r.mate_pos
                a.template_length = r.tlen
            else:
                a.next_reference_id = -1
                a.next_reference_start = -1
                a.template_length = 0
            tags = []
            if r.rg is not None:
                tags.append(("RG", r.rg, "Z"))
            if ops and r.contig is not None:
                md, nm = md_nm(r, contigs[r.contig])
                tags.append(("MD", md, "Z"))
                tags.append(("NM", nm, "i"))
            a.set_tags(tags)
            out.write(a)
    for ext in (".bai", ".csi"):
        if os.path.exists(path + ext):
            os.remove(path + ext)
    pysam.index(path)
    return path


def read_bam(path) -> tuple:
    """(read groups, list[ReadSpec]) of a BAM file, in file order (tags other than RG are dropped)."""
    with pysam.AlignmentFile(str(path)) as f:
        hd = f.header.to_dict()
        rgs = [dict(rg) for rg in hd.get("RG", [])]
        names = list(f.references)
        specs = []
        for a in f.fetch(until_eof=True):
            q = a.query_qualities
            specs.append(ReadSpec(
                qname=a.query_name,
                contig=None if a.reference_id < 0 else names[a.reference_id],
                pos=a.reference_start,
                cigar=a.cigarstring or "*",
                seq=a.query_sequence or "",
                quals=None if q is None else [int(x) for x in q],
                flag=a.flag,
                mapq=a.mapping_quality,
                rg=a.get_tag("RG") if a.has_tag("RG") else None,
                mate_contig=None if a.next_reference_id < 0 else names[a.next_reference_id],
                mate_pos=a.next_reference_start,
                tlen=a.template_length,
            ))
    return rgs, specs


def bgzip_tabix_vcf(path_vcf_text) -> str:
    """bgzip + tabix any VCF text file; returns path + ".gz" (the text file is kept)."""
    src = str(path_vcf_text)
    dst = src + ".gz"
    for p in (dst, dst + ".tbi", dst + ".csi"):
        if os.path.exists(p):
            os.remove(p)
    pysam.tabix_compress(src, dst, force=True)
    pysam.tabix_index(dst, preset="vcf", force=True)
    return dst


def snv_vcf_text(contigs: dict, loci: list, flank: bool = False) -> str:
    lines = [
        "##fileformat=VCFv4.2",
        '##FILTER=<ID=PASS,Description="All filters passed">',
        "##source=harness.synth",
    ]
    lines += [f"##contig=<ID={c},length={len(s)}>" for c, s in contigs.items()]
    lines.append("#CHROM\tPOS\tID\tREF\tALT\tQUAL\tFILTER\tINFO")
    order = {c: i for i, c in enumerate(contigs)}
    recs = []
    for l in loci:
        for p, als in zip(l.snv_positions, l.snv_alleles):
            recs.append((order[l.contig], p, l.contig, als))
    # valid SNV records on the base just before and just after every target (where that base belongs to no target): they are not
    # part of the locus - a window that is off by one (0- / 1-based, half-open / closed) would pull them in
    inside = {(l.contig, q) for l in loci for q in range(l.start, l.stop)}
    for l in (loci if flank else []):
        for q in (l.start - 1, l.stop):
            if 0 <= q < len(contigs[l.contig]) and (l.contig, q) not in inside:
                base = contigs[l.contig][q].upper()
                if base in "ACGT":
                    inside.add((l.contig, q))
                    recs.append((order[l.contig], q, l.contig, (base, "ACGT"[("ACGT".index(base) + 1 + (q % 3)) % 4])))
    recs.sort(key=lambda t: (t[0], t[1]))
    for _, p, c, als in recs:
        alt = ",".join(als[1:]) if len(als) > 1 else "."
        lines.append(f"{c}\t{p + 1}\t.\t{als[0]}\t{alt}\t.\tPASS\t.")
    return "\n".join(lines) + "\n"


def write_snv_vcf(path, contigs, loci: list, flank: bool = False) -> str:
    """`path` is the plain-text file (kept); returns the path of the bgzipped + tabixed `.vcf.gz`."""
    path = str(path)
    if path.endswith(".gz"):
        path = path[:-3]
    write_text(path, snv_vcf_text(contigs, loci, flank))
    return bgzip_tabix_vcf(path)


def write_bed(path, loci) -> str:
    """plain-text BED4 (contig, start, stop, name); accepted as is by `assemble` and `find-snvs`"""
    return write_text(
        path, "".join(f"{l.contig}\t{l.start}\t{l.stop}\t{l.name}\n" for l in loci)
    )


def merge_bams(out_path, contigs, dataset, bam_paths: list, sample_name: str | None = None) -> str:
    """Merge the alignment records of several BAMs into one sorted + indexed BAM.

    Records and read groups are taken from `dataset.reads` / `dataset.read_groups` when the path is known
    there, otherwise they are read back from the file.  Read-group IDs stay unique (a clashing ID gets a
    ``.2``, ``.3`` .. suffix and its reads follow); with `sample_name` every read group gets that SM.
    The merged file is registered in `dataset.reads` / `dataset.read_groups` under `out_path`.
    """
    out_path = str(out_path)
    rgs_out = []
    reads_out = []
    seen = set()
    for p in bam_paths:
        p = str(p)
        if dataset is not None and p in dataset.reads:
            rgs, reads = dataset.read_groups[p], dataset.reads[p]
        else:
            rgs, reads = read_bam(p)
        rename = {}
        for rg in rgs:
            rg = dict(rg)
            new = rg["ID"]
            k = 1
            while new in seen and k < 10000:
                k += 1
                new = f"{rg['ID']}.{k}"
            seen.add(new)
            rename[rg["ID"]] = new
            rg["ID"] = new
            if sample_name is not None:
                rg["SM"] = sample_name
            rgs_out.append(rg)
        for r in reads:
            r2 = ReadSpec(**r.__dict__)
            if r2.rg is not None:
                r2.rg = rename.get(r2.rg, r2.rg)
            reads_out.append(r2)
    reads_out = sort_reads(contigs, reads_out)
    write_bam(out_path, contigs, reads_out, rgs_out)
    if dataset is not None:
        dataset.reads[out_path] = reads_out
        dataset.read_groups[out_path] = rgs_out
    return out_path


# --------------------------------------------------------------------------------------
# dataset generator
# --------------------------------------------------------------------------------------

def _rand_seq(rng, n: int) -> str:
    return "".join(rng.choice(BASES) for _ in range(n))


def _other_base(rng, b: str) -> str:
    return rng.choice([x for x in BASES if x != b.upper()])


def _layout_loci(rng, contigs: dict, n_loci: int) -> list:
    """non-overlapping windows, one slot per locus; returns [(contig, start, stop)] in genome order"""
    names = list(contigs)
    per = {c: 0 for c in names}
    for i in range(n_loci):
        per[names[i % len(names)]] += 1
    out = []
    for c in names:
        m = per[c]
        if m == 0:
            continue
        L = len(contigs[c])
        slot = L // m
        if slot < 8:
            raise ValueError("contig too short for the requested number of loci")
        margin = min(5, slot // 4)
        for j in range(m):
            lo = j * slot + margin
            hi = (j + 1) * slot - margin       # window must lie inside [lo, hi)
            max_len = min(60, hi - lo)
            min_len = min(12, max_len)
            length = rng.randint(min_len, max_len)
            start = rng.randint(lo, hi - length)
            out.append((c, start, start + length))
    return out


def _make_loci(rng, contigs, n_loci, max_snvs, multiallelic) -> list:
    windows = _layout_loci(rng, contigs, n_loci)
    n = len(windows)
    zero = rng.randrange(n) if n >= 3 else -1        # a locus without SNVs
    rich = -1                                         # a locus with >= 2 SNVs
    if max_snvs >= 1:
        cands = [i for i in range(n) if i != zero]
        rich = rng.choice(cands) if cands else -1
    loci = []
    for i, (c, start, stop) in enumerate(windows):
        cap = min(max_snvs, stop - start)
        if i == zero or cap <= 0:
            k = 0
        elif i == rich:
            k = rng.randint(min(2, cap), cap)
        else:
            k = rng.randint(0, cap)
        positions = sorted(rng.sample(range(start, stop), k))
        alleles = []
        for p in positions:
            ref = contigs[c][p]
            n_alt = 1
            if multiallelic:
                u = rng.random()
                n_alt = 1 if u < 0.6 else (2 if u < 0.85 else 3)
            alts = rng.sample([b for b in BASES if b != ref], n_alt)
            alleles.append([ref] + alts)
        loci.append(Locus(f"loc{i + 1}", c, start, stop, positions, alleles))
    return loci


def _hap_pool(rng, locus: Locus, ref_absent: bool) -> list:
    """population haplotypes of a locus as allele-index vectors (distinct)"""
    k = len(locus.snv_positions)
    if k == 0:
        return [[]]
    want = rng.randint(1, 5)
    pool = []
    for _ in range(40):
        if len(pool) >= want:
            break
        v = []
        for als in locus.snv_alleles:
            v.append(0 if rng.random() < 0.5 else rng.randrange(1, len(als)))
        if ref_absent and not any(v):
            continue
        if v not in pool:
            pool.append(v)
    if not pool:
        v = [0] * k
        if ref_absent:
            v[rng.randrange(k)] = 1
        pool.append(v)
    if not ref_absent and rng.random() < 0.7 and [0] * k not in pool:
        pool[rng.randrange(len(pool))] = [0] * k
    return pool


def _hap_string(contigs, locus: Locus, vec: list) -> str:
    s = list(contigs[locus.contig][locus.start:locus.stop])
    for p, als, a in zip(locus.snv_positions, locus.snv_alleles, vec):
        s[p - locus.start] = als[a]
    return "".join(s)


class _ReadMaker:
    """builds the records of one sample"""

    def __init__(self, rng, ds_contigs, loci, features, error_rate, read_len):
        self.rng = rng
        self.contigs = ds_contigs
        self.loci = loci
        self.f = features
        self.err = error_rate
        self.read_len = read_len
        self.snv = {}   # contig -> {pos: alleles}
        for l in loci:
            d = self.snv.setdefault(l.contig, {})
            for p, als in zip(l.snv_positions, l.snv_alleles):
                d[p] = als

    # ---- geometry
    def span_for(self, locus: Locus, forbidden: list):
        """a reference interval overlapping `locus`, avoiding the forbidden intervals of its contig"""
        rng = self.rng
        clen = len(self.contigs[locus.contig])
        L = min(rng.randint(*self.read_len), clen)
        lo = max(0, locus.start - L + 1)
        hi = min(clen - L, locus.stop - 1)
        start = rng.randint(lo, max(lo, hi))
        return self.trim(start, start + L, locus, forbidden)

    @staticmethod
    def trim(start, end, locus, forbidden):
        for a, b in forbidden:
            if start < b and a < end:
                if locus is not None and b <= locus.start:
                    start = b
                elif locus is not None and a >= locus.stop:
                    end = a
                elif start < a:
                    end = a
                else:
                    start = b
        return start, end

    # ---- one record
    def record(self, qname, contig, start, end, chrom_seq, rg, locus, flag=0, force=None):
        """alignment of chromosome sequence [start, end) with this maker's features applied.

        `force` maps reference positions to bases that override the sampled ones (mate disagreement)."""
        rng = self.rng
        span = end - start
        ops = [(span, "M")]
        if "indels" in self.f and locus is not None and rng.random() < 0.2:
            lo = max(start + 1, locus.start)
            hi = min(end - 1, locus.stop)
            if hi - lo >= 1:
                n = rng.randint(1, 3)
                at = rng.randint(lo, hi - 1) - start       # >= 1 aligned base before
                if rng.random() < 0.5:
                    if span - at - n >= 1:
                        ops = [(at, "M"), (n, "D"), (span - at - n, "M")]
                else:
                    ops = [(at, "M"), (n, "I"), (span - at, "M")]
        seq = []
        quals = []
        r = start
        for n, op in ops:
            if op == "M":
                for i in range(n):
                    b = chrom_seq[r + i]
                    q = rng.randint(25, 40)
                    p_err = self.err
                    if "lowqual" in self.f and rng.random() < 0.12:
                        q = rng.randint(2, 12)
                        p_err = max(p_err, 10 ** (-q / 10))
                    if rng.random() < p_err:
                        b = _other_base(rng, b)
                    if force and (r + i) in force:
                        b = force[r + i]
                    seq.append(b)
                    quals.append(q)
                r += n
            elif op == "D":
                r += n
            elif op == "I":
                for _ in range(n):
                    seq.append(rng.choice(BASES))
                    quals.append(rng.randint(25, 40))
        if "clips" in self.f and rng.random() < 0.3:
            for side in (0, 1):
                if rng.random() < 0.5:
                    n = rng.randint(1, 5)
                    if rng.random() < 0.7:
                        clip = [rng.choice(BASES) for _ in range(n)]
                        cq = [rng.randint(2, 30) for _ in range(n)]
                        if side == 0:
                            seq, quals, ops = clip + seq, cq + quals, [(n, "S")] + ops
                        else:
                            seq, quals, ops = seq + clip, quals + cq, ops + [(n, "S")]
                    else:
                        ops = [(n, "H")] + ops if side == 0 else ops + [(n, "H")]
        mapq = 60
        if "lowmapq" in self.f and rng.random() < 0.3:
            mapq = rng.choice([0, 1, 10, 19, 20, 21, 30])
        cigar = "".join(f"{n}{op}" for n, op in ops)
        if "flags" in self.f and rng.random() < 0.15:
            bad = rng.choice(
                [FLAG_DUPLICATE, FLAG_QCFAIL, FLAG_SUPPLEMENTARY, FLAG_SECONDARY, FLAG_UNMAPPED]
            )
            flag |= bad
            # make the flagged record misleading at the SNVs so that a missing filter is visible
            snvs = self.snv.get(contig, {})
            q = 0
            rr = start
            for n, op in ops:
                if op == "M":
                    for i in range(n):
                        als = snvs.get(rr + i)
                        if als is not None and len(als) > 1 and rng.random() < 0.5:
                            seq[q + i] = rng.choice([x for x in als if x != seq[q + i]] or als)
                    q += n
                    rr += n
                elif op in ("I", "S"):
                    q += n
                elif op == "D":
                    rr += n
            if bad == FLAG_UNMAPPED:
                cigar = "*"
                mapq = 0
        return ReadSpec(qname, contig, start, cigar, "".join(seq), quals, flag, mapq, rg)


def make_dataset(rng, outdir, n_samples=3, n_loci=3, ploidies=(2, 4), max_snvs=5, multiallelic=True,
                 depth=(5, 30), read_len=(30, 80), error_rate=0.01, features=frozenset(), n_contigs=1,
                 contig_len=600, sample_names=None, softmask=0.0, iupac=0.0, flank_snvs=False) -> Dataset:
    """Generate and write a complete input set for the MCHap programs (see the module docstring).

    * loci: `n_loci` non-overlapping windows (12..60 bp) spread over `n_contigs` contigs, 0..`max_snvs` SNVs each;
      when n_loci >= 3 one locus has no SNV at all, one has >= 2; SNVs are bi-allelic or, with `multiallelic`,
      tri-/tetra-allelic.
    * truth: per locus a small pool of population haplotypes (for one SNV-bearing locus the pool deliberately lacks
      the reference haplotype when n_loci >= 2); each sample draws `ploidy` of them with replacement, sometimes
      with a forced duplicate.  Chromosome k of a sample carries haplotype k at every locus, reference elsewhere.
    * reads: per sample and locus `depth` templates sampled from a random chromosome, overlapping the locus
      partially or fully, with substitution errors at `error_rate`.  `Dataset.reads` is the ground truth of what
      is in the files.
    * features, a subset of `ALL_FEATURES`:
      "indels"   ~20% of the records get one I or D (1..3 bp) inside the locus;
      "clips"    ~30% of the records get S (bases present in SEQ) and / or H ends;
      "mates"    ~40% of the templates are pairs sharing a qname (flags 0x1|0x2|0x40|0x20 and 0x1|0x2|0x80|0x10); the
                 second mate overlaps the first in ~60% of the pairs and then sometimes disagrees with it at one SNV;
      "flags"    ~15% of the records carry one of 0x400 / 0x200 / 0x800 / 0x100 / 0x4 (placed, CIGAR "*") and have
                 half of their SNV bases replaced by another allele of that SNV, so a missing filter changes the data;
                 plus one unplaced unmapped record per sample at the end of the file;
      "lowmapq"  ~30% of the records have MAPQ in {0, 1, 10, 19, 20, 21, 30} (otherwise 60);
      "multi_rg" 2..3 read groups per sample, and the first two samples share one BAM (interleaved @RG lines);
      "nodepth"  one (sample, locus) pair, listed in `Dataset.nodepth`, has no record overlapping the window (records
                 of that sample aimed at neighbouring loci are trimmed so that they stay out of it);
      "lowqual"  ~12% of the bases have phred 2..12 (and err with the matching probability); otherwise phred 25..40.
    * optional (defaults leave everything above unchanged, including the random stream): `sample_names` replaces the
      names S1..Sn; `softmask` > 0 writes the FASTA with lower-case (soft-masked) stretches covering about that fraction of
      every contig (`Dataset.fasta_contigs`); `Dataset.contigs`, the reads and the SNV file stay upper case.
    """
    features = frozenset(features)
    unknown = sorted(features - ALL_FEATURES)
    if unknown:
        raise ValueError(f"unknown features {unknown}")
    if n_samples < 1 or n_loci < 1 or n_contigs < 1:
        raise ValueError("need at least one sample, locus and contig")
    outdir = str(outdir)
    os.makedirs(outdir, exist_ok=True)

    contigs = {f"chr{i + 1}": _rand_seq(rng, contig_len) for i in range(n_contigs)}
    loci = _make_loci(rng, contigs, n_loci, max_snvs, multiallelic)
    with_snvs = [i for i, l in enumerate(loci) if l.snv_positions]
    ref_absent = rng.choice(with_snvs) if (with_snvs and n_loci >= 2) else -1
    pools = [
        _hap_pool(rng, l, ref_absent=(i == ref_absent) or (i != ref_absent and rng.random() < 0.15))
        for i, l in enumerate(loci)
    ]

    samples = [f"S{i + 1}" for i in range(n_samples)]
    if sample_names is not None:
        samples = [str(x) for x in sample_names]
        if len(samples) != n_samples or len(set(samples)) != n_samples:
            raise ValueError("sample_names must be n_samples distinct names")
    pl = list(ploidies)
    order = [pl[i % len(pl)] for i in range(n_samples)]
    rng.shuffle(order)
    ploidy = dict(zip(samples, order))

    truth_alleles = {}
    truth = {}
    chromosomes = {}
    for s in samples:
        truth_alleles[s] = {}
        truth[s] = {}
        for l, pool in zip(loci, pools):
            haps = [list(rng.choice(pool)) for _ in range(ploidy[s])]
            if ploidy[s] >= 2 and rng.random() < 0.3:
                haps[1] = list(haps[0])
            truth_alleles[s][l.name] = haps
            truth[s][l.name] = [_hap_string(contigs, l, v) for v in haps]
        chromosomes[s] = {}
        for c, seq in contigs.items():
            chroms = []
            for k in range(ploidy[s]):
                t = list(seq)
                for l in loci:
                    if l.contig == c:
                        t[l.start:l.stop] = truth[s][l.name][k]
                chroms.append("".join(t))
            chromosomes[s][c] = chroms

    # ---- files and read groups
    sample_bam = {}
    read_groups = {}
    bam_order = []
    if "multi_rg" in features and n_samples >= 2:
        shared = os.path.join(outdir, f"{samples[0]}_{samples[1]}.bam")
        groups = [[samples[0], samples[1]]] + [[s] for s in samples[2:]]
    else:
        shared = None
        groups = [[s] for s in samples]
    sample_rgs = {}
    for g in groups:
        path = shared if len(g) > 1 else os.path.join(outdir, f"{g[0]}.bam")
        bam_order.append(path)
        read_groups[path] = []
        for s in g:
            sample_bam[s] = path
            n_rg = rng.randint(2, 3) if "multi_rg" in features else 1
            ids = [f"{s}.rg{j + 1}" for j in range(n_rg)]
            sample_rgs[s] = ids
            read_groups[path] += [
                {"ID": i, "SM": s, "LB": f"lib.{s}", "PL": "ILLUMINA"} for i in ids
            ]
    if shared is not None:
        # interleave the read groups of the two samples in the header
        rgs = read_groups[shared]
        rgs.sort(key=lambda d: (d["ID"].split(".rg")[1], d["SM"]))

    # ---- a (sample, locus) pair without reads
    nodepth = []
    if "nodepth" in features:
        li = rng.choice(with_snvs) if with_snvs else rng.randrange(len(loci))
        nodepth.append((rng.choice(samples), loci[li].name))
    if "nodepth_all" in features and len(loci) > 1:
        # one locus (with SNVs, if any has) that NO sample has a read over: DP = 0 for every sample, not missing
        li = rng.choice(with_snvs) if with_snvs else rng.randrange(len(loci))
        nodepth = [x for x in nodepth if x[1] != loci[li].name] + [(s_, loci[li].name) for s_ in samples]

    # ---- reads
    maker = _ReadMaker(rng, contigs, loci, features, error_rate, read_len)
    reads = {p: [] for p in bam_order}
    for s in samples:
        forbidden = {c: [] for c in contigs}
        for s2, name in nodepth:
            if s2 == s:
                l = next(x for x in loci if x.name == name)
                forbidden[l.contig].append((l.start, l.stop))
        serial = 0
        for l in loci:
            if (s, l.name) in nodepth:
                continue
            n_templates = rng.randint(*depth)
            for _ in range(n_templates):
                serial += 1
                qname = f"{s}:{l.name}:{serial}"
                k = rng.randrange(ploidy[s])
                cseq = chromosomes[s][l.contig][k]
                rg = rng.choice(sample_rgs[s])
                start, end = maker.span_for(l, forbidden[l.contig])
                if end - start < 1:
                    continue
                if "mates" in features and rng.random() < 0.4:
                    r1 = maker.record(qname, l.contig, start, end, cseq, rg, l,
                                      flag=FLAG_PAIRED | FLAG_PROPER | FLAG_READ1 | FLAG_MREVERSE)
                    clen = len(cseq)
                    L2 = min(rng.randint(*read_len), clen)
                    if rng.random() < 0.6 and end - start >= 2:
                        m_start = rng.randint(start + 1, end - 1)         # overlapping mate
                    else:
                        m_start = end + rng.randint(0, 30)
                    m_start = max(0, min(m_start, clen - L2))
                    m_start, m_end = maker.trim(m_start, m_start + L2, None, forbidden[l.contig])
                    if m_end - m_start < 1:
                        reads[sample_bam[s]].append(r1)
                        continue
                    force = None
                    both = [p for p in l.snv_positions if max(start, m_start) <= p < min(end, m_end)]
                    if both and rng.random() < 0.35:
                        p = rng.choice(both)
                        als = l.snv_alleles[l.snv_positions.index(p)]
                        seen = read_ref_bases(r1).get(p, (cseq[p], None))[0]
                        other = [a for a in als if a != seen] or [_other_base(rng, seen)]
                        force = {p: rng.choice(other)}
                    r2 = maker.record(qname, l.contig, m_start, m_end, cseq, rg, l,
                                      flag=FLAG_PAIRED | FLAG_PROPER | FLAG_READ2 | FLAG_REVERSE,
                                      force=force)
                    r1.mate_contig, r1.mate_pos = r2.contig, r2.pos
                    r2.mate_contig, r2.mate_pos = r1.contig, r1.pos
                    tl = max(r1.ref_end, r2.ref_end) - min(r1.pos, r2.pos)
                    r1.tlen, r2.tlen = tl, -tl
                    reads[sample_bam[s]] += [r1, r2]
                else:
                    strand = FLAG_REVERSE if rng.random() < 0.5 else 0
                    reads[sample_bam[s]].append(
                        maker.record(qname, l.contig, start, end, cseq, rg, l, flag=strand)
                    )
        if "flags" in features:
            # one unplaced unmapped read per sample (no contig, sits at the end of the file)
            n = rng.randint(20, 30)
            reads[sample_bam[s]].append(ReadSpec(
                f"{s}:unplaced", None, -1, "*", _rand_seq(rng, n), [30] * n,
                FLAG_UNMAPPED, 0, sample_rgs[s][0],
            ))

    # ---- write everything
    fasta_contigs = dict(contigs)
    if softmask > 0:
        for c, seq in contigs.items():
            t = list(seq)
            covered = 0
            for _ in range(50):
                if covered >= softmask * len(seq):
                    break
                a = rng.randrange(len(seq))
                b = min(len(seq), a + rng.randint(1, max(1, len(seq) // 4)))
                t[a:b] = [x.lower() for x in t[a:b]]
                covered += b - a
            fasta_contigs[c] = "".join(t)
    if iupac > 0:
        # IUPAC ambiguity codes in the reference FASTA only, at positions that are not SNVs (the reads, their MD tags and the
        # SNV file keep the concrete base): a code that stands for the concrete base replaces about `iupac` of the bases
        codes = {"A": "RWM", "C": "YSM", "G": "RSK", "T": "YWK"}
        snv_pos = {(l.contig, p_) for l in loci for p_ in l.snv_positions}
        if flank_snvs:          # the bases next to the targets carry variant records too (see snv_vcf_text): they keep their concrete base
            snv_pos |= {(l.contig, q_) for l in loci for q_ in (l.start - 1, l.stop)}
        for c, seq in list(fasta_contigs.items()):
            t = list(seq)
            for i_ in range(len(t)):
                if (c, i_) not in snv_pos and t[i_].upper() in codes and rng.random() < iupac:
                    code = rng.choice(codes[t[i_].upper()])
                    t[i_] = code if t[i_].isupper() else code.lower()
            fasta_contigs[c] = "".join(t)
    fasta = write_fasta(os.path.join(outdir, "reference.fasta"), fasta_contigs)
    for p in bam_order:
        reads[p] = sort_reads(contigs, reads[p])
        write_bam(p, contigs, reads[p], read_groups[p])
    snv_vcf = write_snv_vcf(os.path.join(outdir, "snvs.vcf"), contigs, loci, flank_snvs)
    bed = write_bed(os.path.join(outdir, "targets.bed"), loci)
    ploidy_file = write_text(
        # per-sample files are maps by name: written in reverse order of the samples, so that nothing can rely on
        # the lines being aligned with the order of the --bam arguments
        os.path.join(outdir, "ploidy.txt"), "".join(f"{s}\t{ploidy[s]}\n" for s in reversed(samples))
    )
    return Dataset(
        dir=outdir, fasta=fasta, contigs=contigs, samples=samples, ploidy=ploidy, bams=bam_order,
        sample_bam=sample_bam, read_groups=read_groups, reads=reads, snv_vcf=snv_vcf, bed=bed, loci=loci,
        truth=truth, ploidy_file=ploidy_file, features=features, truth_alleles=truth_alleles,
        chromosomes=chromosomes, nodepth=nodepth, fasta_contigs=fasta_contigs,
    )


# --------------------------------------------------------------------------------------
# program runners
# --------------------------------------------------------------------------------------

LAST_STDERR = ""   # stderr text of the last in-process run (warnings, argparse messages)


def exception_chain(e: BaseException) -> str:
    """repr of an exception followed by its causes: "A(..) <- B(..) <- C(..)" (bounded)"""
    parts = []
    seen = 0
    while e is not None and seen < 10:
        parts.append(repr(e))
        e = e.__cause__ or (None if e.__suppress_context__ else e.__context__)
        seen += 1
    return " <- ".join(parts)


def run_program(argv: list) -> tuple:
    """Run an mchap program in this process exactly as the console script would.

    `argv` is the full command line (``["mchap", "assemble", "--bam", ...]``); it becomes ``sys.argv`` and
    `mchap.application.cli.main()` dispatches on it.  Returns ``(stdout text, exit code, error text)``:
    exit code 0 on success, 1 when the program raised (error text = repr of the exception followed by
    `` <- `` and the repr of each chained cause).  Deviation: a ``SystemExit`` (argparse) gives its own code
    (2 for a usage error, 0 for --help) with the captured stderr as error text, as a real process would.
    stdout is redirected to a real temporary file, not a StringIO, so that the forked writer process of
    ``--cores N`` lands in the same place.  sys.stdout / sys.stderr / sys.argv are always restored.
    """
    global LAST_STDERR
    from mchap.application import cli   # lazy: callers set the numba cache directory first

    argv = [str(a) for a in argv]
    old_out, old_err, old_argv = sys.stdout, sys.stderr, sys.argv
    fout = tempfile.TemporaryFile("w+", prefix="synth-out-")
    ferr = tempfile.TemporaryFile("w+", prefix="synth-err-")
    code, err = 0, ""
    try:
        old_out.flush()
        sys.stdout, sys.stderr, sys.argv = fout, ferr, argv
        try:
            cli.main()
        except SystemExit as e:
            code = e.code if isinstance(e.code, int) else (0 if e.code is None else 1)
            err = "SystemExit"
        except BaseException as e:   # noqa: BLE001 - report, never propagate
            if isinstance(e, KeyboardInterrupt):
                raise
            code, err = 1, exception_chain(e)
    finally:
        try:
            fout.flush()
            ferr.flush()
        except Exception:
            pass
        sys.stdout, sys.stderr, sys.argv = old_out, old_err, old_argv
    fout.seek(0)
    out = fout.read()
    ferr.seek(0)
    LAST_STDERR = ferr.read()
    fout.close()
    ferr.close()
    if err == "SystemExit":
        err = LAST_STDERR if code != 0 else ""
    return out, code, err


def run_program_subprocess(argv: list, env: dict | None = None, timeout=600) -> tuple:
    """Same through a real interpreter process; returns (stdout, exit code, stderr text).

    ``sys.argv`` is set to `argv` before `mchap.application.cli.main()` runs, so the ``##commandline`` header is
    the same as in-process.  The environment is `harness.common.subprocess_env(env)` (PYTHONPATH = REPO first).
    A timeout gives exit code 124.
    """
    argv = [str(a) for a in argv]
    code = (
        "import sys; sys.argv = %r; from mchap.application.cli import main; main()" % (argv,)
    )
    try:
        r = subprocess.run(
            [sys.executable, "-c", code], env=C.subprocess_env(env), capture_output=True, text=True,
            timeout=timeout,
        )
    except subprocess.TimeoutExpired as e:
        out = e.stdout.decode() if isinstance(e.stdout, bytes) else (e.stdout or "")
        return out, 124, f"timeout after {timeout} s"
    return r.stdout, r.returncode, r.stderr


# --------------------------------------------------------------------------------------
# VCF text parser (independent of pysam)
# --------------------------------------------------------------------------------------

def parse_vcf_text(text) -> tuple:
    """(header lines, records) of VCF text.

    Header lines are all lines starting with ``#`` (without newline), including the ``#CHROM`` line.
    A record is ``{CHROM, POS(int), ID, REF, ALT(list, [] for "."), QUAL(str), FILTER(str),
    INFO(dict key -> str, True for flags; {} for "."), FORMAT(list of keys), samples(list of dict key -> str,
    trailing omitted keys absent), sample_names(list of str from the #CHROM line)}``.
    Nothing is converted apart from POS; ``line`` holds the raw text of the record.
    """
    header = []
    records = []
    names = []
    for line in text.split("\n"):
        if line.endswith("\r"):
            line = line[:-1]
        if not line:
            continue
        if line.startswith("#"):
            header.append(line)
            if line.startswith("#CHROM"):
                names = line.split("\t")[9:]
            continue
        f = line.split("\t")
        if len(f) < 8:
            raise ValueError(f"VCF record with {len(f)} columns: {line!r}")
        info = {}
        if f[7] != ".":
            for item in f[7].split(";"):
                if not item:
                    continue
                k, eq, v = item.partition("=")
                info[k] = v if eq else True
        fmt = f[8].split(":") if len(f) > 8 and f[8] != "" else []
        samples = []
        for col in f[9:]:
            samples.append(dict(zip(fmt, col.split(":"))))
        records.append({
            "CHROM": f[0], "POS": int(f[1]), "ID": f[2], "REF": f[3],
            "ALT": [] if f[4] == "." else f[4].split(","),
            "QUAL": f[5], "FILTER": f[6], "INFO": info, "FORMAT": fmt,
            "samples": samples, "sample_names": list(names), "line": line,
        })
    return header, records


def vcf_sample_names(header: list) -> list:
    for h in header:
        if h.startswith("#CHROM"):
            return h.split("\t")[9:]
    return []


# --------------------------------------------------------------------------------------
# self-test:  cd /verif && python -m harness.synth
# --------------------------------------------------------------------------------------

def _roundtrip_check(ds: Dataset) -> int:
    """files == specs, and the MD tags written here reproduce the reference through pysam"""
    n = 0
    for p in ds.bams:
        rgs, specs = read_bam(p)
        assert [(g["ID"], g["SM"]) for g in rgs] == [(g["ID"], g["SM"]) for g in ds.read_groups[p]], p
        assert len(specs) == len(ds.reads[p]), p
        for a, b in zip(specs, ds.reads[p]):
            assert a == b, (a, b)
        with pysam.AlignmentFile(p) as f:
            for rec, spec in zip(f.fetch(until_eof=True), ds.reads[p]):
                if spec.cigar == "*" or spec.contig is None:
                    continue
                got = [(q, r, c.upper()) for q, r, c in rec.get_aligned_pairs(matches_only=True, with_seq=True)]
                ref = ds.contigs[spec.contig]
                want = [(q, r, ref[r]) for q, r in aligned_pairs(spec)]
                assert got == want, spec
                n += 1
    return n


def _atomize_safe(text: str) -> str:
    """drop the records on which `atomize` is known to crash (no ALT; an SNV column monomorphic among REF + ALTs)"""
    keep = []
    for line in text.split("\n"):
        if not line or line.startswith("#"):
            keep.append(line)
            continue
        f = line.split("\t")
        if f[4] == ".":
            continue
        m = re.search(r"(?:^|;)SNVPOS=([^;]*)", f[7])
        pos = [] if (m is None or m.group(1) == ".") else [int(x) - 1 for x in m.group(1).split(",")]
        haps = [f[3]] + f[4].split(",")
        if all(len({h[i] for h in haps}) > 1 for i in pos):
            keep.append(line)
    return "\n".join(keep)


def selftest(seed: int | None = None, keep: bool = False) -> int:
    import random
    import time

    t0 = time.time()
    C.setup_numba_cache()
    seed = C.seed() if seed is None else seed
    rng = random.Random(f"synth-selftest:{seed}")
    work = tempfile.mkdtemp(prefix="synth-selftest-")
    ok = True

    def step(name, out, code, err, must_pass=True):
        nonlocal ok
        _, recs = parse_vcf_text(out)
        status = "ok" if code == 0 else f"EXIT {code}: {err[:300]}"
        print(f"  {name:<34} records={len(recs):<4} {status}   [{time.time() - t0:.1f}s]")
        sys.stdout.flush()
        if code != 0 and must_pass:
            ok = False
        return recs

    try:
        ds = make_dataset(rng, os.path.join(work, "ds"), features=ALL_FEATURES)
        n_reads = sum(len(v) for v in ds.reads.values())
        n_checked = _roundtrip_check(ds)
        print(f"dataset: samples={ds.samples} ploidy={ds.ploidy} bams={[os.path.basename(b) for b in ds.bams]}")
        for l in ds.loci:
            print(f"  {l.name} {l.contig}:{l.start}-{l.stop} snvs={[(p, ''.join(a)) for p, a in zip(l.snv_positions, l.snv_alleles)]}")
        print(f"  reads={n_reads} (MD round trip checked on {n_checked}) nodepth={ds.nodepth}  [{time.time() - t0:.1f}s]")

        mcmc = ["--mcmc-steps", "200", "--mcmc-burn", "100"]
        out, code, err = run_program(ds.assemble_argv(*mcmc, "--report", "AFP", "SNVDP"))
        step("assemble (in-process)", out, code, err)
        asm_txt = write_text(os.path.join(work, "assemble.vcf"), out)
        asm_gz = bgzip_tabix_vcf(asm_txt)

        out, code, err = run_program(ds.call_argv("call", asm_gz, *mcmc))
        step("call", out, code, err)
        out, code, err = run_program(ds.call_argv("call-exact", asm_gz))
        step("call-exact", out, code, err)

        singles = ds.single_sample_bams()
        out, code, err = run_program(
            ["mchap", "find-snvs", "--targets", ds.bed, "--reference", ds.fasta, "--bam", *singles,
             "--ind-maf", "0.1", "--ind-mad", "2"]
        )
        step(f"find-snvs ({len(singles)} single-sample bam)", out, code, err)

        out, code, err = run_program(["mchap", "atomize", asm_gz])
        step("atomize (raw assemble output)", out, code, err, must_pass=False)
        if code != 0:
            print("    (known: atomize crashes on records without ALT / with a monomorphic SNV; retrying without them)")
        safe_gz = bgzip_tabix_vcf(write_text(os.path.join(work, "assemble.safe.vcf"), _atomize_safe(open(asm_txt).read())))
        out, code, err = run_program(["mchap", "atomize", safe_gz])
        step("atomize (filtered)", out, code, err)

        # merged single-sample file and the subprocess runner
        merged = merge_bams(os.path.join(work, "merged.bam"), ds.contigs, ds, ds.bams, sample_name="POOL")
        out, code, err = run_program_subprocess(
            ["mchap", "assemble", "--bam", merged, "--ploidy", "4", "--targets", ds.bed, "--variants", ds.snv_vcf,
             "--reference", ds.fasta, *mcmc]
        )
        recs = step("assemble merged bam (subprocess)", out, code, err)
        if code == 0 and (not recs or recs[0]["sample_names"] != ["POOL"]):
            print("    unexpected sample names", recs[0]["sample_names"] if recs else None)
            ok = False

        # runner plumbing: errors come back as exit codes, stdout is restored
        before = sys.stdout
        out, code, err = run_program(["mchap", "assemble", "--bam", ds.bams[0], "--no-such-option"])
        assert code == 2 and "no-such-option" in err, (code, err)
        out, code, err = run_program(ds.assemble_argv("--ploidy", os.path.join(work, "missing.txt")))
        assert code == 1 and err.startswith("FileNotFoundError"), (code, err)
        assert sys.stdout is before
        print(f"  error paths: usage error -> 2, missing file -> 1 ({err[:80]})")
    finally:
        if keep:
            print("kept", work)
        else:
            shutil.rmtree(work, ignore_errors=True)
    print(f"self-test {'PASSED' if ok else 'FAILED'} in {time.time() - t0:.1f}s")
    return 0 if ok else 1


if __name__ == "__main__":
    _seed = None
    _keep = "--keep" in sys.argv
    for _a in sys.argv[1:]:
        if _a.lstrip("-").isdigit():
            _seed = int(_a)
    sys.exit(selftest(_seed, _keep))
