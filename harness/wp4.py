"""Helpers of work package 4 (pedigree: C17 / C18): pedigree structures with per-individual ploidy and tau,
an independent Mendelian-possibility test, the PEDERR oracle and the call-pedigree glue cases.

Nothing in here looks at mchap's pedigree code except where a function says so.
"""
from __future__ import annotations

import itertools
import os

import numpy as np

from . import gen as G

LAMBDA_EDGE = [0.0, 0.0, 0.1, 0.5, 1.0]
ERR_EDGE = [0.0, 0.01, 0.2, 0.5, 1.0]


# ----------------------------------------------------------------------------- pedigree structures
def _tau_known(r, pl):
    """gamete ploidy for a known parent of ploidy pl (never more than the parent holds)"""
    opts = [max(1, pl // 2)] * 4 + [pl, 1, min(pl, pl // 2 + 1), 0]
    return r.choice(opts)


def gen_structure(r, uniform=False, max_ploidy=6, n_max=6, n_min=2):
    """a random pedigree in generation order, then re-indexed by a random permutation.

    returns dict(N, ploidy[N], parents[N,2], tau[N,2], lam[N,2], kinds[N]) as numpy arrays; every individual's ploidy is
    tau_p + tau_q, a known parent never gives more copies than it has, lambda is non-zero only on tau == 2 edges."""
    N = r.randint(n_min, n_max)
    ploidy, parents, tau, lam, kinds = [], [], [], [], []
    upl = r.choice([2, 4, 4, 6])
    ulam = r.choice(LAMBDA_EDGE) if upl == 4 else 0.0
    for i in range(N):
        kind = "founder" if i == 0 else r.choice(["founder", "p", "q", "trio", "trio", "trio", "self", "clone"])
        if kind == "trio" and i < 2:
            kind = r.choice(["p", "q", "self"])
        if kind == "founder":
            pq = [-1, -1]
        elif kind in ("p", "clone"):
            pq = [r.randrange(i), -1]
        elif kind == "q":
            pq = [-1, r.randrange(i)]
        elif kind == "self":
            a = r.randrange(i); pq = [a, a]
        else:
            a, b = r.sample(range(i), 2); pq = [a, b]
        if uniform:
            t = [upl // 2, upl // 2]
        else:
            t = None
            for _ in range(8):                                   # bounded
                c = []
                for j in (0, 1):
                    if pq[j] >= 0:
                        c.append(_tau_known(r, ploidy[pq[j]]))
                    else:
                        c.append(r.choice([1, 2, 2, 3, 0] if kind != "founder" else [1, 1, 2, 2, 2, 3]))
                if kind == "clone":
                    c = [ploidy[pq[0]], 0]
                if kind == "founder" and r.random() < 0.15:
                    c = r.choice([[1, 2], [2, 1], [1, 3], [3, 1], [2, 0], [3, 2]])
                if 1 <= sum(c) <= max_ploidy:
                    t = c
                    break
            if t is None:
                t = [1, 1]
        l = [0.0, 0.0]
        for j in (0, 1):
            if t[j] == 2:
                if uniform:
                    l[j] = ulam
                else:
                    l[j] = r.choice(LAMBDA_EDGE) if pq[j] >= 0 else r.choice([0.0, 0.0, 0.0, 0.1])
        ploidy.append(sum(t)); parents.append(pq); tau.append(t); lam.append(l); kinds.append(kind)
    S = dict(N=N, ploidy=np.array(ploidy, dtype=np.int64), parents=np.array(parents, dtype=np.int64),
             tau=np.array(tau, dtype=np.int64), lam=np.array(lam, dtype=np.float64), kinds=kinds, uniform=uniform)
    return S


def gen_genotypes(r, S, n, mode):
    """one joint state in generation order (list of lists): 'random' or Mendelian draws with optional noise"""
    out = []
    for i in range(S["N"]):
        pl = int(S["ploidy"][i])
        if mode == "random":
            out.append([r.randrange(n) for _ in range(pl)])
            continue
        g = []
        for j in (0, 1):
            par, t, l = int(S["parents"][i, j]), int(S["tau"][i, j]), float(S["lam"][i, j])
            if t == 0:
                continue
            if par < 0:
                g += [r.randrange(n) for _ in range(t)]
            elif t == 2 and l > 0 and r.random() < l:
                a = r.choice(out[par]); g += [a, a]
            else:
                g += r.sample(out[par], t)
        if mode == "noisy" and r.random() < 0.4:
            g[r.randrange(len(g))] = r.randrange(n)
        out.append(g)
    return out


def permute_structure(r, S, extra_rows=()):
    """re-index the individuals by a random permutation (children may now precede their parents).
    `extra_rows`: arrays whose FIRST axis is the individual; returned permuted as well."""
    N = S["N"]
    perm = list(range(N)); r.shuffle(perm)            # new index of old i
    inv = [0] * N
    for old, new in enumerate(perm):
        inv[new] = old
    T = dict(S)
    for k in ("ploidy", "tau", "lam"):
        T[k] = S[k][inv]
    par = S["parents"][inv].copy()
    for i in range(N):
        for j in (0, 1):
            if par[i, j] >= 0:
                par[i, j] = perm[par[i, j]]
    T["parents"] = par
    T["kinds"] = [S["kinds"][o] for o in inv]
    return T, inv, [np.asarray(x)[inv] for x in extra_rows]


# ----------------------------------------------------------------------------- independent Mendelian possibility
def _gamete_possible(g, parent, tau, lam):
    """can the multiset g (tuple) be a gamete of `parent` (list of alleles, None = unknown) with zero error?"""
    if parent is None or tau == 0:
        return True                                   # drawn from the (positive) population frequencies / nothing drawn
    cnt = {}
    for a in g:
        cnt[a] = cnt.get(a, 0) + 1
    hyper = lam < 1 and all(parent.count(a) >= c for a, c in cnt.items())
    dr = lam > 0 and tau == 2 and len(cnt) == 1 and parent.count(g[0]) >= 1
    return hyper or dr


def spec_positive(prog, par_p, par_q, tp, tq, lp, lq):
    """zero parent error, positive frequencies: is there a split of the progeny multiset into a possible gamete of p
    (tau_p alleles) and a possible gamete of q?  Straight from the definition of the inheritance model."""
    prog = list(prog)
    if len(prog) != tp + tq:
        return None
    seen = set()
    for idx in itertools.combinations(range(len(prog)), tp):
        gp = tuple(sorted(prog[i] for i in idx))
        if gp in seen:
            continue
        seen.add(gp)
        s = set(idx)
        gq = tuple(sorted(prog[i] for i in range(len(prog)) if i not in s))
        if _gamete_possible(gp, par_p, tp, lp) and _gamete_possible(gq, par_q, tq, lq):
            return True
    return False


def build_trace(r, S, n, chains, steps, dtype=np.int16, sort=True):
    """(chains, steps, N, max_ploidy) padded with -1; S must be in generation order"""
    N, mp = S["N"], int(S["ploidy"].max())
    trace = np.full((chains, steps, N, mp), -1, dtype=dtype)
    base_mode = r.choice(["mendel", "noisy", "noisy", "random"])
    for c in range(chains):
        for s in range(steps):
            mode = base_mode if r.random() < 0.8 else r.choice(["mendel", "noisy", "random"])
            g = gen_genotypes(r, S, n, mode)
            for i in range(N):
                row = sorted(g[i]) if sort else list(g[i])
                trace[c, s, i, :len(row)] = row
    return trace


def edge_lambda_one(S, i):
    for j in (0, 1):
        if S["parents"][i, j] >= 0 and S["tau"][i, j] == 2 and S["lam"][i, j] == 1.0:
            return True
    return False


def pederr_expectations(prior, S, trace, n):
    """per individual: fraction of observations whose zero-error trio_log_pmf (flat frequencies) is -inf,
    and the fraction that is impossible by `spec_positive`.  `prior` = mchap.pedigree.prior (the pmf under test).
    returns (frac_pmf_zero[N], frac_spec_invalid[N], mismatches[list of dict])"""
    C_, St, N, mp = trace.shape
    flat = trace.reshape(C_ * St, N, mp)
    logf = np.log(np.full(n, 1.0 / n))
    z = lambda: np.zeros(mp, dtype=np.int64)
    sc = dict(dosage=z(), dosage_p=z(), dosage_q=z(), gamete_p=z(), gamete_q=z(), constraint_p=z(), constraint_q=z(),
              dosage_log_frequencies=np.zeros(mp, dtype=np.float64))
    pmf_zero = np.zeros(N); spec_bad = np.zeros(N); mism = []
    for o in range(len(flat)):
        for i in range(N):
            p, q = int(S["parents"][i, 0]), int(S["parents"][i, 1])
            pp = int(S["ploidy"][p]) if p >= 0 else 0
            pq = int(S["ploidy"][q]) if q >= 0 else 0
            tp, tq = int(S["tau"][i, 0]), int(S["tau"][i, 1])
            lp, lq = float(S["lam"][i, 0]), float(S["lam"][i, 1])
            gi = [int(a) for a in flat[o, i] if a >= 0]
            gp = [int(a) for a in flat[o, p] if a >= 0] if p >= 0 else None
            gq = [int(a) for a in flat[o, q] if a >= 0] if q >= 0 else None
            try:
                v = float(prior.trio_log_pmf(flat[o, i], flat[o, p], flat[o, q], pp, pq, tp, tq, lp, lq,
                                             0.0 if p >= 0 else 1.0, 0.0 if q >= 0 else 1.0, logf, **sc))
            except Exception as e:   # noqa: BLE001  (a well-formed trio: raising is a finding, reported by the caller)
                if len(mism) < 3:
                    mism.append({"individual": i, "progeny": gi, "parent_p": gp, "parent_q": gq, "tau": [tp, tq], "lambda": [lp, lq],
                                 "raised": repr(e)})
                v = float("nan")
            zero = not (v > -np.inf)                       # NaN counts as "not positive"
            ok = spec_positive(gi, gp, gq, tp, tq, lp, lq)
            pmf_zero[i] += zero
            spec_bad[i] += (ok is False)
            if ok is not None and (ok == zero) and len(mism) < 3:
                mism.append({"individual": i, "progeny": gi, "parent_p": gp, "parent_q": gq, "tau": [tp, tq], "lambda": [lp, lq],
                             "log_pmf": v, "possible_by_definition": ok})
    return pmf_zero / len(flat), spec_bad / len(flat), mism


# ----------------------------------------------------------------------------- call-pedigree glue
_SYL = ["ka", "mo", "ri", "tu", "ze", "la", "pi", "no", "su", "we", "B", "x9", "Q_", "a-"]


def gen_names(r, N):
    out = []
    for k in range(N):
        for _ in range(20):                                # bounded
            s = "".join(r.choice(_SYL) for _ in range(r.randint(1, 3)))
            if s not in out and s != ".":
                out.append(s)
                break
        else:
            out.append("smp%d" % k)
    return out


def _write(path, rows):
    with open(path, "w") as f:
        for row in rows:
            f.write("\t".join(str(x) for x in row) + "\n")
    return path


def _fmt_float(r, x):
    """a textual form float() reads back exactly"""
    if x == int(x) and r.random() < 0.5:
        return str(int(x))
    return repr(float(x))


def gen_cli_case(r, tmp, tag):
    """files + arguments of one `mchap call-pedigree` pedigree specification, with what they mean.

    returns dict with: args (for parse_pedigree_arguments), names, expected dicts keyed by sample name,
    expected final sample order, S (structure indexed like `names`)."""
    uniform = r.random() < 0.4
    S = gen_structure(r, uniform=uniform, n_max=5)
    S, _, _ = permute_structure(r, S)
    N = S["N"]
    names = gen_names(r, N)
    err = np.zeros((N, 2))
    uerr = r.choice(ERR_EDGE)
    for i in range(N):
        for j in (0, 1):
            err[i, j] = uerr if uniform else r.choice(ERR_EDGE)
    S["err"] = err
    has_bam = [r.random() < 0.7 for _ in range(N)]
    if not any(has_bam):
        has_bam[r.randrange(N)] = True
    bam_order = [i for i in range(N) if has_bam[i]]; r.shuffle(bam_order)
    ped_order = list(range(N)); r.shuffle(ped_order)
    final = bam_order + [i for i in ped_order if not has_bam[i]]
    nm = lambda i: names[i] if i >= 0 else "."
    ped_file = _write(os.path.join(tmp, tag + ".ped"), [(names[i], nm(S["parents"][i, 0]), nm(S["parents"][i, 1])) for i in ped_order])
    forms = {}
    # ploidy
    if len(set(S["ploidy"].tolist())) == 1 and r.random() < 0.6:
        ploidy_arg = str(int(S["ploidy"][0])); forms["ploidy"] = "scalar"
    else:
        rows = [(names[i], int(S["ploidy"][i])) for i in range(N)]
        if r.random() < 0.4:
            rows.append(("not-in-this-run", r.choice([2, 4, 6])))
        r.shuffle(rows)
        ploidy_arg = _write(os.path.join(tmp, tag + ".ploidy"), rows); forms["ploidy"] = "file"
    # gamete ploidy
    half = all(S["ploidy"][i] % 2 == 0 and S["tau"][i, 0] == S["tau"][i, 1] for i in range(N))
    const = len({int(x) for x in S["tau"].reshape(-1)}) == 1
    if half and r.random() < 0.5:
        tau_arg = None; forms["tau"] = "default"
    elif const and r.random() < 0.7:
        tau_arg = str(int(S["tau"][0, 0])); forms["tau"] = "scalar"
    else:
        rows = [(names[i], int(S["tau"][i, 0]), int(S["tau"][i, 1])) for i in range(N)]; r.shuffle(rows)
        tau_arg = _write(os.path.join(tmp, tag + ".tau"), rows); forms["tau"] = "file"

    def float_arg(key, arr):
        vals = {float(x) for x in arr.reshape(-1)}
        if len(vals) == 1 and r.random() < 0.7:
            forms[key] = "scalar"
            return _fmt_float(r, arr[0, 0])
        rows = [(names[i], _fmt_float(r, arr[i, 0]), _fmt_float(r, arr[i, 1])) for i in range(N)]; r.shuffle(rows)
        forms[key] = "file"
        return _write(os.path.join(tmp, tag + "." + key), rows)

    ibd_arg = float_arg("ibd", S["lam"])
    err_arg = float_arg("err", S["err"])
    bam_samples = [names[i] for i in bam_order]
    return dict(S=S, names=names, final=[names[i] for i in final], final_idx=final, has_bam=has_bam, forms=forms,
                bam_samples=bam_samples,
                args=dict(samples=list(bam_samples), sample_bams={s: [(s, "/nonexistent/%s.bam" % s)] for s in bam_samples},
                          ploidy_argument=ploidy_arg, sample_parents_argument=ped_file, gamete_ploidy_argument=tau_arg,
                          gamete_ibd_argument=ibd_arg, gamete_error_argument=err_arg),
                files={"pedigree": open(ped_file).read()})


def expected_arrays(case):
    """the arrays the sampler must receive, rows in the final sample order"""
    S, order = case["S"], case["final_idx"]
    pos = {old: new for new, old in enumerate(order)}
    N = S["N"]
    par = np.full((N, 2), -1, dtype=np.int64)
    for new, old in enumerate(order):
        for j in (0, 1):
            p = int(S["parents"][old, j])
            par[new, j] = pos[p] if p >= 0 else -1
    return dict(sample_ploidy=S["ploidy"][order], sample_parents=par, gamete_tau=S["tau"][order],
                gamete_lambda=S["lam"][order], gamete_error=S["err"][order])


def gen_locus(r):
    """LocusPrior ingredients: a short reference, 1-3 SNVs (some multi-allelic), 1-4 distinct haplotype strings"""
    n_pos = r.choice([1, 2, 2, 3])
    L = 2 * n_pos + 1
    seq = [r.choice("ACGT") for _ in range(L)]
    positions = sorted(r.sample(range(L), n_pos))
    alleles = []
    for p in positions:
        others = [c for c in "ACGT" if c != seq[p]]; r.shuffle(others)
        alleles.append(tuple([seq[p]] + others[:r.choice([1, 1, 2, 3])]))
    n_haps = r.choice([1, 2, 3, 3, 4])
    haps = ["".join(seq)]
    for _ in range(30):                                         # bounded
        if len(haps) >= n_haps:
            break
        h = list(seq)
        for p, al in zip(positions, alleles):
            h[p] = r.choice(al)
        h = "".join(h)
        if h not in haps:
            haps.append(h)
    n = len(haps)
    kind = r.choice(["flat", "skew", "zero"]) if n >= 3 else r.choice(["flat", "skew"])
    if kind == "flat":
        f = np.full(n, 1.0 / n)
    else:
        v = np.array([r.random() + 0.1 for _ in range(n)])
        if kind == "zero":
            v[r.randrange(1, n)] = 0.0
        f = v / v.sum()
    mask_ref = n >= 2 and r.random() < 0.2
    return dict(sequence="".join(seq), positions=positions, alleles=alleles, haps=haps, frequencies=f, mask_ref=mask_ref, kind=kind)


def gen_sample_reads(r, alleles, has_bam):
    n_all = [len(a) for a in alleles]
    n_pos, mx = len(n_all), max(n_all)
    if not has_bam or r.random() < 0.1:
        return np.empty((0, n_pos, mx)), np.empty(0, dtype=np.int64), np.empty((0, n_pos), dtype=np.int8)
    k = r.randint(1, 4)
    reads, counts = G.gen_reads(r, n_all, k, gap=0.2, style="encoded")
    calls = np.array([[r.randrange(-1, a) for a in n_all] for _ in range(k)], dtype=np.int8)
    return reads, counts, calls
