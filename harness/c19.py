"""C19 — find-snvs depths equal the filtered pileup; thresholds applied as documented.

Correspondence: `find_snvs.bam_region_depths`, `find_snvs.write_vcf_block` (with the real depths and with prescribed depth
tensors) and `mchap find-snvs` stdout on BAMs written from known ReadSpecs, against the Lean model
(`Model/FindSnvs.lean`), which mirrors the code as it is: the configured read filters are translated into pysam's
`flag_filter` / `min_mapping_quality`, everything else is left at the engine's defaults (secondary records masked, base
quality >= 13, orphan mates dropped, overlapping mates merged).

Implementation oracles: the PROPERTY evaluated independently — depths = base calls among the reads passing the
*configured* filters, one generator stream per feature so that each deviation of the real code gets its own signature;
allele listed iff thresholds, emitted iff >= 2 listed, REF first / REFMASKED, ALT by decreasing mean sample frequency.
"""
from __future__ import annotations

import contextlib
import io
import os
import shutil
import tempfile
from fractions import Fraction

import numpy as np

from . import common as C
from . import synth as S
from .c06 import DUP, QCFAIL, SECONDARY, SUPP, UNMAPPED, Ctx, _name, rand_cigar, tok_reads

PROP = "C19"
MODULE = "MCHap.Properties.C19"
THEOREMS = [
    "MCHap.C19.enginePasses_engineCfgOf",
    "MCHap.C19.depths_eq_spec_partial",
    "MCHap.C19.filter_option_effect",
    "MCHap.C19.depths_monotone_in_filters",
    "MCHap.C19.depths_ne_spec_witness",
    "MCHap.C19.old_engine_regression",
    "MCHap.C19.specDepth_monotone_in_filters",
    "MCHap.C19.specDepth_filter_effect",
    "MCHap.C19.keepAllele_iff",
    "MCHap.C19.indOk_iff",
    "MCHap.C19.listed_iff_thresholds",
    "MCHap.C19.emitted_iff_two",
    "MCHap.C19.ref_first_masked_iff",
    "MCHap.C19.alts_sorted",
    "MCHap.C19.alts_nodup_complete",
]
RULE = ("cases: (1) bam_region_depths on 1..3 single-sample BAMs x region x configured filters, one stream per read feature "
        "(clean, mapq, duplicate, qcfail, supplementary, secondary, base quality < 13, orphan mates, overlapping mates, mixed synth "
        "datasets); (2) write_vcf_block on prescribed depth tensors x threshold grid (exact ties at the thresholds, zero-depth "
        "samples, non-ACGT reference bases); (3) mchap find-snvs stdout. Non-trivial: depths — a read inside the region is "
        "governed by a configured filter or an engine default and an indel/clip lies in the region; sites — >= 2 samples, an "
        "allele exactly at a threshold or a masked reference. Distinct by canonical request line. WP3: depth streams multiflag / "
        "noqual / edges, pileups around 8000 reads, fixed differences in the tensors, and an end-to-end CLI stream "
        "(harness/wp3_c19.py: read groups, --read-group-field ID, --bam list files, numeric contigs, BED shapes, contig ends, "
        "pairwise distinct thresholds with --min-ind in 1..n) with the property evaluated on the ReadSpecs.")

BASES = "ACGT"
CAUSES = {
    "mapq": "mapq-ignored",
    "dup": "keep-duplicates-ignored",
    "qcfail": "keep-qcfail-ignored",
    "supp": "supplementary-not-dropped",
    "secondary": "secondary-dropped",
    "baseq": "baseq13-dropped",
    "orphans": "orphans-dropped",
    "overlap": "overlapping-mates-merged",
}


# --------------------------------------------------------------------------------------
# the property: depths among the reads passing the configured filters
# --------------------------------------------------------------------------------------

def spec_depths(specs, contig, start, stop, minq, skip_dup, skip_qc, skip_supp, min_baseq=0, drop_orphans=False,
                drop_secondary=False):
    out = np.zeros((stop - start, 4), dtype=np.int64)
    for s in specs:
        if s.contig != contig or (s.flag & UNMAPPED) or not S.parse_cigar(s.cigar):
            continue
        if s.mapq < minq:
            continue
        if (s.flag & DUP) and skip_dup:
            continue
        if (s.flag & QCFAIL) and skip_qc:
            continue
        if (s.flag & SUPP) and skip_supp:
            continue
        if drop_secondary and (s.flag & SECONDARY):
            continue
        if drop_orphans and (s.flag & 0x1) and not (s.flag & 0x2):
            continue
        for qi, r in S.aligned_pairs(s):
            if start <= r < stop:
                if s.quals is not None and s.quals[qi] < min_baseq:
                    continue
                k = BASES.find(s.seq[qi].upper())
                if k >= 0:
                    out[r - start, k] += 1
    return out


def spec_variant(cause, specs, contig, start, stop, cfg):
    """the spec with exactly one known deviation of the engine applied (to attribute a difference to its cause)"""
    minq, sd, sq, ss = cfg
    kw = {}
    if cause == "mapq":
        minq = 0
    elif cause == "dup":
        sd = True
    elif cause == "qcfail":
        sq = True
    elif cause == "supp":
        ss = False
    elif cause == "secondary":
        kw["drop_secondary"] = True
    elif cause == "baseq":
        kw["min_baseq"] = 13
    elif cause == "orphans":
        kw["drop_orphans"] = True
    else:
        return None
    return spec_depths(specs, contig, start, stop, minq, sd, sq, ss, **kw)


# --------------------------------------------------------------------------------------
# generators
# --------------------------------------------------------------------------------------

def depth_case(r, stream):
    """1..3 single-sample BAMs over one contig, a region, records carrying only the feature of `stream`"""
    L = r.randint(100, 150)
    contigs = {"c1": "".join(r.choice(BASES) for _ in range(L)), "c2": "".join(r.choice(BASES) for _ in range(60))}
    start = r.randint(25, 50)
    stop = start + r.randint(3, 30)
    if stream == "edges":        # the region touches the first / last base of the contig (or is the whole contig)
        u = r.random()
        start, stop = (0, r.randint(1, 25)) if u < 0.45 else ((L - r.randint(1, 25), L) if u < 0.9 else (0, L))
    n_bam = r.choice([1, 1, 2, 3])
    hot = sorted(r.sample(range(start, stop), min(stop - start, r.randint(1, 4))))    # polymorphic positions
    alt = {p: r.choice([b for b in BASES if b != contigs["c1"][p]]) for p in hot}
    bams = []
    for b in range(n_bam):
        specs = []
        n_reads = r.randint(5, 22)
        serial = 0
        while serial < n_reads:
            serial += 1
            qname = f"b{b}r{serial}"
            contig = "c1" if r.random() < 0.93 else "c2"
            ref = contigs[contig]

            def make(pos_hint=None, flag=0, force=None, no_del=False):
                ops = rand_cigar(r, r.randint(4, 35))
                if no_del:      # htslib's treatment of deletions inside overlapping mates is not modelled
                    ops = [(n, "I" if op in "DN" else op) for n, op in ops]
                ref_len = sum(n for n, op in ops if op in "MDN=X")
                if pos_hint is None:
                    pos = r.randint(start - ref_len, stop) if contig == "c1" else r.randint(0, 10)
                else:
                    pos = pos_hint
                pos = max(0, min(pos, len(ref) - ref_len))
                seq, quals = [], []
                rr = pos
                for n, op in ops:
                    if op in "M=X":
                        for x in range(n):
                            bch = ref[rr + x]
                            if contig == "c1" and (rr + x) in alt and r.random() < 0.45:
                                bch = alt[rr + x]
                            elif r.random() < 0.03:
                                bch = r.choice("ACGTN")
                            if force and (rr + x) in force:
                                bch = force[rr + x]
                            seq.append(bch)
                            quals.append(r.randint(13, 41))
                        rr += n
                    elif op in "DN":
                        rr += n
                    elif op in "IS":
                        for _ in range(n):
                            seq.append(r.choice(BASES))
                            quals.append(r.randint(13, 41))
                cigar = "".join(f"{n}{op}" for n, op in ops)
                fl = flag | (0x10 if r.random() < 0.5 else 0)
                return S.ReadSpec(qname, contig, pos, cigar, "".join(seq), quals, fl, 60, "rg")

            a = make()
            mate = None
            special = r.random() < 0.4
            if stream == "mapq" and r.random() < 0.6:
                a.mapq = r.choice([0, 1, 10, 19, 20, 21, 30, 59])
            elif stream == "dup" and special:
                a.flag |= DUP
            elif stream == "qcfail" and special:
                a.flag |= QCFAIL
            elif stream == "supp" and special:
                a.flag |= SUPP
            elif stream == "secondary" and special:
                a.flag |= SECONDARY
            elif stream == "multiflag" and r.random() < 0.6:
                # several configured exclusion flags at once: the record stays only if ALL of its flags are kept
                bits = r.choice([(DUP, QCFAIL), (DUP, SUPP), (QCFAIL, SUPP), (DUP, QCFAIL, SUPP), (DUP,), (QCFAIL,), (SUPP,)])
                for b_ in bits:
                    a.flag |= b_
                if r.random() < 0.3:
                    a.mapq = r.choice([0, 19, 20, 21])
            elif stream == "noqual" and r.random() < 0.5:
                a.quals = None                      # SAM QUAL '*': no base can fail a base-quality test
            elif stream == "baseq":
                a.quals = [r.randint(0, 12) if r.random() < 0.3 else q for q in a.quals]
                if r.random() < 0.15:
                    a.quals = [12 if i % 2 else 13 for i in range(len(a.quals))]
            elif stream == "orphans" and special:
                a.flag |= 0x1 | r.choice([0x40, 0x80]) | r.choice([0, 0x8, 0x20])
            elif stream in ("overlap", "clean") and r.random() < 0.5 and contig == "c1":
                # a proper pair; in the clean stream the mate starts after the first record ends
                a.flag = (a.flag & ~0x10) | 0x1 | 0x2 | 0x40 | 0x20
                if stream == "overlap":
                    a = make(no_del=True)
                    a.flag = 0x1 | 0x2 | 0x40 | 0x20
                    m_pos = r.randint(a.pos, max(a.pos, a.ref_end - 1))
                    force = None
                    if r.random() < 0.5:
                        covered = [rp for _, rp in S.aligned_pairs(a) if start <= rp < stop and rp >= m_pos]
                        if covered:
                            p = r.choice(covered)
                            seen = {rp: a.seq[qi] for qi, rp in S.aligned_pairs(a)}[p]
                            force = {p: r.choice([x for x in BASES if x != seen])}
                    mate = make(m_pos, 0x1 | 0x2 | 0x80 | 0x10, force, no_del=True)
                    if mate.pos < a.pos:
                        mate = None
                else:
                    mate = make(min(a.ref_end + r.randint(0, 6), len(ref) - 1), 0x1 | 0x2 | 0x80 | 0x10)
                    if mate.pos < a.ref_end:
                        mate = None
                if mate is None:
                    a.flag &= ~(0x1 | 0x2 | 0x40 | 0x20)
                else:
                    mate.flag = 0x1 | 0x2 | 0x80 | 0x10
                    a.mate_contig, a.mate_pos = mate.contig, mate.pos
                    mate.mate_contig, mate.mate_pos = a.contig, a.pos
                    tl = max(a.ref_end, mate.ref_end) - min(a.pos, mate.pos)
                    a.tlen, mate.tlen = tl, -tl
            if stream == "unmapped" and special:
                a.flag |= UNMAPPED
            specs.append(a)
            if mate is not None:
                specs.append(mate)
        specs = S.sort_reads(contigs, specs)
        bams.append(specs)
    return contigs, start, stop, bams


def overlapping_pair_with_deletion(specs, contig, start, stop) -> bool:
    """two records of one read name that can pass the engine under SOME configuration (duplicates, QC-fails and
    supplementary records pass when their keep flag is set; only unmapped and secondary records never do) and that
    overlap on the reference, one of them with a D / N op"""
    byq = {}
    for s in specs:
        if s.contig != contig or not (s.pos < stop and s.ref_end > start) or (s.flag & 0x104):
            continue
        if (s.flag & 0x1) and not (s.flag & 0x2):
            continue
        byq.setdefault(s.qname, []).append(s)
    for ss in byq.values():
        for i in range(len(ss)):
            for j in range(i + 1, len(ss)):
                a, b = ss[i], ss[j]
                if a.pos < b.ref_end and b.pos < a.ref_end and any(op in "DN" for x in (a, b) for _, op in S.parse_cigar(x.cigar)):
                    return True
    return False


def cfg_grid(r, stream, n):
    out = []
    for _ in range(n):
        minq = r.choice([0, 1, 20, 21, 30, 60]) if stream in ("mapq", "mixed", "multiflag") else r.choice([0, 20, 60])
        if stream == "multiflag" and r.random() < 0.7:
            keep = r.randrange(3)       # exactly one of the three exclusions is lifted
            out.append((minq, keep != 0, keep != 1, keep != 2))
            continue
        out.append((minq, r.random() < 0.5, r.random() < 0.5, r.random() < 0.5))
    return out


# --------------------------------------------------------------------------------------
# thresholds: the property evaluated with exact arithmetic
# --------------------------------------------------------------------------------------

def dec(x: str) -> Fraction:
    return Fraction(x)


def site_property(ref_char, ds, th, maf_over_all_samples=False):
    """None (no usable reference) | dict with the sets / keys the property talks about.

    `maf_over_all_samples` evaluates the --maf test the way the code did before /repo commit 6204576 (np.mean: NaN as soon as
    a sample has no reads) — used only to attribute a deviation to that cause."""
    maf, mad, imaf, imad, minind = th
    refi = BASES.find(ref_char.upper())
    if refi < 0:
        return None
    tot = [sum(d) for d in ds]
    freq = [[None if t == 0 else Fraction(d[a], t) for a in range(4)] for d, t in zip(ds, tot)]
    meets = []
    mean = []
    for a in range(4):
        n_ok = sum(1 for s in range(len(ds)) if freq[s][a] is not None and freq[s][a] >= imaf and ds[s][a] >= imad)
        fs = [freq[s][a] for s in range(len(ds)) if freq[s][a] is not None]
        m = None if not fs else sum(fs) / len(fs)
        mean.append(m)
        ok = n_ok >= minind
        if maf > 0:
            if maf_over_all_samples and any(freq[s][a] is None for s in range(len(ds))):
                ok = False
            else:
                ok = ok and m is not None and m >= maf
        if mad > 0:
            ok = ok and sum(d[a] for d in ds) >= mad
        meets.append(ok)
    kept = [a for a in range(4) if meets[a]]
    return {"ref": refi, "meets": meets, "mean": mean, "emit": len(kept) >= 2,
            "zero_depth_sample": any(t == 0 for t in tot), "tot": tot, "freq": freq}


def thresh_tokens(th_str) -> list:
    maf, mad, imaf, imad, minind = th_str
    f1, f2 = Fraction(maf), Fraction(imaf)
    return [f"{f1.numerator}/{f1.denominator}", str(int(mad)), f"{f2.numerator}/{f2.denominator}", str(int(imad)), str(int(minind))]


def parse_model_site(txt):
    if txt == "-":
        return None
    ref, alts, masked, pop, admf, ad = txt.split(" ")
    return {"ref": ref, "alts": [] if alts == "*" else list(alts), "masked": masked == "1",
            "pop": [int(x) for x in pop.split(",")], "admf": admf.split(","),
            "ad": [[int(x) for x in s.split(",")] for s in ad.split("|")] if ad else []}


def parse_impl_record(rec):
    info = rec["INFO"]
    if "AD" not in info or "ADMF" not in info or any("AD" not in s for s in rec["samples"]):
        return {"ref": rec["REF"], "alts": list(rec["ALT"]), "masked": "REFMASKED" in info, "pop": [], "admf": [], "ad": []}
    return {"ref": rec["REF"], "alts": list(rec["ALT"]), "masked": "REFMASKED" in info,
            "pop": [int(x) for x in str(info["AD"]).split(",")], "admf": str(info["ADMF"]).split(","),
            "ad": [[int(x) for x in s["AD"].split(",")] for s in rec["samples"]]}


def compare_site(impl, model, tie_ok):
    """'' if equal, else what differs; with `tie_ok` the ALT alleles are compared as (allele, columns) sets"""
    if (impl is None) != (model is None):
        return f"emitted impl={impl is not None} model={model is not None}"
    if impl is None:
        return ""
    if impl["ref"] != model["ref"] or impl["masked"] != model["masked"]:
        return "REF / REFMASKED"
    for x in (impl, model):
        n = 1 + len(x["alts"])
        if len(x["pop"]) != n or len(x["admf"]) != n or any(len(s) != n for s in x["ad"]):
            return "malformed record (field lengths)"

    def cols(x):
        out = []
        for i, a in enumerate([x["ref"]] + x["alts"]):
            out.append((a, x["pop"][i], tuple(s[i] for s in x["ad"])))
        return out
    ci, cm = cols(impl), cols(model)
    if len(impl["admf"]) != len(ci) or len(model["admf"]) != len(cm):
        return "field lengths"
    if (sorted(ci) != sorted(cm)) if tie_ok else (ci != cm):
        return "alleles / AD"
    mi = dict(zip([c[0] for c in ci], impl["admf"]))
    mm = dict(zip([c[0] for c in cm], model["admf"]))
    for a in mi:
        x, y = mi[a], mm[a]
        if y == "nan" or x in ("nan", "."):
            if not (y == "nan" and x in ("nan", ".")):
                return f"ADMF {a}: {x} vs {y}"
            continue
        if abs(float(x) - float(C.parse_rat(y))) > 0.0005 + 1e-9:
            return f"ADMF {a}: {x} vs {y}"
    return ""


def gen_depth_tensor(r, n_samples, n_pos, th, zero_samples, ref_idx=None, r2=None):
    """depths with alleles exactly at, just below and just above the thresholds; with `ref_idx` (reference allele index per
    position) some sites are fixed differences (every read carries one non-reference base) or sites where the reference has
    a read or two and exactly one other allele has the rest"""
    maf, mad, imaf, imad, minind = th
    out = []
    special = {}
    for p_ in range(n_pos):
        # drawn from a generator of its own (`r2`): the sites drawn from `r` are the same with and without this feature
        if ref_idx is not None and r2 is not None and ref_idx[p_] >= 0 and r2.random() < 0.12:
            b_ = r2.choice([a for a in range(4) if a != ref_idx[p_]])
            few = r2.random() < 0.5
            site = []
            for s in range(n_samples):
                d = [0, 0, 0, 0]
                if not (zero_samples and r2.random() < 0.2):
                    d[b_] = r2.choice([4, 8, 10, 16, 20, 40])
                    if few:
                        d[ref_idx[p_]] = r2.choice([0, 1, 1, 2])
                site.append(d)
            special[p_] = site
        elif ref_idx is not None and r2 is not None and ref_idx[p_] >= 0 and r2.random() < 0.08:
            # deep site with two alternative alleles whose mean frequencies differ by less than the printed precision
            # (a few parts in 10^4): the documented order is by the frequencies themselves, not by what is printed
            alts_ = [a for a in range(4) if a != ref_idx[p_]]
            r2.shuffle(alts_)
            a_, b_ = alts_[0], alts_[1]
            site = []
            for s in range(n_samples):
                d = [0, 0, 0, 0]
                if not (zero_samples and r2.random() < 0.2):
                    tot = r2.choice([2000, 3000, 4001, 6000])
                    k = r2.randint(tot // 5, tot // 3)
                    d[a_] = k + r2.choice([1, 1, 2])
                    d[b_] = k
                    d[ref_idx[p_]] = tot - d[a_] - d[b_]
                site.append(d)
            special[p_] = site
    for p_ in range(n_pos):
        site = []
        kind = r.random()
        for s in range(n_samples):
            if zero_samples and r.random() < 0.3:
                site.append([0, 0, 0, 0])
                continue
            tot = r.choice([4, 8, 10, 10, 16, 20, 30, 40, 100])
            d = [0, 0, 0, 0]
            order = list(range(4))
            r.shuffle(order)
            n_alleles = r.choice([1, 2, 2, 2, 3, 4])
            rem = tot
            for i, a in enumerate(order[:n_alleles]):
                if i == n_alleles - 1:
                    d[a] = rem
                else:
                    if kind < 0.5 and imaf > 0:
                        k = int(imaf * tot) + r.choice([-1, 0, 0, 1])     # around the individual frequency threshold
                    elif kind < 0.7 and imad > 0:
                        k = int(imad) + r.choice([-1, 0, 1])
                    else:
                        k = r.randint(0, rem)
                    k = max(0, min(k, rem))
                    d[a] = k
                    rem -= k
            site.append(d)
        out.append(special.get(p_, site))
    return out


# --------------------------------------------------------------------------------------
# run
# --------------------------------------------------------------------------------------

def run(tier, replay=None):
    from mchap.application import find_snvs as FS

    chk = C.Check(PROP, tier, MODULE, THEOREMS, RULE, assumptions=[
        "the pileup engine (htslib bam_plp + pysam's PileupColumn.get_query_sequences) is modelled from its documented defaults "
        "and source (flag filter 0x704, min_base_quality 13, ignore_orphans, overlap quality tweak) and tied to the real engine only by "
        "the correspondence; the model has no depth cap (pileups deeper than 8000 reads are compared with the property oracle only, "
        "stream maxdepth); at most two engine-passing alignments share a read name",
        "thresholds are the decimal values typed on the command line (exact in the model); float comparisons of a mean (over the samples with reads) of >= 2 "
        "sample frequencies that is exactly at --maf, and ALT order among exactly tied means with >= 2 samples, are compared as sets "
        "(Appendix A) and counted as tie-skipped",
        "ADMF is compared after rounding to 3 decimals (tolerance 5e-4)",
    ], exe="driver_io")
    chk.prove()
    drv = C.Driver("driver_io")
    ctx = Ctx(chk, drv, tier)
    r = C.rng(PROP)
    work = tempfile.mkdtemp(prefix="c19-", dir=os.environ.get("TMPDIR", "/tmp"))
    per_stream = {"warm": 1, "quick": 45, "thorough": 300}[tier]
    n_thresh = {"warm": 4, "quick": 1200, "thorough": 7000}[tier]
    n_cli = {"warm": 1, "quick": 6, "thorough": 40}[tier]
    deviations = {}

    def report_deviation(sig, what, case):
        deviations[sig] = deviations.get(sig, 0) + 1
        chk.violation(what, case, signature=sig)

    try:
        # ------------------------------------------------------------ (1) depths, one stream per feature
        streams = ["clean", "unmapped", "mapq", "dup", "qcfail", "supp", "secondary", "baseq", "orphans", "overlap",
                   "multiflag", "noqual", "edges"]
        for stream in streams:
            # the WP3 streams draw from generators of their own: the cases of the older streams stay what they were
            r_old = r
            if stream in ("multiflag", "noqual", "edges"):
                r = C.rng(PROP + ":" + stream)
            for i in range(per_stream):
                contigs, start, stop, bams = depth_case(r, stream)
                d = os.path.join(work, "depth")
                os.makedirs(d, exist_ok=True)
                fasta = S.write_fasta(os.path.join(d, "ref.fa"), contigs)
                paths = [S.write_bam(os.path.join(d, f"b{j}.bam"), contigs, specs, [{"ID": "rg", "SM": f"s{j}"}])
                         for j, specs in enumerate(bams)]
                for cfg in cfg_grid(r, stream, 3):
                    minq, sd, sq, ss = cfg
                    got = FS.bam_region_depths(paths, fasta, "c1", start, stop, dtype=np.int64, min_quality=minq,
                                               skip_duplicates=sd, skip_qcfail=sq, skip_supplementary=ss)
                    impl = " ".join("|".join(",".join(str(int(x)) for x in got[p, j]) for j in range(len(paths)))
                                    for p in range(stop - start))
                    toks = ["c19.depths", "c1", str(start), str(stop), str(minq), str(int(sd)), str(int(sq)), str(int(ss)),
                            str(len(bams))]
                    for specs in bams:
                        toks += tok_reads(specs, contigs)
                    line = " ".join(toks)
                    case = {"stream": stream, "region": ["c1", start, stop], "cfg": {"min_quality": minq, "skip_duplicates": sd,
                            "skip_qcfail": sq, "skip_supplementary": ss},
                            "reads": [[(s.qname, s.contig, s.pos, s.cigar, s.seq, s.quals, s.flag, s.mapq, s.mate_pos, s.tlen)
                                       for s in specs if s.contig == "c1" and s.pos < stop + 3 and s.ref_end > start - 3]
                                      for specs in bams]}
                    chk.count(f"depths:{stream}")
                    governed = any((s.flag & (DUP | QCFAIL | SUPP | SECONDARY)) or s.mapq < 60 or (s.flag & 1) or
                                   (s.quals and min(s.quals) < 13) for specs in bams for s in specs
                                   if s.contig == "c1" and s.pos < stop and s.ref_end > start)
                    structural = any(op in "IDNS" for specs in bams for s in specs
                                     if s.contig == "c1" and s.pos < stop and s.ref_end > start
                                     for _, op in S.parse_cigar(s.cigar))

                    def cb(model, impl=impl, line=line, case=case, nt=governed and structural):
                        chk.case(line, nt, sample={"request": line[:300], "impl": impl[:200], "model": model[:200]})
                        if model != impl:
                            chk.disagreement("bam_region_depths != model", {**case, "impl": impl, "model": model})
                    ctx.ask(line, cb)
                    # ---- the property
                    for j, specs in enumerate(bams):
                        want = spec_depths(specs, "c1", start, stop, minq, sd, sq, ss)
                        have = got[:, j, :]
                        if np.array_equal(want, have):
                            continue
                        where = [int(p) + start for p in np.nonzero((want != have).any(axis=1))[0]]
                        info = {**case, "bam": j, "positions": where[:8],
                                "impl": have[[p - start for p in where[:8]]].tolist(),
                                "expected": want[[p - start for p in where[:8]]].tolist()}
                        cause = CAUSES.get(stream)
                        explained = False
                        if stream == "overlap":
                            # positions covered by both records of a pair
                            both = set()
                            byq = {}
                            for s in specs:
                                byq.setdefault(s.qname, []).append({rp for _, rp in S.aligned_pairs(s)})
                            for cols in byq.values():
                                if len(cols) == 2:
                                    both |= cols[0] & cols[1]
                            explained = all(p in both for p in where) and bool((have <= want).all())
                        elif cause is not None:
                            v = spec_variant(stream, specs, "c1", start, stop, cfg)
                            explained = v is not None and np.array_equal(v, have)
                        if explained:
                            report_deviation(f"C19/bam_region_depths/{cause}",
                                             f"depths are not the base calls among the reads passing the configured filters ({cause})", info)
                        else:
                            report_deviation("C19/bam_region_depths/unexplained",
                                             "depths differ from the configured-filter pileup in a way none of the known causes explains", info)
                        break
                ctx.flush()
            r = r_old

        # mixed synthetic datasets: correspondence only (several causes at once)
        n_mixed = {"warm": 1, "quick": 10, "thorough": 80}[tier]
        cli_sets = []
        for i in range(n_mixed):
            feats = set(S.ALL_FEATURES) - {"multi_rg"} if i == 0 else {f for f in sorted(S.ALL_FEATURES) if f != "multi_rg" and r.random() < 0.5}
            d = os.path.join(work, f"mixed{i}")
            ds = S.make_dataset(r, d, n_samples=r.choice([1, 2, 3]), n_loci=3, max_snvs=4, depth=(4, 12), read_len=(15, 60),
                                features=feats, contig_len=300)
            paths = ds.single_sample_bams()
            for loc in ds.loci:
                if any(overlapping_pair_with_deletion(ds.reads[p], loc.contig, loc.start, loc.stop) for p in paths):
                    chk.count("depths:mixed-skipped(overlapping mates with a deletion)")
                    continue
                for cfg in cfg_grid(r, "mixed", 2):
                    minq, sd, sq, ss = cfg
                    got = FS.bam_region_depths(paths, ds.fasta, loc.contig, loc.start, loc.stop, dtype=np.int64,
                                               min_quality=minq, skip_duplicates=sd, skip_qcfail=sq, skip_supplementary=ss)
                    impl = " ".join("|".join(",".join(str(int(x)) for x in got[p, j]) for j in range(len(paths)))
                                    for p in range(loc.stop - loc.start))
                    toks = ["c19.depths", loc.contig, str(loc.start), str(loc.stop), str(minq), str(int(sd)), str(int(sq)),
                            str(int(ss)), str(len(paths))]
                    for p in paths:
                        toks += tok_reads(ds.reads[p], ds.contigs)
                    line = " ".join(toks)
                    chk.count("depths:mixed")

                    def cb(model, impl=impl, line=line, feats=sorted(feats), loc=loc.name):
                        chk.case(line, True)
                        if model != impl:
                            chk.disagreement("bam_region_depths != model (mixed dataset)",
                                             {"features": feats, "locus": loc, "impl": impl[:1500], "model": model[:1500]})
                    ctx.ask(line, cb)
            ctx.flush()
            if len(cli_sets) < n_cli:
                cli_sets.append(ds)
            else:
                shutil.rmtree(d, ignore_errors=True)

        # ------------------------------------------------------------ (2) thresholds on prescribed depth tensors
        ref_contig = "".join(r.choice("ACGTACGTACGTNacgtRY") for _ in range(400))
        fasta = S.write_fasta(os.path.join(work, "thr.fa"), {"t1": ref_contig})
        real_depths = FS.bam_region_depths
        r_fixed = C.rng(PROP + ":fixed-differences")
        try:
            for i in range(n_thresh):
                boundary = r.random() < 0.12
                n_samples = r.choice([1, 1, 2, 3, 4])
                th_str = (r.choice(["0.0", "0.0", "0.05", "0.1", "0.25", "0.5"]), r.choice(["0", "0", "1", "2", "5", "20"]),
                          r.choice(["0.1", "0.1", "0.25", "0.5", "0.05", "0.0"]), r.choice(["3", "0", "1", "2", "5"]),
                          r.choice(["1", "1", "2", "3"]))
                if boundary:
                    th_str = (r.choice(["0.0", "1.0", "0.1"]), r.choice(["0", "-1", "1000"]), r.choice(["0.0", "1.0"]),
                              r.choice(["0", "-1"]), r.choice(["1", str(n_samples), str(n_samples + 1)]))
                th = (dec(th_str[0]), int(th_str[1]), dec(th_str[2]), int(th_str[3]), int(th_str[4]))
                zero_samples = r.random() < 0.25
                sub = "zero-depth-sample" if zero_samples else ("boundary" if boundary else "grid")
                start = r.randint(0, 380)
                n_pos = r.randint(3, 10)
                stop = min(400, start + n_pos)
                n_pos = stop - start
                tensor = gen_depth_tensor(r, n_samples, n_pos, th, zero_samples,
                                          [BASES.find(ref_contig[start + p].upper()) for p in range(n_pos)], r_fixed)
                arr = np.array(tensor, dtype=np.int64).reshape(n_pos, n_samples, 4)
                FS.bam_region_depths = lambda *a, _arr=arr, **k: _arr.copy()
                buf = io.StringIO()
                err = None
                try:
                    with contextlib.redirect_stdout(buf):
                        FS.write_vcf_block("t1", start, stop, fasta, [f"x{j}" for j in range(n_samples)],
                                           maf=float(th_str[0]), mad=int(th_str[1]), ind_maf=float(th_str[2]),
                                           ind_mad=int(th_str[3]), min_ind=int(th_str[4]), mapping_quality=20,
                                           skip_duplicates=True, skip_qcfail=True, skip_supplementary=True)
                except Exception as e:  # noqa: BLE001
                    err = f"{type(e).__name__}: {e}"
                chk.count(f"sites:{sub}")
                chk.count(f"sites:n_samples={n_samples}")
                text = "#CHROM\tPOS\tID\tREF\tALT\tQUAL\tFILTER\tINFO\tFORMAT\t" + "\t".join(f"x{j}" for j in range(n_samples)) + "\n" + buf.getvalue()
                case = {"stream": "sites:" + sub, "thresholds": dict(zip(["maf", "mad", "ind_maf", "ind_mad", "min_ind"], th_str)),
                        "start": start, "reference": ref_contig[start:stop], "depths": tensor}
                if err is not None:
                    chk.violation("write_vcf_block raised", {**case, "error": err}, "C19/write_vcf_block/exception")
                    continue
                _, recs = S.parse_vcf_text(text)
                by_pos = {rec["POS"] - 1: parse_impl_record(rec) for rec in recs}
                line = " ".join(["c19.sites"] + thresh_tokens(th_str) + [str(n_samples), str(n_pos)] +
                                [t for p in range(n_pos) for t in ([ref_contig[start + p].upper()] +
                                                                   [",".join(str(x) for x in d) for d in tensor[p]])])
                props = [site_property(ref_contig[start + p], tensor[p], th) for p in range(n_pos)]
                tie_flags = []
                skip_flags = []

                def dyadic(fr):
                    d = fr.denominator
                    return d & (d - 1) == 0

                for pr in props:
                    tie = False
                    skip = False
                    if pr is not None and n_samples >= 2:
                        ms = [m for a, m in enumerate(pr["mean"]) if m is not None]
                        tie = len(set(ms)) < len(ms)
                        # a mean of >= 2 float frequencies that is exactly --maf: decided by rounding unless every term is dyadic
                        if th[0] > 0:
                            for a in range(4):
                                fs = [f[a] for f in pr["freq"] if f[a] is not None]
                                if len(fs) >= 2 and sum(fs) / len(fs) == th[0] and not (dyadic(th[0]) and all(dyadic(f) for f in fs)):
                                    skip = True
                    tie_flags.append(tie)
                    skip_flags.append(skip)
                nt = n_samples >= 2 and any(pr is not None and (not pr["meets"][pr["ref"]] and pr["emit"]) for pr in props)

                def cb(model, line=line, case=case, by_pos=by_pos, start=start, n_pos=n_pos, tie_flags=tie_flags,
                       skip_flags=skip_flags, nt=nt):
                    ms = model.split(" ; ") if model != "*" else []
                    chk.case(line, nt, sample={"request": line[:300], "impl": str(by_pos)[:300], "model": model[:300]})
                    if len(ms) != n_pos:
                        raise C.Infra("c19.sites reply length")
                    for p in range(n_pos):
                        m = parse_model_site(ms[p])
                        if skip_flags[p]:
                            chk.count("sites:maf-tie-skipped")
                            continue
                        if tie_flags[p]:
                            chk.count("sites:order-tie-compared-as-set")
                        diff = compare_site(by_pos.get(start + p), m, tie_flags[p])
                        if diff:
                            chk.disagreement(f"write_vcf_block != model ({diff})",
                                             {**case, "pos": start + p, "impl": by_pos.get(start + p), "model": ms[p]})
                            return
                ctx.ask(line, cb)
                # ---- the property on the implementation's output
                for p in range(n_pos):
                    pr = props[p]
                    rec = by_pos.get(start + p)
                    pc = {**case, "pos": start + p, "site_depths": tensor[p], "impl": rec}
                    if pr is None:
                        if rec is not None:
                            chk.violation("a position whose reference base is not A/C/G/T was emitted", pc,
                                          "C19/write_vcf_block/non-acgt-reference")
                        continue
                    if not pr["meets"][pr["ref"]] and sum(pr["meets"]) == 1:
                        chk.count("sites:REF-fails-and-exactly-one-ALT-passes" +
                                  ("(fixed difference)" if all(d[pr["ref"]] == 0 for d in tensor[p]) else ""))
                    code_nan_maf = False
                    if th[0] > 0 and pr["zero_depth_sample"]:
                        # is the record what the pre-6204576 --maf test (np.mean over all samples) would give?
                        old = site_property(ref_contig[start + p], tensor[p], th, maf_over_all_samples=True)
                        if rec is None:
                            code_nan_maf = not old["emit"]
                        else:
                            code_nan_maf = old["emit"] and {BASES.find(a) for a in [rec["ref"]] + rec["alts"]} == \
                                ({a for a in range(4) if old["meets"][a]} | {old["ref"]})
                    if skip_flags[p]:
                        continue
                    if (rec is not None) != pr["emit"]:
                        sig = "C19/write_vcf_block/maf-nan-with-zero-depth-sample" if code_nan_maf else "C19/write_vcf_block/emitted-iff-two"
                        chk.violation("a position is emitted iff at least two alleles meet the thresholds — violated"
                                      + (" (a sample without depth makes np.mean NaN, so no allele passes --maf)" if code_nan_maf else ""),
                                      pc, sig)
                        continue
                    if rec is None:
                        continue
                    n_cols = 1 + len(rec["alts"])
                    if len(rec["pop"]) != n_cols or len(rec["admf"]) != n_cols or any(len(x) != n_cols for x in rec["ad"]) \
                            or any(len(a) != 1 or a not in BASES for a in [rec["ref"]] + rec["alts"]):
                        chk.violation("malformed record: allele / AD / ADMF columns do not line up", pc,
                                      "C19/write_vcf_block/malformed-record")
                        continue
                    listed = {BASES.find(a) for a in [rec["ref"]] + rec["alts"]}
                    want = {a for a in range(4) if pr["meets"][a]} | {pr["ref"]}
                    if listed != want:
                        sig = "C19/write_vcf_block/maf-nan-with-zero-depth-sample" if code_nan_maf else "C19/write_vcf_block/listed-iff-thresholds"
                        chk.violation("the listed alleles are not exactly those meeting the thresholds (plus REF)",
                                      {**pc, "expected": sorted(want)}, sig)
                        continue
                    if BASES.find(rec["ref"]) != pr["ref"] or rec["masked"] != (not pr["meets"][pr["ref"]]):
                        chk.violation("REF is not the reference base / REFMASKED does not flag a reference that failed the thresholds",
                                      pc, "C19/write_vcf_block/ref-first-masked-iff")
                        continue
                    means = [pr["mean"][BASES.find(a)] for a in rec["alts"]]
                    if any(x is None or y is None or x < y for x, y in zip(means, means[1:])):
                        chk.violation("ALT alleles are not in order of decreasing mean sample frequency",
                                      {**pc, "means": [str(m) for m in means]}, "C19/write_vcf_block/alt-order")
                        continue
                    if n_samples == 1 and any(x == y and BASES.find(a) < BASES.find(b)
                                              for x, y, a, b in zip(means, means[1:], rec["alts"], rec["alts"][1:])):
                        chk.count("sites:tie-order-ascending-index")
                    # depths printed are the depths counted
                    cols = [BASES.find(a) for a in [rec["ref"]] + rec["alts"]]
                    if rec["ad"] != [[d[a] for a in cols] for d in tensor[p]] or rec["pop"] != [sum(d[a] for d in tensor[p]) for a in cols]:
                        chk.violation("AD columns are not the counted depths of the listed alleles", pc, "C19/write_vcf_block/ad")
                if i % 40 == 39:
                    ctx.flush()
            ctx.flush()
        finally:
            FS.bam_region_depths = real_depths

        # ------------------------------------------------------------ (3) CLI
        for ds in cli_sets:
            paths = ds.single_sample_bams()
            if not paths:
                shutil.rmtree(ds.dir, ignore_errors=True)
                continue
            th_str = (r.choice(["0.0", "0.05"]), r.choice(["0", "2"]), r.choice(["0.1", "0.25"]), r.choice(["1", "2", "3"]), "1")
            cfg = (r.choice([0, 20, 30]), r.random() < 0.5, r.random() < 0.5, r.random() < 0.5)
            argv = ["mchap", "find-snvs", "--targets", ds.bed, "--reference", ds.fasta, "--bam", *paths,
                    "--maf", th_str[0], "--mad", th_str[1], "--ind-maf", th_str[2], "--ind-mad", th_str[3], "--min-ind", th_str[4],
                    "--mapping-quality", str(cfg[0])]
            if not cfg[1]:
                argv.append("--keep-duplicate-reads")
            if not cfg[2]:
                argv.append("--keep-qcfail-reads")
            if not cfg[3]:
                argv.append("--keep-supplementary-reads")
            out, code, err = S.run_program(argv)
            chk.count("cli:find-snvs")
            if code != 0:
                chk.disagreement("mchap find-snvs failed", {"argv": argv[2:], "error": err[:500]})
                shutil.rmtree(ds.dir, ignore_errors=True)
                continue
            _, recs = S.parse_vcf_text(out)
            for loc in ds.loci:
                if any(overlapping_pair_with_deletion(ds.reads[p], loc.contig, loc.start, loc.stop) for p in paths):
                    chk.count("cli:locus-skipped(overlapping mates with a deletion)")
                    continue
                mine = {rec["POS"] - 1: parse_impl_record(rec) for rec in recs
                        if rec["CHROM"] == loc.contig and loc.start <= rec["POS"] - 1 < loc.stop}
                toks = ["c19.block", loc.contig, str(loc.start), str(loc.stop), ds.contigs[loc.contig][loc.start:loc.stop]] + \
                    thresh_tokens(th_str) + [str(cfg[0]), str(int(cfg[1])), str(int(cfg[2])), str(int(cfg[3])), str(len(paths))]
                for p in paths:
                    toks += tok_reads(ds.reads[p], ds.contigs)
                line = " ".join(toks)

                def cb(model, mine=mine, line=line, loc=loc.name, argv=argv[2:], n=len(paths)):
                    parts = model.split(" ; ")
                    got = {}
                    for x in parts[1:]:
                        pos, _, rest = x.partition(" ")
                        got[int(pos)] = parse_model_site(rest)
                    chk.case(line, len(mine) > 0)
                    if sorted(got) != sorted(mine):
                        chk.disagreement("find-snvs emitted positions != model",
                                         {"locus": loc, "argv": argv, "impl": sorted(mine), "model": sorted(got)})
                        return
                    for p in got:
                        diff = compare_site(mine[p], got[p], n >= 2)
                        if diff:
                            chk.disagreement(f"find-snvs record != model ({diff})",
                                             {"locus": loc, "argv": argv, "pos": p, "impl": mine[p], "model": got[p]})
                            return
                ctx.ask(line, cb)
            ctx.flush()
            shutil.rmtree(ds.dir, ignore_errors=True)
        # ------------------------------------------------------------ (4) WP3: input shapes of the application glue
        from . import wp3_c19 as W3
        W3.maxdepth_stream(chk, C.rng(PROP + ":maxdepth"), work, tier, FS, report_deviation)
        W3.cli_stream(chk, ctx, C.rng(PROP + ":cli2"), work, tier)
    finally:
        shutil.rmtree(work, ignore_errors=True)
    sigs = {}
    for v in chk.violations:
        sigs[v["signature"]] = sigs.get(v["signature"], 0) + 1
    for sig, n in sorted(sigs.items()):
        print(f"[C19] deviation signature={sig} cases={n}")
    return chk.finish()
