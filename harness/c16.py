"""C16 — input allele filtering and prior-frequency options do what they say.

Correspondence: `parse_allele_filter`, `apply_allele_filter`, `LocusPrior.from_variant_record(frequency_tag=,
allele_filter=)` (what `--prior-frequencies` / `--filter-input-haplotypes` reach), `GenotypeAllelesMultiTrace.relabel`
+ `posterior_frequencies`, and the ALT / REFMASKED / AFPRIOR / FILTER / GT / AFP / ACP / AOP / GP columns printed by
`mchap call`, `call-exact`, `call-pedigree` on generated haplotype VCFs, against the Lean model
(`MCHap/Model/Loci.lean`: `parseAlleleFilter`, `applyAlleleFilter`, `locusPrior`, `callLabels`, `callScenario`,
`exactScenario`, `relabel`, `relabelNAllele`, `posteriorCounts`).
Implementation oracles (independent `Fraction` arithmetic straight from the property statement): AFPRIOR = named INFO
values normalised over the retained alleles; exactly the failing ALT alleles disappear, a failing REF stays and is
masked; masked / zero-prior alleles never occur in a GT and have zero posterior in every reported array; a record with
no usable allele carries NOA / AF0 and missing calls and the run does not abort.
"""
from __future__ import annotations

import itertools
import math
import os
import shutil
import tempfile
from decimal import Decimal
from fractions import Fraction

from . import common as C

PROP = "C16"
MODULE = "MCHap.Properties.C16"
THEOREMS = [
    "MCHap.C16.locusPrior_shape",
    "MCHap.C16.freq_normalised",
    "MCHap.C16.raw_is_named_info",
    "MCHap.C16.filter_removes_exactly_failing_alts",
    "MCHap.C16.select_spec",
    "MCHap.C16.failing_ref_masked_not_removed",
    "MCHap.C16.masked_ref_zero_prior",
    "MCHap.C16.masked_never_called",
    "MCHap.C16.masked_zero_posterior",
    "MCHap.C16.unmasked_positive_prior",
    "MCHap.C16.no_usable_allele_is_filtered",
    "MCHap.C16.call_exact_same_scenario",
    "MCHap.C16.arrays_have_record_length",
    "MCHap.C16.relabel_default_n_allele_iff",
    "MCHap.C16.relabel_n_allele_counterexample",
]
RULE = ("filter strings: field x every operator of the regex (=, ==, >, >=, <, <=, !=, <>) x value forms (int, leading zeros, "
        "d.d, .d, d., empty, '.', ',', 'd,d') plus <= 15% malformed (spaces, doubled operators, sign, exponent, trailing newline(s), "
        "non-word field); records: 0..5 ALTs with R-/A-length Float and Integer INFO arrays on a grid with zeros, all-zero vectors, "
        "missing entries, wrong lengths, absent keys, REFMASKED; configurations (frequency tag, filter) with thresholds equal to the "
        "record's own values; CLI: haplotype VCFs over synthetic BAMs for call / call-exact / call-pedigree. "
        "Non-trivial: a record with >= 2 ALTs where the configuration removes or masks at least one allele and keeps at least one. "
        "Distinct by canonical request line / (run, record).")

OPS = ["=", "==", ">", ">=", "<", "<=", "!=", "<>"]
DOC_OPS = ["=", ">", "<", ">=", "<=", "!="]
OPNAME = {"equal": "eq", "greater": "gt", "greater_equal": "ge", "less": "lt", "less_equal": "le", "not_equal": "ne"}
PYOP = {
    "eq": lambda x, v: x == v, "gt": lambda x, v: x > v, "ge": lambda x, v: x >= v,
    "lt": lambda x, v: x < v, "le": lambda x, v: x <= v, "ne": lambda x, v: x != v,
}
OPSYM = {"=": "eq", "==": "eq", ">": "gt", ">=": "ge", "<": "lt", "<=": "le", "!=": "ne"}
GRID = ["0", "0.125", "0.25", "0.5", "1", "2", "0.1", "0.3", "0.75", "3"]
SIG_F4 = "C16/call/relabel-n-alleles"
SIG_INT = "C16/locusprior/integer-frequency-field"


def hexs(s: str) -> str:
    return s.encode("latin-1").hex() if s else "~"


def unhex(h: str) -> str:
    return "" if h == "~" else bytes.fromhex(h).decode("latin-1")


def tok_list(xs):
    xs = list(xs)
    return ",".join(str(x) for x in xs) if xs else "~"


def err_tag(e: BaseException) -> str:
    name = type(e).__name__
    msg = str(e)
    if isinstance(e, AssertionError):
        return "err:assertion"
    if isinstance(e, TypeError) and "UFunc" not in name and "ufunc" not in msg[:6]:
        return "err:typeError"
    if "UFunc" in name or "Cannot cast ufunc" in msg:
        return "err:intDivide"
    if isinstance(e, ValueError):
        for prefix, tag in (("Invalid allele filter", "invalidFilter"), ("Invalid operator", "invalidOperator"),
                            ("Non-numerical", "nonNumeric"), ("Allele filter field not found", "notInHeader"),
                            ("Allele filter of field of invalid length", "invalidLength"), ("Invalid header", "invalidHeader"),
                            ("Field '", "freqLength"), ("cannot convert float NaN to integer", "intNan")):
            if msg.startswith(prefix):
                return "err:" + tag
    return f"err:other:{name}:{msg[:80]}"


# ----------------------------------------------------------------------------------------------
# filter strings
# ----------------------------------------------------------------------------------------------

def gen_filter_string(r):
    """(string, documented components or None)"""
    field = r.choice(["AFP", "AOP", "PF", "X_1", "9a", "_", "DP", "ab_9Z"])
    u = r.random()
    if u < 0.85:
        op = r.choice(OPS)
        val = r.choice(["0", "5", "007", "12", "0.5", ".5", "1.", "0.10", "0.125", "10.25", "", ".", ",", "1,5", ",5", "3,",
                        "0.30000001192092896", "00.50"])
        if r.random() < 0.5:
            val = r.choice(["0", "1", "0.25", "0.5", "2", "0.125", "3"])
        s = field + op + val
        doc = (field, op, val) if op in DOC_OPS else None
        return s, doc
    bad = r.choice([
        f"{field} > 1", f" {field}>1", f"{field}>1 ", f"{field}>-1", f"{field}>+1", f"{field}>1e3", f"{field}=<1", f"{field}=>1",
        f"{field}===1", f"{field}!==1", f"{field}>>1", f"{field}=!1", f"{field}!1", f"A-F>1", f"A.F>1", f">1", f"{field}", f"{field}1",
        "", f"{field}>1\n", f"{field}>=0.5\n", f"{field}>1\n\n", f"\n{field}>1", f"{field}>1.2.3", f"{field}>1..", f"{field}>0x10",
        f"{field}>1_0", f"{field}<>", f"{field}<>1.5", f"{field}><1", f"{field}>\n", f"{field}>1\r\n",
    ])
    return bad, None


def value_of_doc(val: str):
    try:
        return int(val)
    except ValueError:
        try:
            return float(val)
        except ValueError:
            return None


# ----------------------------------------------------------------------------------------------
# records
# ----------------------------------------------------------------------------------------------

FIELDS = [  # name, Number, Type
    ("PF", "R", "Float"), ("AX", "A", "Float"), ("IR", "R", "Integer"), ("IA", "A", "Integer"),
    ("ONE", "1", "Float"), ("DOT", ".", "Float"), ("TWO", "2", "Float"),
]
HEADER_INFO = [f'##INFO=<ID={n},Number={num},Type={ty},Description="generated">' for n, num, ty in FIELDS] + [
    '##INFO=<ID=REFMASKED,Number=0,Type=Flag,Description="Reference allele is masked">']


def gen_values(r, n, integer, allow_missing=True):
    mode = r.random()
    if integer:
        vals = [str(r.choice([0, 0, 1, 2, 3, 5, 10])) for _ in range(n)]
    else:
        vals = [r.choice(GRID) for _ in range(n)]
    if mode < 0.12:
        vals = ["0"] * n
    elif mode < 0.2 and not integer:
        vals = [r.choice(["0", "0", "0.5"]) for _ in range(n)]
    elif mode < 0.24 and not integer and n:
        vals[r.randrange(n)] = "-0.25"
    if allow_missing and n and r.random() < 0.04:
        vals[r.randrange(n)] = "."
    return vals


def gen_info(r, n_alts, malformed_ok=True):
    """INFO column text for a record with n_alts ALTs"""
    items = []
    for name, num, ty in FIELDS:
        if r.random() < 0.08:
            continue                                  # key absent from the record
        want = {"R": n_alts + 1, "A": n_alts, "1": 1, ".": r.choice([1, 2, n_alts + 1]), "2": 2}[num]
        if malformed_ok and num in "RA" and r.random() < 0.03:
            want = max(0, want + r.choice([-1, 1]))    # wrong number of values
        if want == 0:
            if num == "A" and r.random() < 0.3:
                items.append(f"{name}=.")
            continue
        items.append(f"{name}={','.join(gen_values(r, want, ty == 'Integer', malformed_ok))}")
    if r.random() < 0.25:
        items.append("REFMASKED")
    return ";".join(items) if items else "."


def gen_seqs(r, n_alts, length=None):
    n = length or r.choice([2, 3, 4, 6])
    ref = "".join(r.choice("ACGT") for _ in range(n))
    seen = {ref}
    alts = []
    for _ in range(200):
        if len(alts) >= n_alts:
            break
        s = list(ref)
        for j in r.sample(range(n), r.randint(1, min(n, 2))):
            s[j] = r.choice([c for c in "ACGT" if c != ref[j]])
        s = "".join(s)
        if s not in seen:
            seen.add(s)
            alts.append(s)
    return ref, alts


def record_tokens(rec) -> list:
    """driver encoding of what `from_variant_record` reads from a pysam record"""
    n_alts = len(rec.alts) if rec.alts else 0
    toks = [str(n_alts), "1" if "REFMASKED" in rec.info else "0"]
    fields = []
    for name, meta in rec.header.info.items():
        if meta.type not in ("Float", "Integer"):
            continue
        num = meta.number
        numtok = {"R": "R", "A": "A", 1: "1"}.get(num, "N")
        ty = "i" if meta.type == "Integer" else "f"
        if name in rec.info:
            v = rec.info[name]
            if not isinstance(v, tuple):
                v = (v,)
            vals = tok_list("." if x is None else C.rat_str(x) for x in v)
        else:
            vals = "absent"
        fields += [hexs(name), numtok, ty, vals]
    toks.append(str(len(fields) // 4))
    return toks + fields


def oracle_prior(rec, tag, flt):
    """The property statement evaluated with exact arithmetic on a record of the documented shape.

    Returns None when the configuration is outside the documented domain (missing entries, wrong lengths, undeclared
    or non R/A fields, unparsable filter), else dict(keep, mask, raw, freqs|None).
    """
    n_alts = len(rec.alts) if rec.alts else 0
    n = n_alts + 1
    keep = [True] * n
    mask = "REFMASKED" in rec.info
    if flt is not None:
        field, op, val = flt
        v = value_of_doc(val)
        if v is None or op not in OPSYM:
            return None
        meta = rec.header.info.get(field)
        if meta is None or meta.number not in ("R", "A"):
            return None
        obs = rec.info.get(field)
        if obs is not None:
            if any(x is None for x in obs):
                return None
            if len(obs) != (n if meta.number == "R" else n_alts):
                return None
            passed = [PYOP[OPSYM[op]](Fraction(x), Fraction(v)) for x in obs]
            if meta.number == "A":
                passed = [True] + passed
            keep = passed
            if not keep[0]:
                mask = True
                keep[0] = True
    if tag is None:
        vals = [Fraction(1, n)] * n
    else:
        meta = rec.header.info.get(tag)
        if meta is None or meta.number != "R" or meta.type not in ("Float", "Integer"):
            return None
        obs = rec.info.get(tag)
        if obs is None or len(obs) != n or any(x is None for x in obs):
            return None
        vals = [Fraction(x) for x in obs]
    if mask:
        vals[0] = Fraction(0)
    raw = [x for x, k in zip(vals, keep) if k]
    tot = sum(raw)
    freqs = [x / tot for x in raw] if tot > 0 else None
    return {"keep": keep, "mask": mask, "raw": raw, "freqs": freqs,
            "integer": tag is not None and rec.header.info.get(tag).type == "Integer"}


def rounding_margin(rec, doc) -> bool:
    """True when some observation of the filter field lies between the decimal threshold and float(threshold)"""
    if doc is None:
        return False
    field, _, val = doc
    v = value_of_doc(val)
    if v is None or isinstance(v, int) or field not in rec.header.info:
        return False
    try:
        exact = Fraction(Decimal(val if val[0] != "." else "0" + val))
    except Exception:   # noqa: BLE001
        return False
    fl = Fraction(v)
    if exact == fl:
        return False
    lo, hi = min(exact, fl), max(exact, fl)
    obs = rec.info.get(field)
    obs = obs if isinstance(obs, tuple) else (() if obs is None else (obs,))
    return any(x is not None and lo <= Fraction(x) <= hi for x in obs)


def scenario_of(o):
    """NOA / AF0 / valid, and the usable alleles (indices into the retained alleles)"""
    n = len(o["raw"])
    if o["mask"] and n == 1:
        return "NOA", []
    if o["freqs"] is None:
        return "AF0", []
    usable = [i for i in range(n) if not (i == 0 and o["mask"]) and o["freqs"][i] != 0]
    return "valid", usable


def vcf_order_genotypes(n, p):
    gs = list(itertools.combinations_with_replacement(range(n), p))
    gs.sort(key=lambda g: tuple(reversed(g)))
    return gs


def floats_of(text):
    return [math.nan if x == "." else float(x) for x in text.split(",")]


def run(tier, replay=None):
    import numpy as np
    import pysam
    from mchap.io.filter_alleles import parse_allele_filter, apply_allele_filter
    from mchap.io.loci import LocusPrior
    from mchap.calling.classes import GenotypeAllelesMultiTrace
    from . import synth as S

    chk = C.Check(PROP, tier, MODULE, THEOREMS, RULE, exe="driver_loci", assumptions=[
        "filter strings are ASCII (Python's \\w and \\d also accept non-ASCII letters / digits; the model's classes are ASCII)",
        "decimal -> float64 conversion of the threshold and float32 storage of INFO values are runtime: the model receives the exact "
        "rational of every float the implementation sees; normalised frequencies are compared at rel 1e-9",
        "CLI values are printed with 3 decimals: AFPRIOR is compared at 6e-4 absolute",
        "the samplers' posterior values are not modelled here (C02/C03); only which entries must be zero / missing",
        "a missing ('.') entry inside an INFO array is outside the property's domain: the model mirrors the code (TypeError for an "
        "ordering comparison, removed by '=', kept by '!=', NaN prior -> AF0 when retained as a frequency) but no oracle judges it",
    ])
    chk.prove()
    drv = C.Driver("driver_loci")
    r = C.rng(PROP)
    n_flt = {"warm": 10, "quick": 500, "thorough": 5000}[tier]
    n_rec = {"warm": 8, "quick": 250, "thorough": 2500}[tier]
    n_cfg = {"warm": 2, "quick": 5, "thorough": 8}[tier]
    n_trace = {"warm": 5, "quick": 120, "thorough": 1200}[tier]
    work = tempfile.mkdtemp(prefix="verif-c16-")
    try:
        # ================================================================== A. parse_allele_filter
        cases = [gen_filter_string(r) for _ in range(n_flt)]
        ans = drv.ask([f"flt.parse {hexs(s)}" for s, _ in cases])
        for (s, doc), a in zip(cases, ans):
            try:
                field, func, value = parse_allele_filter(s)
                im = ("ok", field, OPNAME.get(func.__name__, func.__name__), value, "int" if isinstance(value, int) else "float")
            except Exception as e:   # noqa: BLE001
                im = err_tag(e)
            chk.count("parse:" + (im if isinstance(im, str) else "ok"))
            chk.case(f"flt.parse {hexs(s)}", doc is not None and not isinstance(im, str),
                     sample={"request": repr(s), "impl": str(im), "model": a})
            if isinstance(im, str):
                if a != im:
                    chk.disagreement("parse_allele_filter error != model", {"string": s, "impl": im, "model": a})
            else:
                parts = a.split(" ")
                ok = (parts[0] == "ok" and len(parts) == 5 and unhex(parts[1]) == im[1] and parts[2] == im[2]
                      and parts[4] == im[4] and float(C.parse_rat(parts[3])) == float(im[3]))
                if not ok:
                    chk.disagreement("parse_allele_filter result != model", {"string": s, "impl": str(im), "model": a})
            # oracle: a documented string <field><op><value> means exactly its components
            if doc is not None:
                v = value_of_doc(doc[2])
                if v is not None:
                    if isinstance(im, str) or (im[1], im[2]) != (doc[0], OPSYM[doc[1]]) or float(im[3]) != float(v):
                        chk.violation("parse_allele_filter does not return the components of a documented filter string",
                                      {"string": s, "impl": str(im), "expected": [doc[0], OPSYM[doc[1]], v]}, "C16/parse/components")

        # ================================================================== B. apply_allele_filter / from_variant_record
        lines = ["##fileformat=VCFv4.3", f"##contig=<ID=chr1,length={n_rec * 20 + 100}>"] + HEADER_INFO + [
            "#CHROM\tPOS\tID\tREF\tALT\tQUAL\tFILTER\tINFO"]
        for i in range(n_rec):
            n_alts = r.choice([0, 1, 2, 2, 3, 3, 4, 5])
            ref, alts = gen_seqs(r, n_alts)
            lines.append(f"chr1\t{10 + 20 * i}\tr{i}\t{ref}\t{','.join(alts) if alts else '.'}\t.\tPASS\t{gen_info(r, len(alts))}")
        gz = S.bgzip_tabix_vcf(S.write_text(os.path.join(work, "records.vcf"), "\n".join(lines) + "\n"))
        reqs, impls, metas = [], [], []
        with pysam.VariantFile(gz) as f:
            for rec in f.fetch():
                n_alts = len(rec.alts) if rec.alts else 0
                rtoks = record_tokens(rec)
                for _ in range(n_cfg):
                    # frequency tag
                    u = r.random()
                    tag = None if u < 0.3 else ("PF" if u < 0.8 else ("IR" if u < 0.88 else r.choice(["AX", "ONE", "DOT", "TWO", "UNDEF", "IA"])))
                    # filter
                    flt, doc = None, None
                    u = r.random()
                    if u < 0.75:
                        field = r.choice(["PF", "PF", "AX", "AX", "IR", "IA"]) if r.random() < 0.94 else r.choice(["ONE", "DOT", "ZZ"])
                        op = r.choice(OPS if r.random() < 0.1 else DOC_OPS)
                        own = rec.info.get(field) if field in rec.header.info else None
                        pool = [x for x in (own if isinstance(own, tuple) else ()) if x is not None]
                        val = None
                        if pool and r.random() < 0.6:
                            # a threshold exactly equal to one of the record's own values: the exact decimal expansion of
                            # the float32 the record stores (no decimal -> binary rounding between model and code)
                            x = r.choice(pool)
                            sx = str(x) if isinstance(x, int) else format(Decimal(float(x)), "f")
                            if not sx.startswith("-"):
                                val = sx
                        if val is None:
                            val = r.choice(GRID)
                        flt = field + op + val
                        doc = (field, op, val)
                    elif u < 0.8:
                        flt, doc = gen_filter_string(r)
                    alts_in = list(rec.alts) if rec.alts else []
                    try:
                        lp = LocusPrior.from_variant_record(rec, frequency_tag=tag, allele_filter=flt)
                        keep = [True] + [a in lp.alts for a in alts_in]
                        fr = [float(x) for x in lp.frequencies]
                        im = {"keep": keep, "mask": bool(lp.mask_reference_allele), "freqs": fr, "alts": list(lp.alts),
                              "enc_rows": len(lp.encode_haplotypes())}
                    except Exception as e:   # noqa: BLE001
                        im = err_tag(e)
                    reqs.append(" ".join(["lp"] + rtoks + ["-" if tag is None else hexs(tag), "-" if flt is None else hexs(flt)]))
                    impls.append(im)
                    orc = oracle_prior(rec, tag, doc) if (flt is None or doc is not None) else None
                    metas.append((rec.id, rec.ref, alts_in, str(dict(rec.info)), tag, flt, orc, n_alts, rounding_margin(rec, doc)))
                # apply_allele_filter alone (keep array before the reference is forced)
                for _ in range(2):
                    field = r.choice(["PF", "AX", "IR", "IA", "ONE", "DOT", "ZZ"])
                    op = r.choice(DOC_OPS)
                    val = r.choice(GRID)
                    v = value_of_doc(val)
                    try:
                        k = apply_allele_filter(rec, field, parse_allele_filter("x" + op + val)[1], v)
                        im = tok_list(int(bool(x)) for x in k)
                    except Exception as e:   # noqa: BLE001
                        im = err_tag(e)
                    reqs.append(" ".join(["flt.apply"] + rtoks + [hexs(field), OPSYM[op], C.rat_str(v)]))
                    impls.append(im)
                    metas.append(None)
        ans = drv.ask(reqs)
        for req, a, im, meta in zip(reqs, ans, impls, metas):
            if meta is None:
                chk.count("apply:" + (im if im.startswith("err") else "ok"))
                chk.case(req, False)
                if a != im:
                    chk.disagreement("apply_allele_filter != model", {"request": req, "impl": im, "model": a})
                continue
            rid, ref, alts_in, info, tag, flt, orc, n_alts, margin = meta
            case = {"record": rid, "ref": ref, "alts": alts_in, "info": info, "frequency_tag": tag, "allele_filter": flt}
            if margin:
                # an observation lies between the decimal threshold and its float64 rounding: decision boundary inside the
                # rounding margin (DESIGN App. A) - counted, not compared
                chk.count("lp:threshold-inside-rounding-margin")
                continue
            if isinstance(im, str):
                chk.count("lp:" + im[:40])
                chk.case(req, False)
                if a != im:
                    chk.disagreement("from_variant_record error != model", {**case, "impl": im, "model": a})
                if orc is not None:
                    sig = SIG_INT if (orc["integer"] and im in ("err:intDivide", "err:intNan")) else "C16/locusprior/aborts-on-documented-input"
                    chk.violation("from_variant_record aborts on a record / option combination of the documented shape "
                                  "(integer INFO field as --prior-frequencies)" if sig == SIG_INT else
                                  "from_variant_record aborts on a record / option combination of the documented shape",
                                  {**case, "impl": im}, sig)
                continue
            chk.count("lp:ok")
            removed = im["keep"].count(False)
            nontriv = n_alts >= 2 and (removed >= 1 or im["mask"] or any(x == 0 for x in im["freqs"])) and len(im["alts"]) >= 1
            nan = any(math.isnan(x) for x in im["freqs"])
            if nan:
                chk.count("lp:nan-frequencies")
            if im["mask"]:
                chk.count("lp:ref-masked")
            if removed:
                chk.count("lp:alts-removed")
            chk.case(req, nontriv, sample={"request": req[:300], "impl": str(im)[:300], "model": a[:300]})
            parts = a.split(" ")
            if parts[0].startswith("err"):
                chk.disagreement("from_variant_record succeeded, model raises", {**case, "impl": str(im), "model": a})
            else:
                m_keep = [x == "1" for x in parts[0].split(",")]
                m_mask = parts[1] == "1"
                m_fr = None if parts[3] == "nan" else [float(C.parse_rat(x)) for x in parts[3].split(",")]
                same = m_keep == im["keep"] and m_mask == im["mask"]
                if m_fr is None:
                    same = same and all(math.isnan(x) for x in im["freqs"]) and len(im["freqs"]) == m_keep.count(True)
                else:
                    same = same and len(m_fr) == len(im["freqs"]) and all(C.close(x, y) for x, y in zip(m_fr, im["freqs"]))
                if not same:
                    chk.disagreement("from_variant_record (keep / mask / frequencies) != model", {**case, "impl": str(im), "model": a})
            if im["enc_rows"] != 1 + len(im["alts"]):
                chk.violation("encode_haplotypes rows != 1 + retained ALTs", {**case, "impl": str(im)}, "C16/locusprior/encode-rows")
            # ---- oracle straight from the property statement
            if orc is not None:
                if orc["keep"] != im["keep"]:
                    chk.violation("the retained ALT alleles are not exactly those passing the predicate (REF always kept)",
                                  {**case, "impl": im["keep"], "expected": orc["keep"]}, "C16/locusprior/keep")
                if orc["mask"] != im["mask"]:
                    chk.violation("reference masking differs from (REFMASKED or failing reference)",
                                  {**case, "impl": im["mask"], "expected": orc["mask"]}, "C16/locusprior/mask")
                if orc["freqs"] is None:
                    okf = all(math.isnan(x) for x in im["freqs"])
                else:
                    okf = len(orc["freqs"]) == len(im["freqs"]) and all(C.close(float(x), y) for x, y in zip(orc["freqs"], im["freqs"]))
                    if okf and not C.close(sum(im["freqs"]), 1.0):
                        okf = False
                if not okf:
                    chk.violation("prior frequencies are not the named INFO values normalised over the retained alleles",
                                  {**case, "impl": im["freqs"], "expected": None if orc["freqs"] is None else [str(x) for x in orc["freqs"]]},
                                  "C16/locusprior/frequencies")

        # ================================================================== C. relabel / posterior_frequencies
        reqs, impls, metas = [], [], []
        for _ in range(n_trace):
            n = r.randint(1, 6)
            mask = [r.random() < 0.35 for _ in range(n)]
            if r.random() < 0.3:
                mask[-1] = True
            labels = [i for i in range(n) if not mask[i]]
            if not labels:
                labels = [r.randrange(n)]
            ploidy = r.choice([1, 2, 4])
            chains, steps = r.choice([1, 2]), r.randint(1, 4)
            g = np.array([[[r.randrange(len(labels)) for _ in range(ploidy)] for _ in range(steps)] for _ in range(chains)], dtype=np.int8)
            base = GenotypeAllelesMultiTrace(g, np.zeros((chains, steps)), len(labels))
            flat = [int(x) for x in g.reshape(-1)]
            n_obs = chains * steps
            # (i) the default of relabel (n_allele = labels.max()+1) against the model's default
            tr0 = base.relabel(np.array(labels))
            reqs.append(f"relabel {tok_list(labels)} {tok_list(flat)} -")
            impls.append(f"{tok_list(int(x) for x in tr0.genotypes.reshape(-1))} {int(tr0.n_allele)}")
            metas.append(None)
            # (ii) the program path: relabel(labels, n_allele=<record alleles>) as call.py / call_pedigree.py do
            try:
                tr = base.relabel(np.array(labels), n_allele=n)
            except TypeError as e:
                chk.violation("GenotypeAllelesMultiTrace.relabel cannot be told the record's allele count; the per-allele arrays of a "
                              "relabelled trace are sized labels.max()+1",
                              {"record_alleles": n, "labels": labels, "error": repr(e)[:200]}, SIG_F4)
                tr = tr0
            fr, counts, occ = tr.posterior_frequencies()
            rows = [[int(x) for x in row] for row in tr.genotypes.reshape(-1, ploidy)]
            reqs.append(f"relabel {tok_list(labels)} {tok_list(flat)} {n}")
            impls.append(f"{tok_list(int(x) for x in tr.genotypes.reshape(-1))} {int(tr.n_allele)}")
            metas.append(None)
            reqs.append(f"postcounts {int(tr.n_allele)} {'|'.join(tok_list(x) for x in rows)}")
            impls.append(tok_list(int(round(float(c) * n_obs)) for c in counts))
            metas.append((n, labels, rows, [float(x) for x in counts], [float(x) for x in fr], [float(x) for x in occ]))
        ans = drv.ask(reqs)
        for req, a, im, meta in zip(reqs, ans, impls, metas):
            chk.count("trace:" + req.split(" ")[0])
            chk.case(req, meta is not None and len(meta[1]) < meta[0] and len(meta[1]) >= 2)
            if a != im:
                chk.disagreement("relabel / posterior_frequencies != model", {"request": req, "impl": im, "model": a})
            if meta is not None:
                n, labels, rows, counts, fr, occ = meta
                if any(x not in labels for row in rows for x in row):
                    chk.violation("a relabelled genotype contains a masked allele", {"labels": labels, "rows": rows}, "C16/relabel/masked-allele")
                if any(c != 0 for i, c in enumerate(counts) if i not in labels):
                    chk.violation("a masked allele has a non-zero posterior count", {"labels": labels, "counts": counts}, "C16/relabel/masked-posterior")
                if (n - 1) not in labels:
                    chk.count("trace:last-allele-masked")
                if not (len(counts) == len(fr) == len(occ) == n):
                    chk.violation("posterior_frequencies of a trace relabelled with the record's allele count returns arrays shorter than "
                                  "the number of record alleles",
                                  {"record_alleles": n, "labels": labels, "lengths": [len(fr), len(counts), len(occ)],
                                   "reproduce": "GenotypeAllelesMultiTrace(g, llks, len(labels)).relabel(np.array(labels), n_allele=n).posterior_frequencies()"},
                                  SIG_F4)

        # ================================================================== D. command line
        cli(chk, drv, r, tier, work, S, pysam)
    finally:
        shutil.rmtree(work, ignore_errors=True)
    return chk.finish()


# ----------------------------------------------------------------------------------------------
# D. command line
# ----------------------------------------------------------------------------------------------

CLI_FIELDS = [("PF", "R", "Float"), ("AX", "A", "Float"), ("IR", "R", "Integer")]


def hap_string(ds, l, vec):
    s = list(ds.contigs[l.contig][l.start:l.stop])
    for p, als, a in zip(l.snv_positions, l.snv_alleles, vec):
        s[p - l.start] = als[a]
    return "".join(s)


def gen_hap_records(r, ds, per_locus):
    """haplotype-VCF record lines (several per locus, different ALT sets and INFO vectors)"""
    recs = []
    for l in ds.loci:
        ref = ds.contigs[l.contig][l.start:l.stop]
        true = set()
        for s in ds.samples:
            for h in ds.truth[s][l.name]:
                if h != ref:
                    true.add(h)
        space = list(itertools.product(*[range(len(a)) for a in l.snv_alleles])) if l.snv_positions else []
        for k in range(per_locus):
            pool = sorted(true)
            extra = [hap_string(ds, l, v) for v in r.sample(space, min(len(space), 4))] if space else []
            cand = [h for h in dict.fromkeys(pool + extra) if h != ref]
            r.shuffle(cand)
            n_alts = min(len(cand), r.choice([0, 1, 2, 3, 3, 4, 4]))
            alts = cand[:n_alts]
            n = n_alts + 1
            mode = r.random()
            pf = [r.choice(["0", "0.125", "0.25", "0.25", "0.5", "1", "2"]) for _ in range(n)]
            if mode < 0.08:
                pf = ["0"] * n
            elif mode < 0.3:
                pf = [r.choice(["0.25", "0.5", "1"]) for _ in range(n)]
            elif mode < 0.38:
                pf = ["0"] * n
                pf[r.randrange(n)] = "0.5"
            elif mode < 0.55 and n >= 2:
                pf[-1] = "0"                     # the highest-numbered allele has zero prior (relabel's n_allele)
                pf[0] = "0.5"
            items = [f"PF={','.join(pf)}"]
            if n_alts:
                items.append("AX=" + ",".join(r.choice(["0", "0.125", "0.25", "0.5", "1"]) for _ in range(n_alts)))
            items.append("IR=" + ",".join(str(r.choice([0, 1, 2, 5])) for _ in range(n)))
            if r.random() < 0.2:
                items.append("REFMASKED")
            recs.append((l, f"{l.contig}\t{l.start + 1}\t{l.name}.{k}\t{ref}\t{','.join(alts) if alts else '.'}\t.\tPASS\t{';'.join(items)}"))
    order = {c: i for i, c in enumerate(ds.contigs)}
    recs.sort(key=lambda t: (order[t[0].contig], t[0].start))
    return [x[1] for x in recs]


def hap_vcf_text(ds, lines):
    hdr = ["##fileformat=VCFv4.3"] + [f"##contig=<ID={c},length={len(s)}>" for c, s in ds.contigs.items()]
    hdr += [f'##INFO=<ID={n},Number={num},Type={ty},Description="generated">' for n, num, ty in CLI_FIELDS]
    hdr += ['##INFO=<ID=REFMASKED,Number=0,Type=Flag,Description="Reference allele is masked">',
            "#CHROM\tPOS\tID\tREF\tALT\tQUAL\tFILTER\tINFO"]
    return "\n".join(hdr + lines) + "\n"


def cli(chk, drv, r, tier, work, S, pysam):
    n_sets = {"warm": 1, "quick": 2, "thorough": 8}[tier]
    mcmc = ["--mcmc-steps", "100", "--mcmc-burn", "40"]
    report = ["--report", "AFPRIOR", "AFP", "ACP", "AOPSUM", "GP"]
    pend = []      # (request, key, out_record, oracle) for the model comparison
    for d in range(n_sets):
        pedigree = d % 2 == 1
        dsdir = os.path.join(work, f"ds{d}")
        ds = S.make_dataset(r, dsdir, n_samples=3, n_loci=3, ploidies=(r.choice([2, 4]),) if pedigree else (2, 4),
                            max_snvs=3, depth=(6, 14))
        lines = gen_hap_records(r, ds, per_locus=3)
        all_txt = S.write_text(os.path.join(dsdir, "haps.vcf"), hap_vcf_text(ds, lines))
        all_gz = S.bgzip_tabix_vcf(all_txt)
        with pysam.VariantFile(all_gz) as f:
            recs = list(f.fetch())
            # configurations: (program, frequency tag, documented filter components)
            def rnd_filter():
                field = r.choice(["PF", "AX", "IR"])
                op = r.choice([">", ">", ">=", ">=", "!=", "<", "<=", "="])
                if op in (">", ">=", "!="):
                    val = r.choice(["0", "0.125", "0.25"]) if field != "IR" else r.choice(["0", "1"])
                else:
                    val = r.choice(["0.25", "0.5", "1", "2"]) if field != "IR" else r.choice(["1", "2", "5"])
                return (field, op, val)
            ped = S.write_text(os.path.join(dsdir, "ped.txt"), f"{ds.samples[0]}\t.\t.\n{ds.samples[1]}\t.\t.\n"
                                                                   f"{ds.samples[2]}\t{ds.samples[0]}\t{ds.samples[1]}\n")
            if pedigree:
                configs = [("call-pedigree", "PF", rnd_filter()), ("call-pedigree", None, rnd_filter()), ("call", "PF", None),
                           ("call-exact", "PF", rnd_filter())]
            else:
                configs = [("call-exact", "PF", rnd_filter()), ("call-exact", "PF", None), ("call-exact", None, rnd_filter()),
                           ("call", "PF", rnd_filter()), ("call", None, ("PF", ">", "0"))]
            for ci, (prog, tag, flt) in enumerate(configs):
                orcs = [oracle_prior(rec, tag, flt) for rec in recs]
                if any(o is None for o in orcs):
                    raise C.Infra("generated CLI record outside the documented domain")
                # records whose highest-numbered retained allele is masked / has zero prior (where the per-allele arrays
                # depend on relabel's n_allele) are run separately, so that an abort there cannot hide the other records
                main_idx, f4_idx = [], []
                for i, o in enumerate(orcs):
                    scen, usable = scenario_of(o)
                    n = len(o["raw"])
                    trigger = prog != "call-exact" and scen == "valid" and len(usable) < n and (n - 1) not in usable
                    (f4_idx if trigger else main_idx).append(i)
                for part, idx in (("main", main_idx), ("f4", f4_idx)):
                    if not idx:
                        continue
                    gz = S.bgzip_tabix_vcf(S.write_text(os.path.join(dsdir, f"cfg{ci}.{part}.vcf"), hap_vcf_text(ds, [lines_of(recs[i]) for i in idx])))
                    extra = list(report) + ["AOP"]
                    if prog != "call-exact":
                        extra = mcmc + extra
                    if prog == "call-pedigree":
                        extra += ["--sample-parents", ped]
                    if tag:
                        extra += ["--prior-frequencies", tag]
                    if flt:
                        extra += ["--filter-input-haplotypes", "".join(flt)]
                    argv = ds.call_argv(prog, gz, *extra)
                    out, code, err = S.run_program(argv)
                    chk.count(f"cli:{prog}:{part}-runs")
                    key0 = {"dataset": d, "program": prog, "frequency_tag": tag, "filter": "".join(flt) if flt else None, "part": part}
                    if code != 0:
                        in_lines = [lines_of(recs[i]) for i in idx]
                        chk.violation(f"mchap {prog} aborted", {**key0, "error": err[:600], "input_records": in_lines[:6],
                                                                 "argv_tail": extra},
                                      SIG_F4 if part == "f4" else f"C16/cli/{prog}-abort")
                        continue
                    _, outs = S.parse_vcf_text(out)
                    if len(outs) != len(idx):
                        chk.violation(f"mchap {prog} printed {len(outs)} records for {len(idx)} input records", key0, f"C16/cli/{prog}-record-count")
                        continue
                    for i, o_rec in zip(idx, outs):
                        check_out_record(chk, key0, prog, recs[i], orcs[i], o_rec, part, ds)
                        pend.append((" ".join(["lp"] + record_tokens(recs[i]) + ["-" if tag is None else hexs(tag),
                                                                                  "-" if flt is None else hexs("".join(flt))]),
                                     {**key0, "record": recs[i].id}, o_rec, orcs[i]))
            # ---- probes of the two known crash sites (one record each)
            if d == 0:
                l = next((x for x in ds.loci if x.snv_positions), None)
                if l is not None:
                    ref = ds.contigs[l.contig][l.start:l.stop]
                    alt1 = hap_string(ds, l, [1] + [0] * (len(l.snv_positions) - 1))
                    alt2 = hap_string(ds, l, [1] * len(l.snv_positions)) if len(l.snv_positions) > 1 else None
                    alts = [alt1] + ([alt2] if alt2 and alt2 != alt1 else [])
                    pf = ["0.5"] * len(alts) + ["0"]
                    line = f"{l.contig}\t{l.start + 1}\tprobe\t{ref}\t{','.join(alts)}\t.\tPASS\tPF={','.join(pf)};IR={','.join(['1'] * (len(alts) + 1))}"
                    gz = S.bgzip_tabix_vcf(S.write_text(os.path.join(dsdir, "probe.vcf"), hap_vcf_text(ds, [line])))
                    for prog, extra, sig, what in (
                        ("call", mcmc + ["--prior-frequencies", "PF", "--report", "AOP"], SIG_F4,
                         "mchap call --report AOP aborts when the highest-numbered allele has zero prior (per-allele arrays one short)"),
                        ("call-exact", ["--prior-frequencies", "PF", "--report", "AOP"], "C16/cli/call-exact-abort",
                         "mchap call-exact --report AOP aborts when the highest-numbered allele has zero prior"),
                        ("call-exact", ["--prior-frequencies", "IR"], SIG_INT,
                         "mchap call-exact --prior-frequencies <Integer INFO field> aborts (integer array cannot be normalised in place)"),
                    ):
                        out, code, err = S.run_program(ds.call_argv(prog, gz, *extra))
                        chk.count(f"cli:{prog}:probe-runs")
                        chk.case({"probe": what, "seed": C.seed()}, True)
                        if code != 0:
                            chk.violation(what, {"record": line, "argv_tail": extra, "error": err[:500]}, sig)
    ans = drv.ask([p[0] for p in pend])
    for (req, key, o_rec, orc), a in zip(pend, ans):
        parts = a.split(" ")
        if parts[0].startswith("err"):
            chk.disagreement("CLI accepted a record the model rejects", {**key, "model": a})
            continue
        m_keep = [x == "1" for x in parts[0].split(",")]
        m_mask = parts[1] == "1"
        m_fr = None if parts[3] == "nan" else [float(C.parse_rat(x)) for x in parts[3].split(",")]
        m_labels = [] if parts[4] == "~" else [int(x) for x in parts[4].split(",")]
        m_scen = parts[6] if key["program"] == "call-exact" else parts[5]
        in_alts = list_alts(o_rec, orc)
        bad = []
        if m_keep.count(True) - 1 != len(o_rec["ALT"]):
            bad.append("ALT count")
        if m_mask != (o_rec["INFO"].get("REFMASKED") is True):
            bad.append("REFMASKED")
        filt = o_rec["FILTER"]
        if {"valid": "PASS", "NOA": "NOA", "AF0": "AF0"}[m_scen] != filt:
            bad.append("FILTER")
        pri = floats_of(o_rec["INFO"].get("AFPRIOR", "."))
        if m_fr is None:
            if not all(math.isnan(x) for x in pri):
                bad.append("AFPRIOR nan")
        elif len(pri) != len(m_fr) or any(not (abs(x - y) <= 6e-4) for x, y in zip(pri, m_fr)):
            bad.append("AFPRIOR")
        if m_scen == "valid":
            m_n = int(parts[8])
            for smp in o_rec["samples"]:
                for x in smp["GT"].split("/"):
                    if x == "." or int(x) not in m_labels:
                        bad.append("GT outside callLabels")
                for fld in ("AFP", "ACP", "AOP"):
                    if fld in smp and len(smp[fld].split(",")) != m_n:
                        bad.append(f"FORMAT/{fld} length")
        if bad:
            chk.disagreement("CLI output != model (" + ", ".join(sorted(set(bad))) + ")", {**key, "model": a, "out": o_rec["line"][:500]})


def lines_of(rec) -> str:
    """the VCF text line of a pysam record of the generated haplotype VCF (8 columns)"""
    return str(rec).rstrip("\n")


def list_alts(o_rec, orc):
    return o_rec["ALT"]


def check_out_record(chk, key0, prog, rec, orc, o, part, ds):
    """property oracles on one printed record"""
    key = {**key0, "record": rec.id, "input": lines_of(rec)[:400]}
    alts_in = list(rec.alts) if rec.alts else []
    exp_alts = [a for a, k in zip(alts_in, orc["keep"][1:]) if k]
    scen, usable = scenario_of(orc)
    n = len(orc["raw"])
    removed = len(alts_in) - len(exp_alts)
    chk.count(f"cli:scenario={scen}")
    if removed:
        chk.count("cli:alts-removed")
    if orc["mask"]:
        chk.count("cli:ref-masked")
    nontriv = len(alts_in) >= 2 and scen == "valid" and len(usable) < 1 + len(alts_in)
    chk.case({"seed": C.seed(), **key0, "record": rec.id}, nontriv,
             sample={"request": str(key0), "impl": o["line"][:300], "model": "see lp request"})
    if o["REF"] != rec.ref or o["POS"] != rec.pos or o["CHROM"] != rec.chrom:
        chk.violation(f"{prog} changed CHROM/POS/REF", {**key, "out": o["line"][:300]}, f"C16/cli/{prog}-columns")
    if o["ALT"] != exp_alts:
        chk.violation(f"{prog}: ALT is not the input ALT minus exactly the alleles failing the filter",
                      {**key, "out_ALT": o["ALT"], "expected": exp_alts}, "C16/cli/alt")
    if (o["INFO"].get("REFMASKED") is True) != orc["mask"]:
        chk.violation(f"{prog}: REFMASKED differs from (input flag or failing reference)",
                      {**key, "out": o["INFO"].get("REFMASKED"), "expected": orc["mask"]}, "C16/cli/refmasked")
    pri = floats_of(o["INFO"].get("AFPRIOR", "."))
    if orc["freqs"] is None:
        okp = all(math.isnan(x) for x in pri)
    else:
        okp = len(pri) == n and all(abs(x - float(y)) <= 6e-4 for x, y in zip(pri, orc["freqs"]))
    if not okp:
        chk.violation(f"{prog}: AFPRIOR is not the named INFO values normalised over the retained alleles",
                      {**key, "out": o["INFO"].get("AFPRIOR"), "expected": None if orc["freqs"] is None else [str(x) for x in orc["freqs"]]},
                      "C16/cli/afprior")
    exp_filter = {"valid": "PASS", "NOA": "NOA", "AF0": "AF0"}[scen]
    if o["FILTER"] != exp_filter:
        chk.violation(f"{prog}: FILTER is {o['FILTER']}, expected {exp_filter}", {**key, "out": o["line"][:300]}, "C16/cli/filter")
    f4 = part == "f4"
    for name, smp in zip(o["sample_names"], o["samples"]):
        gt = smp["GT"].split("/")
        ploidy = len(gt)
        if scen != "valid":
            if any(x != "." for x in gt):
                chk.violation(f"{prog}: a record without usable allele has a called genotype", {**key, "sample": name, "GT": smp["GT"]},
                              "C16/cli/invalid-called")
            continue
        if any(x == "." or int(x) not in usable for x in gt):
            chk.violation(f"{prog}: GT contains a masked / zero-prior / missing allele", {**key, "sample": name, "GT": smp["GT"], "usable": usable},
                          "C16/cli/gt-masked-allele")
        for fld in ("AFP", "ACP", "AOP"):
            if fld in smp:
                v = floats_of(smp[fld])
                if len(v) != n:
                    chk.violation(f"{prog}: FORMAT/{fld} has {len(v)} values for {n} alleles", {**key, "sample": name, fld: smp[fld]},
                                  SIG_F4 if f4 else "C16/cli/array-length")
                if any(x != 0 for i, x in enumerate(v) if i not in usable):
                    chk.violation(f"{prog}: FORMAT/{fld} gives a masked / zero-prior allele a non-zero posterior",
                                  {**key, "sample": name, fld: smp[fld], "usable": usable}, "C16/cli/masked-posterior")
        if "GP" in smp:
            v = floats_of(smp["GP"])
            gs = vcf_order_genotypes(n, ploidy)
            if len(v) != len(gs):
                chk.violation(f"{prog}: FORMAT/GP has {len(v)} values for {len(gs)} genotypes", {**key, "sample": name},
                              "C16/cli/gp-length")
            elif any(x != 0 for x, g in zip(v, gs) if any(a not in usable for a in g)):
                chk.violation(f"{prog}: FORMAT/GP gives a genotype with a masked / zero-prior allele a non-zero posterior",
                              {**key, "sample": name, "GP": smp["GP"][:200], "usable": usable}, "C16/cli/masked-posterior")
    if scen == "valid":
        for fld in ("AFP", "ACP", "AOPSUM", "AOP"):
            if fld in o["INFO"]:
                v = floats_of(o["INFO"][fld])
                if len(v) != n:
                    chk.violation(f"{prog}: INFO/{fld} has {len(v)} values for {n} alleles", {**key, fld: o["INFO"][fld]},
                                  SIG_F4 if f4 else "C16/cli/array-length")
                if any(x != 0 for i, x in enumerate(v) if i not in usable):
                    chk.violation(f"{prog}: INFO/{fld} gives a masked / zero-prior allele a non-zero posterior",
                                  {**key, fld: o["INFO"][fld], "usable": usable}, "C16/cli/masked-posterior")
