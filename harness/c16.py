"""C16 — input allele filtering and prior-frequency options do what they say.

Correspondence: `parse_allele_filter`, `apply_allele_filter`, `LocusPrior.from_variant_record(frequency_tag=,
allele_filter=)` (what `--prior-frequencies` / `--filter-input-haplotypes` reach), `GenotypeAllelesMultiTrace.relabel`
+ `posterior_frequencies`, and the ALT / REFMASKED / AFPRIOR / FILTER / GT / AFP / ACP / AOP / GP columns printed by
`mchap call`, `call-exact`, `call-pedigree` on generated haplotype VCFs and on the real output of `mchap assemble`,
against the Lean model
(`MCHap/Model/Loci.lean`: `parseAlleleFilter`, `applyAlleleFilter`, `locusPrior`, `callLabels`, `callScenario`,
`exactScenario`, `relabel`, `relabelNAllele`, `posteriorCounts`).
Implementation oracles (independent `Fraction` arithmetic straight from the property statement): AFPRIOR = named INFO
values normalised over the retained alleles; exactly the failing ALT alleles disappear, a failing REF stays and is
masked; masked / zero-prior alleles never occur in a GT and have zero posterior in every reported array; a record with
no usable allele carries NOA / AF0 and missing calls and the run does not abort.
"""
from __future__ import annotations

import itertools
import math
import os
import re
import shutil
import tempfile
from decimal import Decimal
from fractions import Fraction

from . import common as C

PROP = "C16"
MODULE = "MCHap.Properties.C16"
THEOREMS = [
    "MCHap.C16.locusPrior_shape",
    "MCHap.C16.freq_normalised",
    "MCHap.C16.raw_is_named_info",
    "MCHap.C16.filter_removes_exactly_failing_alts",
    "MCHap.C16.select_spec",
    "MCHap.C16.failing_ref_masked_not_removed",
    "MCHap.C16.masked_ref_zero_prior",
    "MCHap.C16.masked_never_called",
    "MCHap.C16.masked_zero_posterior",
    "MCHap.C16.unmasked_positive_prior",
    "MCHap.C16.no_usable_allele_is_filtered",
    "MCHap.C16.call_exact_same_scenario",
    "MCHap.C16.arrays_have_record_length",
    "MCHap.C16.relabel_default_n_allele_iff",
    "MCHap.C16.relabel_n_allele_counterexample",
]
RULE = ("filter strings: field x every operator of the regex (=, ==, >, >=, <, <=, !=, <>) x value forms (int, leading zeros, "
        "d.d, .d, d., empty, '.', ',', 'd,d') plus <= 15% malformed (spaces, doubled operators, sign, exponent, trailing newline(s), "
        "non-word field); records: 0..5 ALTs with R-/A-length Float and Integer INFO arrays on a grid with zeros, all-zero vectors, "
        "missing entries, wrong lengths, absent keys, REFMASKED; configurations (frequency tag, filter) with thresholds equal to the "
        "record's own values; values include 1e-6 / 1e-42 (float32 denormal) and a literal nan (outside the documented domain: model "
        "against code only); CLI: generated haplotype VCFs AND the real output of `mchap assemble --report AFP` (AFP / AC fields, "
        "REFMASKED, records without ALT) over synthetic BAMs (one (sample, locus) without reads) for call / call-exact / call-pedigree "
        "with alternating --report lists (call-exact with and without GP/GL: full-array and low-memory branch), --inbreeding value / "
        "file, pedigrees over ploidies 2 and 4 with a --gamete-ploidy file and a member without alignment file; relabel with up to "
        "200 alleles in the dtypes the samplers produce. "
        "Non-trivial: a record with >= 2 ALTs where the configuration removes or masks at least one allele and keeps at least one. "
        "Distinct by canonical request line / (run, record).")

OPS = ["=", "==", ">", ">=", "<", "<=", "!=", "<>"]
DOC_OPS = ["=", ">", "<", ">=", "<=", "!="]
OPNAME = {"equal": "eq", "greater": "gt", "greater_equal": "ge", "less": "lt", "less_equal": "le", "not_equal": "ne"}
PYOP = {
    "eq": lambda x, v: x == v, "gt": lambda x, v: x > v, "ge": lambda x, v: x >= v,
    "lt": lambda x, v: x < v, "le": lambda x, v: x <= v, "ne": lambda x, v: x != v,
}
OPSYM = {"=": "eq", "==": "eq", ">": "gt", ">=": "ge", "<": "lt", "<=": "le", "!=": "ne"}
GRID = ["0", "0.125", "0.25", "0.5", "1", "2", "0.1", "0.3", "0.75", "3"]      # thresholds (the filter regex has no exponent form)
# INFO values: the grid plus tiny positive values (1e-42 is below the smallest normal float32: pysam hands back a
# denormal or 0, the model receives the exact rational of whatever arrives)
VALUES = GRID + ["1e-6", "1e-42", "0.000001"]
SIG_F4 = "C16/call/relabel-n-alleles"
SIG_INT = "C16/locusprior/integer-frequency-field"
SIG_NOALT = "C16/filter/number-a-no-alt"
ORDERING = ("gt", "ge", "lt", "le")


def hexs(s: str) -> str:
    return s.encode("latin-1").hex() if s else "~"


def unhex(h: str) -> str:
    return "" if h == "~" else bytes.fromhex(h).decode("latin-1")


def tok_list(xs):
    xs = list(xs)
    return ",".join(str(x) for x in xs) if xs else "~"


def err_tag(e: BaseException) -> str:
    name = type(e).__name__
    msg = str(e)
    if isinstance(e, AssertionError):
        return "err:assertion"
    if isinstance(e, TypeError) and "UFunc" not in name and "ufunc" not in msg[:6]:
        return "err:typeError"
    if "UFunc" in name or "Cannot cast ufunc" in msg:
        return "err:intDivide"
    if isinstance(e, ValueError):
        for prefix, tag in (("Invalid allele filter", "invalidFilter"), ("Invalid operator", "invalidOperator"),
                            ("Non-numerical", "nonNumeric"), ("Allele filter field not found", "notInHeader"),
                            ("Allele filter of field of invalid length", "invalidLength"), ("Invalid header", "invalidHeader"),
                            ("Field '", "freqLength"), ("cannot convert float NaN to integer", "intNan")):
            if msg.startswith(prefix):
                return "err:" + tag
    return f"err:other:{name}:{msg[:80]}"


# ----------------------------------------------------------------------------------------------
# filter strings
# ----------------------------------------------------------------------------------------------

def gen_filter_string(r):
    """(string, documented components or None)"""
    field = r.choice(["AFP", "AOP", "PF", "X_1", "9a", "_", "DP", "ab_9Z"])
    u = r.random()
    if u < 0.85:
        op = r.choice(OPS)
        val = r.choice(["0", "5", "007", "12", "0.5", ".5", "1.", "0.10", "0.125", "10.25", "", ".", ",", "1,5", ",5", "3,",
                        "0.30000001192092896", "00.50"])
        if r.random() < 0.5:
            val = r.choice(["0", "1", "0.25", "0.5", "2", "0.125", "3"])
        s = field + op + val
        doc = (field, op, val) if op in DOC_OPS else None
        return s, doc
    bad = r.choice([
        f"{field} > 1", f" {field}>1", f"{field}>1 ", f"{field}>-1", f"{field}>+1", f"{field}>1e3", f"{field}=<1", f"{field}=>1",
        f"{field}===1", f"{field}!==1", f"{field}>>1", f"{field}=!1", f"{field}!1", f"A-F>1", f"A.F>1", f">1", f"{field}", f"{field}1",
        "", f"{field}>1\n", f"{field}>=0.5\n", f"{field}>1\n\n", f"\n{field}>1", f"{field}>1.2.3", f"{field}>1..", f"{field}>0x10",
        f"{field}>1_0", f"{field}<>", f"{field}<>1.5", f"{field}><1", f"{field}>\n", f"{field}>1\r\n",
    ])
    return bad, None


def value_of_doc(val: str):
    try:
        return int(val)
    except ValueError:
        try:
            return float(val)
        except ValueError:
            return None


# ----------------------------------------------------------------------------------------------
# records
# ----------------------------------------------------------------------------------------------

FIELDS = [  # name, Number, Type
    ("PF", "R", "Float"), ("AX", "A", "Float"), ("IR", "R", "Integer"), ("IA", "A", "Integer"),
    ("ONE", "1", "Float"), ("DOT", ".", "Float"), ("TWO", "2", "Float"),
]
HEADER_INFO = [f'##INFO=<ID={n},Number={num},Type={ty},Description="generated">' for n, num, ty in FIELDS] + [
    '##INFO=<ID=REFMASKED,Number=0,Type=Flag,Description="Reference allele is masked">']


def gen_values(r, n, integer, allow_missing=True):
    mode = r.random()
    if integer:
        vals = [str(r.choice([0, 0, 1, 2, 3, 5, 10])) for _ in range(n)]
    else:
        vals = [r.choice(VALUES) for _ in range(n)]
    if mode < 0.12:
        vals = ["0"] * n
    elif mode < 0.2 and not integer:
        vals = [r.choice(["0", "0", "0.5"]) for _ in range(n)]
    elif mode < 0.24 and not integer and n:
        vals[r.randrange(n)] = "-0.25"
    elif mode < 0.29 and not integer and n:
        vals = [r.choice(["0", "1e-42", "1e-6", "1e-42"]) for _ in range(n)]      # nothing but tiny values and zeros
    elif mode < 0.31 and not integer and n and allow_missing:
        vals[r.randrange(n)] = "nan"                 # a literal NaN (not the VCF missing value): outside the documented domain
    if allow_missing and n and r.random() < 0.04:
        vals[r.randrange(n)] = "."
    return vals


def gen_info(r, n_alts, malformed_ok=True):
    """INFO column text for a record with n_alts ALTs"""
    items = []
    for name, num, ty in FIELDS:
        if r.random() < 0.08:
            continue                                  # key absent from the record
        want = {"R": n_alts + 1, "A": n_alts, "1": 1, ".": r.choice([1, 2, n_alts + 1]), "2": 2}[num]
        if malformed_ok and num in "RA" and r.random() < 0.03:
            want = max(0, want + r.choice([-1, 1]))    # wrong number of values
        if want == 0:
            if num == "A" and r.random() < 0.3:
                items.append(f"{name}=.")
            continue
        items.append(f"{name}={','.join(gen_values(r, want, ty == 'Integer', malformed_ok))}")
    if r.random() < 0.25:
        items.append("REFMASKED")
    return ";".join(items) if items else "."


def gen_seqs(r, n_alts, length=None):
    n = length or r.choice([2, 3, 4, 6])
    ref = "".join(r.choice("ACGT") for _ in range(n))
    seen = {ref}
    alts = []
    for _ in range(200):
        if len(alts) >= n_alts:
            break
        s = list(ref)
        for j in r.sample(range(n), r.randint(1, min(n, 2))):
            s[j] = r.choice([c for c in "ACGT" if c != ref[j]])
        s = "".join(s)
        if s not in seen:
            seen.add(s)
            alts.append(s)
    return ref, alts


def record_tokens(rec) -> list:
    """driver encoding of what `from_variant_record` reads from a pysam record"""
    n_alts = len(rec.alts) if rec.alts else 0
    toks = [str(n_alts), "1" if "REFMASKED" in rec.info else "0"]
    fields = []
    for name, meta in rec.header.info.items():
        if meta.type not in ("Float", "Integer"):
            continue
        num = meta.number
        numtok = {"R": "R", "A": "A", 1: "1"}.get(num, "N")
        ty = "i" if meta.type == "Integer" else "f"
        if name in rec.info:
            v = rec.info[name]
            if not isinstance(v, tuple):
                v = (v,)
            # a literal NaN is sent as the missing value: both become NaN in `np.array(.., dtype=float)`, are removed by
            # '=' and kept by '!='; they differ only under an ordering comparison (NaN: False, None: TypeError), which
            # `nan_ordering` excludes from the model comparison
            vals = tok_list("." if (x is None or is_nan(x)) else C.rat_str(x) for x in v)
        else:
            vals = "absent"
        fields += [hexs(name), numtok, ty, vals]
    toks.append(str(len(fields) // 4))
    return toks + fields


def is_nan(x) -> bool:
    return isinstance(x, float) and math.isnan(x)


def nan_fields(rec) -> set:
    """names of the INFO fields of a record that hold a literal NaN"""
    out = set()
    for name in rec.info.keys():
        v = rec.info[name]
        v = v if isinstance(v, tuple) else (v,)
        if any(is_nan(x) for x in v):
            out.add(name)
    return out


def nan_ordering(rec, flt) -> bool:
    """the filter string orders (<, >, <=, >=, <>, ...) against a field of the record that holds a literal NaN"""
    if flt is None:
        return False
    m = re.match(r"^(\w+)(.*)$", flt, re.S)
    return bool(m) and m.group(1) in nan_fields(rec) and any(c in m.group(2)[:2] for c in "<>")


def oracle_prior(rec, tag, flt):
    """The property statement evaluated with exact arithmetic on a record of the documented shape.

    Returns None when the configuration is outside the documented domain (missing entries, wrong lengths, undeclared
    or non R/A fields, unparsable filter), else dict(keep, mask, raw, freqs|None).
    """
    n_alts = len(rec.alts) if rec.alts else 0
    n = n_alts + 1
    keep = [True] * n
    mask = "REFMASKED" in rec.info
    if flt is not None:
        field, op, val = flt
        v = value_of_doc(val)
        if v is None or op not in OPSYM:
            return None
        meta = rec.header.info.get(field)
        if meta is None or meta.number not in ("R", "A"):
            return None
        obs = rec.info.get(field)
        if obs is not None and meta.number == "A" and n_alts == 0 and all(x is None for x in obs):
            # a per-ALT field of a record without ALT: '.' is the only way to write it, there is nothing to remove
            obs = None
        if obs is not None:
            if any(x is None or is_nan(x) for x in obs):
                return None
            if len(obs) != (n if meta.number == "R" else n_alts):
                return None
            passed = [PYOP[OPSYM[op]](Fraction(x), Fraction(v)) for x in obs]
            if meta.number == "A":
                passed = [True] + passed
            keep = passed
            if not keep[0]:
                mask = True
                keep[0] = True
    if tag is None:
        vals = [Fraction(1, n)] * n
    else:
        meta = rec.header.info.get(tag)
        if meta is None or meta.number != "R" or meta.type not in ("Float", "Integer"):
            return None
        obs = rec.info.get(tag)
        if obs is None or len(obs) != n or any(x is None or is_nan(x) for x in obs):
            return None
        vals = [Fraction(x) for x in obs]
    if mask:
        vals[0] = Fraction(0)
    raw = [x for x, k in zip(vals, keep) if k]
    tot = sum(raw)
    freqs = [x / tot for x in raw] if tot > 0 else None
    return {"keep": keep, "mask": mask, "raw": raw, "freqs": freqs,
            "integer": tag is not None and rec.header.info.get(tag).type == "Integer"}


def rounding_margin(rec, doc) -> bool:
    """True when some observation of the filter field lies between the decimal threshold and float(threshold)"""
    if doc is None:
        return False
    field, _, val = doc
    v = value_of_doc(val)
    if v is None or isinstance(v, int) or field not in rec.header.info:
        return False
    try:
        exact = Fraction(Decimal(val if val[0] != "." else "0" + val))
    except Exception:   # noqa: BLE001
        return False
    fl = Fraction(v)
    if exact == fl:
        return False
    lo, hi = min(exact, fl), max(exact, fl)
    obs = rec.info.get(field)
    obs = obs if isinstance(obs, tuple) else (() if obs is None else (obs,))
    return any(x is not None and not is_nan(x) and lo <= Fraction(x) <= hi for x in obs)


def scenario_of(o):
    """NOA / AF0 / valid, and the usable alleles (indices into the retained alleles)"""
    n = len(o["raw"])
    if o["mask"] and n == 1:
        return "NOA", []
    if o["freqs"] is None:
        return "AF0", []
    usable = [i for i in range(n) if not (i == 0 and o["mask"]) and o["freqs"][i] != 0]
    return "valid", usable


def vcf_order_genotypes(n, p):
    gs = list(itertools.combinations_with_replacement(range(n), p))
    gs.sort(key=lambda g: tuple(reversed(g)))
    return gs


def floats_of(text):
    return [math.nan if x == "." else float(x) for x in text.split(",")]


def run(tier, replay=None):
    import numpy as np
    import pysam
    from mchap.io.filter_alleles import parse_allele_filter, apply_allele_filter
    from mchap.io.loci import LocusPrior
    from mchap.calling.classes import GenotypeAllelesMultiTrace
    from . import synth as S

    chk = C.Check(PROP, tier, MODULE, THEOREMS, RULE, exe="driver_loci", assumptions=[
        "filter strings are ASCII (Python's \\w and \\d also accept non-ASCII letters / digits; the model's classes are ASCII)",
        "decimal -> float64 conversion of the threshold and float32 storage of INFO values are runtime: the model receives the exact "
        "rational of every float the implementation sees; normalised frequencies are compared at rel 1e-9",
        "CLI values are printed with 3 decimals: AFPRIOR is compared at 6e-4 absolute",
        "the samplers' posterior values are not modelled here (C02/C03); only which entries must be zero / missing",
        "a missing ('.') entry inside an INFO array is outside the property's domain: the model mirrors the code (TypeError for an "
        "ordering comparison, removed by '=', kept by '!=', NaN prior -> AF0 when retained as a frequency) but no oracle judges it",
        "a literal 'nan' INFO value is outside the property's domain as well (the quantifier speaks of numeric vectors incl. zeros / "
        "all-zero); the model has no NaN value, so it is sent as the missing value, which the code treats identically except under an "
        "ordering comparison (NaN: False, None: TypeError) - those configurations are counted, not compared",
        "a Number=A filter field on a record without ALT can only be written '<field>=.': inside the domain, nothing to remove",
    ])
    chk.prove()
    drv = C.Driver("driver_loci")
    r = C.rng(PROP)
    n_flt = {"warm": 10, "quick": 500, "thorough": 5000}[tier]
    n_rec = {"warm": 8, "quick": 250, "thorough": 2500}[tier]
    n_cfg = {"warm": 2, "quick": 5, "thorough": 8}[tier]
    n_trace = {"warm": 5, "quick": 120, "thorough": 1200}[tier]
    n_big = {"warm": 1, "quick": 16, "thorough": 400}[tier]
    work = tempfile.mkdtemp(prefix="verif-c16-")
    try:
        # ================================================================== A. parse_allele_filter
        cases = [gen_filter_string(r) for _ in range(n_flt)]
        ans = drv.ask([f"flt.parse {hexs(s)}" for s, _ in cases])
        for (s, doc), a in zip(cases, ans):
            try:
                field, func, value = parse_allele_filter(s)
                im = ("ok", field, OPNAME.get(func.__name__, func.__name__), value, "int" if isinstance(value, int) else "float")
            except Exception as e:   # noqa: BLE001
                im = err_tag(e)
            chk.count("parse:" + (im if isinstance(im, str) else "ok"))
            chk.case(f"flt.parse {hexs(s)}", doc is not None and not isinstance(im, str),
                     sample={"request": repr(s), "impl": str(im), "model": a})
            if isinstance(im, str):
                if a != im:
                    chk.disagreement("parse_allele_filter error != model", {"string": s, "impl": im, "model": a})
            else:
                parts = a.split(" ")
                ok = (parts[0] == "ok" and len(parts) == 5 and unhex(parts[1]) == im[1] and parts[2] == im[2]
                      and parts[4] == im[4] and float(C.parse_rat(parts[3])) == float(im[3]))
                if not ok:
                    chk.disagreement("parse_allele_filter result != model", {"string": s, "impl": str(im), "model": a})
            # oracle: a documented string <field><op><value> means exactly its components
            if doc is not None:
                v = value_of_doc(doc[2])
                if v is not None:
                    if isinstance(im, str) or (im[1], im[2]) != (doc[0], OPSYM[doc[1]]) or float(im[3]) != float(v):
                        chk.violation("parse_allele_filter does not return the components of a documented filter string",
                                      {"string": s, "impl": str(im), "expected": [doc[0], OPSYM[doc[1]], v]}, "C16/parse/components")

        # ================================================================== B. apply_allele_filter / from_variant_record
        lines = ["##fileformat=VCFv4.3", f"##contig=<ID=chr1,length={n_rec * 20 + 100}>"] + HEADER_INFO + [
            "#CHROM\tPOS\tID\tREF\tALT\tQUAL\tFILTER\tINFO"]
        for i in range(n_rec):
            n_alts = r.choice([0, 1, 2, 2, 3, 3, 4, 5])
            ref, alts = gen_seqs(r, n_alts)
            lines.append(f"chr1\t{10 + 20 * i}\tr{i}\t{ref}\t{','.join(alts) if alts else '.'}\t.\tPASS\t{gen_info(r, len(alts))}")
        gz = S.bgzip_tabix_vcf(S.write_text(os.path.join(work, "records.vcf"), "\n".join(lines) + "\n"))
        reqs, impls, metas = [], [], []
        with pysam.VariantFile(gz) as f:
            for rec in f.fetch():
                n_alts = len(rec.alts) if rec.alts else 0
                rtoks = record_tokens(rec)
                for _ in range(n_cfg):
                    # frequency tag
                    u = r.random()
                    tag = None if u < 0.3 else ("PF" if u < 0.8 else ("IR" if u < 0.88 else r.choice(["AX", "ONE", "DOT", "TWO", "UNDEF", "IA"])))
                    # filter
                    flt, doc = None, None
                    u = r.random()
                    if u < 0.75:
                        field = r.choice(["PF", "PF", "AX", "AX", "IR", "IA"]) if r.random() < 0.94 else r.choice(["ONE", "DOT", "ZZ"])
                        op = r.choice(OPS if r.random() < 0.1 else DOC_OPS)
                        own = rec.info.get(field) if field in rec.header.info else None
                        pool = [x for x in (own if isinstance(own, tuple) else ()) if x is not None and not is_nan(x)]
                        val = None
                        if pool and r.random() < 0.6:
                            # a threshold exactly equal to one of the record's own values: the exact decimal expansion of
                            # the float32 the record stores (no decimal -> binary rounding between model and code)
                            x = r.choice(pool)
                            sx = str(x) if isinstance(x, int) else format(Decimal(float(x)), "f")
                            if not sx.startswith("-"):
                                val = sx
                        if val is None:
                            val = r.choice(GRID)
                        flt = field + op + val
                        doc = (field, op, val)
                    elif u < 0.8:
                        flt, doc = gen_filter_string(r)
                    alts_in = list(rec.alts) if rec.alts else []
                    try:
                        lp = LocusPrior.from_variant_record(rec, frequency_tag=tag, allele_filter=flt)
                        keep = [True] + [a in lp.alts for a in alts_in]
                        fr = [float(x) for x in lp.frequencies]
                        im = {"keep": keep, "mask": bool(lp.mask_reference_allele), "freqs": fr, "alts": list(lp.alts),
                              "enc_rows": len(lp.encode_haplotypes())}
                    except Exception as e:   # noqa: BLE001
                        im = err_tag(e)
                    reqs.append(" ".join(["lp"] + rtoks + ["-" if tag is None else hexs(tag), "-" if flt is None else hexs(flt)]))
                    impls.append(im)
                    orc = oracle_prior(rec, tag, doc) if (flt is None or doc is not None) else None
                    noalt = (doc is not None and n_alts == 0 and doc[0] in rec.header.info and rec.header.info[doc[0]].number == "A"
                             and doc[0] in rec.info)
                    metas.append((rec.id, rec.ref, alts_in, str(dict(rec.info)), tag, flt, orc, n_alts, rounding_margin(rec, doc),
                                  nan_ordering(rec, flt), noalt))
                # apply_allele_filter alone (keep array before the reference is forced)
                for _ in range(2):
                    field = r.choice(["PF", "AX", "IR", "IA", "ONE", "DOT", "ZZ"])
                    op = r.choice(DOC_OPS)
                    val = r.choice(GRID)
                    v = value_of_doc(val)
                    try:
                        k = apply_allele_filter(rec, field, parse_allele_filter("x" + op + val)[1], v)
                        im = tok_list(int(bool(x)) for x in k)
                    except Exception as e:   # noqa: BLE001
                        im = err_tag(e)
                    reqs.append(" ".join(["flt.apply"] + rtoks + [hexs(field), OPSYM[op], C.rat_str(v)]))
                    impls.append(im)
                    metas.append("nan-ordering" if (field in nan_fields(rec) and OPSYM[op] in ORDERING) else None)
        ans = drv.ask(reqs)
        for req, a, im, meta in zip(reqs, ans, impls, metas):
            if meta == "nan-ordering":
                # ordering comparison against a literal NaN: not expressible in the model's value type (see record_tokens)
                chk.count("apply:nan-ordering-not-modelled")
                continue
            if meta is None:
                chk.count("apply:" + (im if im.startswith("err") else "ok"))
                chk.case(req, False)
                if a != im:
                    chk.disagreement("apply_allele_filter != model", {"request": req, "impl": im, "model": a})
                continue
            rid, ref, alts_in, info, tag, flt, orc, n_alts, margin, nan_ord, noalt = meta
            case = {"record": rid, "ref": ref, "alts": alts_in, "info": info, "frequency_tag": tag, "allele_filter": flt}
            if "nan" in info:
                chk.count("lp:record-with-literal-nan")
            if nan_ord:
                chk.count("lp:nan-ordering-not-modelled")
                continue
            if noalt:
                chk.count("lp:number-A-filter-on-record-without-ALT")
            if margin:
                # an observation lies between the decimal threshold and its float64 rounding: decision boundary inside the
                # rounding margin (DESIGN App. A) - counted, not compared
                chk.count("lp:threshold-inside-rounding-margin")
                continue
            if isinstance(im, str):
                chk.count("lp:" + im[:40])
                chk.case(req, False)
                if a != im:
                    chk.disagreement("from_variant_record error != model", {**case, "impl": im, "model": a})
                if orc is not None:
                    sig = SIG_INT if (orc["integer"] and im in ("err:intDivide", "err:intNan")) else "C16/locusprior/aborts-on-documented-input"
                    what = ("from_variant_record aborts on a record / option combination of the documented shape "
                            "(integer INFO field as --prior-frequencies)" if sig == SIG_INT else
                            "from_variant_record aborts on a record / option combination of the documented shape")
                    if noalt and im == "err:assertion":
                        sig = SIG_NOALT
                        what = ("--filter-input-haplotypes on a Number=A field aborts on a record without ALT (the field can only be "
                                "written '.', pysam returns (None,), `assert len(observations) == n_alts` fails): nothing to remove, "
                                "the record must be processed with REF kept")
                    chk.violation(what, {**case, "impl": im}, sig)
                continue
            chk.count("lp:ok")
            removed = im["keep"].count(False)
            nontriv = n_alts >= 2 and (removed >= 1 or im["mask"] or any(x == 0 for x in im["freqs"])) and len(im["alts"]) >= 1
            nan = any(math.isnan(x) for x in im["freqs"])
            if nan:
                chk.count("lp:nan-frequencies")
            if im["mask"]:
                chk.count("lp:ref-masked")
            if removed:
                chk.count("lp:alts-removed")
            chk.case(req, nontriv, sample={"request": req[:300], "impl": str(im)[:300], "model": a[:300]})
            parts = a.split(" ")
            if parts[0].startswith("err"):
                chk.disagreement("from_variant_record succeeded, model raises", {**case, "impl": str(im), "model": a})
            else:
                m_keep = [x == "1" for x in parts[0].split(",")]
                m_mask = parts[1] == "1"
                m_fr = None if parts[3] == "nan" else [float(C.parse_rat(x)) for x in parts[3].split(",")]
                same = m_keep == im["keep"] and m_mask == im["mask"]
                if m_fr is None:
                    same = same and all(math.isnan(x) for x in im["freqs"]) and len(im["freqs"]) == m_keep.count(True)
                else:
                    same = same and len(m_fr) == len(im["freqs"]) and all(C.close(x, y) for x, y in zip(m_fr, im["freqs"]))
                if not same:
                    chk.disagreement("from_variant_record (keep / mask / frequencies) != model", {**case, "impl": str(im), "model": a})
            if im["enc_rows"] != 1 + len(im["alts"]):
                chk.violation("encode_haplotypes rows != 1 + retained ALTs", {**case, "impl": str(im)}, "C16/locusprior/encode-rows")
            # ---- oracle straight from the property statement
            if orc is not None:
                if orc["keep"] != im["keep"]:
                    chk.violation("the retained ALT alleles are not exactly those passing the predicate (REF always kept)",
                                  {**case, "impl": im["keep"], "expected": orc["keep"]}, "C16/locusprior/keep")
                if orc["mask"] != im["mask"]:
                    chk.violation("reference masking differs from (REFMASKED or failing reference)",
                                  {**case, "impl": im["mask"], "expected": orc["mask"]}, "C16/locusprior/mask")
                if orc["freqs"] is None:
                    okf = all(math.isnan(x) for x in im["freqs"])
                else:
                    okf = len(orc["freqs"]) == len(im["freqs"]) and all(C.close(float(x), y) for x, y in zip(orc["freqs"], im["freqs"]))
                    if okf and not C.close(sum(im["freqs"]), 1.0):
                        okf = False
                if not okf:
                    chk.violation("prior frequencies are not the named INFO values normalised over the retained alleles",
                                  {**case, "impl": im["freqs"], "expected": None if orc["freqs"] is None else [str(x) for x in orc["freqs"]]},
                                  "C16/locusprior/frequencies")

        # ================================================================== C. relabel / posterior_frequencies
        reqs, impls, metas = [], [], []
        for t in range(n_trace + n_big):
            big = t >= n_trace
            if big:
                # many alleles: labels beyond int8 (the samplers hand over int32 - `greedy_caller` / `mcmc_sampler` - or
                # int16 - `PedigreeCallingMCMC.fit` - genotypes; the labels come from `np.where`, int64)
                n = r.choice([7, 64, 127, 128, 129, 130, 200, 200, 200, 257, r.randint(7, 200), r.randint(129, 200), r.randint(129, 200)])
                p_mask = r.choice([0.05, 0.35, 0.8])
                dtype = r.choice([np.int16, np.int32, np.int32, np.int64])
                chk.count(f"trace:big-alleles dtype={np.dtype(dtype).name}")
                if n > 127:
                    chk.count("trace:more-than-127-alleles")
            else:
                n = r.randint(1, 6)
                p_mask = 0.35
                dtype = r.choice([np.int8, np.int8, np.int16, np.int32])
            mask = [r.random() < p_mask for _ in range(n)]
            if r.random() < 0.3:
                mask[-1] = True
            if big and r.random() < 0.5:
                mask[0] = True                       # masked reference
            labels = [i for i in range(n) if not mask[i]]
            if not labels:
                labels = [r.randrange(n)]
            ploidy = r.choice([1, 2, 4, 6] if big else [1, 2, 4])
            chains, steps = r.choice([1, 2]), r.randint(1, 4)
            top = len(labels) - 1
            g = np.array([[[top if (big and r.random() < 0.3) else r.randrange(len(labels)) for _ in range(ploidy)]
                           for _ in range(steps)] for _ in range(chains)], dtype=dtype)
            if big:
                g[0, 0, 0] = top                     # the highest retained label occurs
            base = GenotypeAllelesMultiTrace(g, np.zeros((chains, steps)), len(labels))
            flat = [int(x) for x in g.reshape(-1)]
            n_obs = chains * steps
            tcase = {"record_alleles": n, "labels": labels[:210], "genotype_dtype": str(g.dtype), "genotypes": flat[:60]}
            try:
                # (i) the default of relabel (n_allele = labels.max()+1) against the model's default
                tr0 = base.relabel(np.array(labels))
                out0 = f"{tok_list(int(x) for x in tr0.genotypes.reshape(-1))} {int(tr0.n_allele)}"
                # (ii) the program path: relabel(labels, n_allele=<record alleles>) as call.py / call_pedigree.py do
                try:
                    tr = base.relabel(np.array(labels), n_allele=n)
                except TypeError as e:
                    chk.violation("GenotypeAllelesMultiTrace.relabel cannot be told the record's allele count; the per-allele arrays of a "
                                  "relabelled trace are sized labels.max()+1",
                                  {"record_alleles": n, "labels": labels, "error": repr(e)[:200]}, SIG_F4)
                    tr = tr0
                fr, counts, occ = tr.posterior_frequencies()
                rows = [[int(x) for x in row] for row in tr.genotypes.reshape(-1, ploidy)]
                out1 = f"{tok_list(int(x) for x in tr.genotypes.reshape(-1))} {int(tr.n_allele)}"
                cnts = [float(c) * n_obs for c in counts]
                out2 = tok_list(int(round(c)) if math.isfinite(c) else "nan" for c in cnts)
            except Exception as e:   # noqa: BLE001
                chk.violation("relabel / posterior_frequencies abort on a trace of valid allele indices",
                              {**tcase, "error": repr(e)[:300]}, "C16/relabel/aborts")
                continue
            reqs.append(f"relabel {tok_list(labels)} {tok_list(flat)} -")
            impls.append(out0)
            metas.append(None)
            reqs.append(f"relabel {tok_list(labels)} {tok_list(flat)} {n}")
            impls.append(out1)
            metas.append(None)
            reqs.append(f"postcounts {int(tr.n_allele)} {'|'.join(tok_list(x) for x in rows)}")
            impls.append(out2)
            metas.append((n, labels, rows, [float(x) for x in counts], [float(x) for x in fr], [float(x) for x in occ]))
        ans = drv.ask(reqs)
        for req, a, im, meta in zip(reqs, ans, impls, metas):
            chk.count("trace:" + req.split(" ")[0])
            chk.case(req, meta is not None and len(meta[1]) < meta[0] and len(meta[1]) >= 2)
            if a != im:
                chk.disagreement("relabel / posterior_frequencies != model", {"request": req, "impl": im, "model": a})
            if meta is not None:
                n, labels, rows, counts, fr, occ = meta
                if any(x not in labels for row in rows for x in row):
                    chk.violation("a relabelled genotype contains a masked allele", {"labels": labels, "rows": rows}, "C16/relabel/masked-allele")
                lset = set(labels)
                if any(c != 0 for arr in (counts, fr, occ) for i, c in enumerate(arr) if i not in lset):
                    chk.violation("a masked allele has a non-zero posterior count / frequency / occurrence",
                                  {"labels": labels, "counts": counts, "frequencies": fr, "occurrence": occ}, "C16/relabel/masked-posterior")
                if (n - 1) not in labels:
                    chk.count("trace:last-allele-masked")
                if not (len(counts) == len(fr) == len(occ) == n):
                    chk.violation("posterior_frequencies of a trace relabelled with the record's allele count returns arrays shorter than "
                                  "the number of record alleles",
                                  {"record_alleles": n, "labels": labels, "lengths": [len(fr), len(counts), len(occ)],
                                   "reproduce": "GenotypeAllelesMultiTrace(g, llks, len(labels)).relabel(np.array(labels), n_allele=n).posterior_frequencies()"},
                                  SIG_F4)

        # ================================================================== D. command line
        cli(chk, drv, r, tier, work, S, pysam)
        # E. the prior each program's model is run with IS the record's prior (frequencies after masking, the alleles left after
        # masking), for every sample: the plumbing observer on call / call-exact / call-pedigree with and without --prior-frequencies
        from . import plumbing
        plumbing.run_plumbing(chk, C.rng(PROP + ":plumbing"), None, PROP, programs=("call", "call-exact", "call-pedigree"), tier=tier)
    finally:
        shutil.rmtree(work, ignore_errors=True)
    return chk.finish()


# ----------------------------------------------------------------------------------------------
# D. command line
# ----------------------------------------------------------------------------------------------

CLI_FIELDS = [("PF", "R", "Float"), ("AX", "A", "Float"), ("IR", "R", "Integer")]


def hap_string(ds, l, vec):
    s = list(ds.contigs[l.contig][l.start:l.stop])
    for p, als, a in zip(l.snv_positions, l.snv_alleles, vec):
        s[p - l.start] = als[a]
    return "".join(s)


def gen_hap_records(r, ds, per_locus):
    """haplotype-VCF record lines (several per locus, different ALT sets and INFO vectors)"""
    recs = []
    serial = 0
    for l in ds.loci:
        ref = ds.contigs[l.contig][l.start:l.stop]
        true = set()
        for s in ds.samples:
            for h in ds.truth[s][l.name]:
                if h != ref:
                    true.add(h)
        space = list(itertools.product(*[range(len(a)) for a in l.snv_alleles])) if l.snv_positions else []
        for k in range(per_locus):
            serial += 1
            pool = sorted(true)
            extra = [hap_string(ds, l, v) for v in r.sample(space, min(len(space), 4))] if space else []
            cand = [h for h in dict.fromkeys(pool + extra) if h != ref]
            r.shuffle(cand)
            n_alts = min(len(cand), r.choice([0, 1, 2, 3, 3, 4, 4]))
            alts = cand[:n_alts]
            n = n_alts + 1
            mode = r.random()
            mode = {2: 0.6, 4: 0.65, 5: 0.72}.get(serial, mode)      # every dataset has the tiny-value and the NaN shapes
            pf = [r.choice(["0", "0.125", "0.25", "0.25", "0.5", "1", "2"]) for _ in range(n)]
            if mode < 0.08:
                pf = ["0"] * n
            elif mode < 0.3:
                pf = [r.choice(["0.25", "0.5", "1"]) for _ in range(n)]
            elif mode < 0.38:
                pf = ["0"] * n
                pf[r.randrange(n)] = "0.5"
            elif mode < 0.55 and n >= 2:
                pf[-1] = "0"                     # the highest-numbered allele has zero prior (relabel's n_allele)
                pf[0] = "0.5"
            elif mode < 0.63:
                pf = [r.choice(["1e-6", "1e-42", "0", "1e-42", "0.000001"]) for _ in range(n)]     # nothing but tiny values / zeros
            elif mode < 0.7:
                pf[r.randrange(n)] = r.choice(["1e-6", "1e-42"])                                  # a tiny value next to ordinary ones
            elif mode < 0.74:
                pf[r.randrange(n)] = "nan"       # a literal NaN: outside the documented domain (model against code only)
            masked_here = None
            if serial % 3 == 0 and n_alts:
                # the allele the samples really carry (in the most copies) gets prior exactly 0, every other allele a positive one:
                # the reads pull towards it, the prior forbids it (with inbreeding > 0 a chain that starts on it could stay there)
                carried = {h: sum(ds.truth[s_][l.name].count(h) for s_ in ds.samples) for h in alts}
                best = max(alts, key=lambda h: carried[h])
                if carried[best] >= 2:
                    pf = [r.choice(["0.25", "0.5", "1"]) for _ in range(n)]
                    pf[alts.index(best) + 1] = "0"
                    masked_here = best
            items = [f"PF={','.join(pf)}"]
            if n_alts:
                items.append("AX=" + ",".join(r.choice(["0", "0.125", "0.25", "0.5", "1"]) for _ in range(n_alts)))
            items.append("IR=" + ",".join(str(r.choice([0, 1, 2, 5])) for _ in range(n)))
            if r.random() < 0.2 and masked_here is None:
                items.append("REFMASKED")
            recs.append((l, f"{l.contig}\t{l.start + 1}\t{l.name}.{k}\t{ref}\t{','.join(alts) if alts else '.'}\t.\tPASS\t{';'.join(items)}"))
    order = {c: i for i, c in enumerate(ds.contigs)}
    recs.sort(key=lambda t: (order[t[0].contig], t[0].start))
    return [x[1] for x in recs]


def hap_vcf_text(ds, lines):
    hdr = ["##fileformat=VCFv4.3"] + [f"##contig=<ID={c},length={len(s)}>" for c, s in ds.contigs.items()]
    hdr += [f'##INFO=<ID={n},Number={num},Type={ty},Description="generated">' for n, num, ty in CLI_FIELDS]
    hdr += ['##INFO=<ID=REFMASKED,Number=0,Type=Flag,Description="Reference allele is masked">',
            "#CHROM\tPOS\tID\tREF\tALT\tQUAL\tFILTER\tINFO"]
    return "\n".join(hdr + lines) + "\n"


# --report lists. FULL: GP and / or GL requested -> call-exact computes the whole posterior array; LOWMEM: neither -> call-exact
# takes the low-memory `posterior_mode` branch. The oracles of check_out_record only look at the fields that are present.
REPORT_ALL = ["AFPRIOR", "AFP", "ACP", "AOPSUM", "GP", "AOP"]
REPORTS_FULL = [REPORT_ALL, ["AFPRIOR", "GL", "AFP", "AOP"], ["AFPRIOR", "GP"], ["GP", "GL", "FORMAT/ACP", "INFO/AOP"],
                ["AFPRIOR", "AFP", "ACP", "AOPSUM", "GP", "AOP", "GL"]]
REPORTS_LOWMEM = [["AFPRIOR", "AFP", "ACP", "AOP"], ["AFPRIOR", "INFO/AFP", "FORMAT/AOP", "AOPSUM"], ["AFPRIOR"],
                  ["AFP", "FORMAT/ACP", "AOP"], ["AFPRIOR", "ACP", "AOPSUM", "AOP", "AFP"], []]
GHOST = "NOBAM"        # pedigree member listed only in the --sample-parents file


def pick_report(r, low):
    return list(r.choice(REPORTS_LOWMEM if low else REPORTS_FULL))


def pedigree_files(r, ds, dsdir, S):
    """--sample-parents / --gamete-ploidy / --ploidy files of a valid pedigree over the dataset's samples (any mix of
    ploidies 2 and 4) plus one member WITHOUT alignment file (it exists only in the pedigree file; `parse_pedigree_arguments`
    appends it as a sample without reads, so it needs a ploidy and is an output column).
    A gamete never has more copies than its parent; a tetraploid child gets two diploid gametes (unreduced when the
    parent is diploid), a diploid child two haploid ones; founders get the halves of their own ploidy."""
    a, b, c = r.sample(list(ds.samples), 3) if len(ds.samples) >= 3 else (list(ds.samples) * 3)[:3]
    pl = dict(ds.ploidy)
    pl[GHOST] = r.choice([2, 4])
    shape = r.choice(["ungenotyped-parent", "ungenotyped-parent", "ungenotyped-child", "ungenotyped-founder-of-two"])
    if shape == "ungenotyped-parent":
        par = {a: (".", "."), GHOST: (".", "."), c: (a, GHOST), b: (".", ".")}
    elif shape == "ungenotyped-child":
        par = {a: (".", "."), b: (".", "."), c: (a, b), GHOST: (c, r.choice([".", a]))}
    else:
        par = {GHOST: (".", "."), a: (".", "."), b: (GHOST, a), c: (a, GHOST)}
    order = list(par)
    r.shuffle(order)                                  # neither file relies on parents preceding children
    ped = S.write_text(os.path.join(dsdir, "ped.txt"), "".join(f"{s}\t{par[s][0]}\t{par[s][1]}\n" for s in order))
    tau = S.write_text(os.path.join(dsdir, "tau.txt"), "".join(f"{s}\t{pl[s] // 2}\t{pl[s] - pl[s] // 2}\n" for s in reversed(order)))
    ploidy = S.write_text(os.path.join(dsdir, "ploidy_ped.txt"), open(ds.ploidy_file).read() + f"{GHOST}\t{pl[GHOST]}\n")
    return {"ped": ped, "tau": tau, "ploidy": ploidy, "shape": shape, "ploidies": sorted(set(pl.values())),
            "columns": list(ds.samples) + [GHOST]}


class CliRuns:
    """one dataset after the other: split the records of a configuration into runs, run the program, apply the oracles"""

    def __init__(self, chk, drv, r, S, pysam):
        self.chk, self.drv, self.r, self.S, self.pysam = chk, drv, r, S, pysam
        self.pend = []      # (request, key, out_record) for the model comparison
        self.mcmc = ["--mcmc-steps", "100", "--mcmc-burn", "40"]

    def run_config(self, d, ds, dsdir, name, header, recs, prog, tag, flt, report, source, ped=None, inbreeding=None):
        chk, S = self.chk, self.S
        fstr = "".join(flt) if flt else None
        orcs = [oracle_prior(rec, tag, flt) for rec in recs]
        parts = {"main": [], "f4": [], "noalt": [], "ood": []}
        for i, (rec, o) in enumerate(zip(recs, orcs)):
            n_alts = len(rec.alts) if rec.alts else 0
            if o is None:
                # outside the documented domain (a literal NaN, a missing entry): model against code only, and only where
                # the model can express the input and does not predict an abort (those are compared in section B)
                if nan_ordering(rec, fstr):
                    chk.count("cli:out-of-domain-record-not-run(nan-ordering)")
                    continue
                a = self.drv.ask1(" ".join(["lp"] + record_tokens(rec) + ["-" if tag is None else hexs(tag), "-" if fstr is None else hexs(fstr)]))
                if a.startswith("err"):
                    chk.count("cli:out-of-domain-record-not-run(model-predicts-abort)")
                    continue
                parts["ood"].append(i)
                continue
            meta = rec.header.info.get(flt[0]) if flt else None
            if meta is not None and meta.number == "A" and n_alts == 0 and flt[0] in rec.info:
                # Number=A filter field on a record without ALT ('AC=.'): run apart, an abort here has its own signature
                parts["noalt"].append(i)
                continue
            # records whose highest-numbered retained allele is masked / has zero prior (where the per-allele arrays
            # depend on relabel's n_allele) are run separately, so that an abort there cannot hide the other records
            scen, usable = scenario_of(o)
            n = len(o["raw"])
            trigger = prog != "call-exact" and scen == "valid" and len(usable) < n and (n - 1) not in usable
            parts["f4" if trigger else "main"].append(i)
        for part, idx in parts.items():
            if not idx:
                continue
            gz = S.bgzip_tabix_vcf(S.write_text(os.path.join(dsdir, f"{name}.{part}.vcf"), header + "".join(lines_of(recs[i]) + "\n" for i in idx)))
            with self.pysam.VariantFile(gz) as f:
                inputs = list(f.fetch())               # exactly what the program is going to read
            if len(inputs) != len(idx):
                raise C.Infra("pysam does not read back the generated haplotype records")
            extra = []
            if prog != "call-exact":
                extra += self.mcmc
            if report:
                extra += ["--report"] + list(report)
            if ped is not None and prog == "call-pedigree":
                extra += ["--sample-parents", ped["ped"], "--gamete-ploidy", ped["tau"]]
            if inbreeding is not None and prog != "call-pedigree":
                extra += ["--inbreeding", inbreeding]
            if tag:
                extra += ["--prior-frequencies", tag]
            if flt:
                extra += ["--filter-input-haplotypes", fstr]
            argv = ds.call_argv(prog, gz, *extra)
            if ped is not None and prog == "call-pedigree":
                argv[argv.index("--ploidy") + 1] = ped["ploidy"]
            key0 = {"dataset": d, "source": source, "program": prog, "frequency_tag": tag, "filter": fstr, "part": part,
                    "report": " ".join(report)}
            chk.breadcrumb("mchap " + prog, {**key0, "argv_tail": extra})
            out, code, err = S.run_program(argv)
            chk.count(f"cli:{prog}:{part}-runs")
            chk.count(f"cli:{prog}:{source}-runs")
            chk.count(f"cli:{prog}:report " + ("GP/GL" if any(x.split("/")[-1] in ("GP", "GL") for x in report) else "without GP and GL")
                      + ("" if any(x.split("/")[-1] in ("AFP", "ACP", "AOP", "AOPSUM") for x in report) else ", no posterior allele array"))
            if inbreeding is not None and prog != "call-pedigree":
                chk.count("cli:--inbreeding " + ("file" if os.path.exists(inbreeding) else "value"))
            if code != 0:
                in_lines = [lines_of(x)[:300] for x in inputs]
                case = {**key0, "error": err[:600], "input_records": in_lines[:6], "argv_tail": extra}
                if part == "ood":
                    chk.disagreement(f"mchap {prog} aborted on records (outside the documented domain) that the model accepts", case)
                elif part == "noalt":
                    chk.violation(f"mchap {prog} --filter-input-haplotypes '{fstr}' (Number=A field) aborts on a record without ALT "
                                  f"({flt[0]}=.): nothing to remove, the record must be processed with REF kept", case, SIG_NOALT)
                else:
                    chk.violation(f"mchap {prog} aborted", case, SIG_F4 if part == "f4" else f"C16/cli/{prog}-abort")
                continue
            _, outs = S.parse_vcf_text(out)
            if len(outs) != len(idx):
                chk.violation(f"mchap {prog} printed {len(outs)} records for {len(idx)} input records", key0, f"C16/cli/{prog}-record-count")
                continue
            for rec, o_rec in zip(inputs, outs):
                orc = oracle_prior(rec, tag, flt)
                pv = rec.info.get(tag, ()) if tag else ()
                pv = pv if isinstance(pv, tuple) else (pv,)
                if any(isinstance(x, float) and 0 < x < 1e-5 for x in pv):
                    chk.count("cli:prior with a tiny positive value (<1e-5)")
                if any(isinstance(x, float) and 0 < x < 1.1754943508222875e-38 for x in pv):
                    chk.count("cli:prior with a float32-denormal value")
                if any(is_nan(x) for x in pv):
                    chk.count("cli:prior with a literal NaN")
                if ped is not None and prog == "call-pedigree" and o_rec["sample_names"] != ped["columns"]:
                    chk.violation("call-pedigree: the sample columns are not the samples of the run followed by the pedigree member "
                                  "without alignment file", {**key0, "columns": o_rec["sample_names"], "expected": ped["columns"]},
                                  "C16/cli/call-pedigree-columns")
                if orc is not None:
                    check_out_record(chk, key0, prog, rec, orc, o_rec, part, ds)
                else:
                    chk.count("cli:out-of-domain-record(model only)")
                    chk.case({"seed": C.seed(), **key0, "record": rec.id}, False)
                self.pend.append((" ".join(["lp"] + record_tokens(rec) + ["-" if tag is None else hexs(tag), "-" if fstr is None else hexs(fstr)]),
                                  {**key0, "record": rec.id}, o_rec))


def cli(chk, drv, r, tier, work, S, pysam):
    n_sets = {"warm": 1, "quick": 4, "thorough": 24}[tier]
    n_asm = {"warm": 1, "quick": 10, "thorough": 18}[tier]            # configurations per assemble output
    n_asm_sets = {"warm": 1, "quick": 2, "thorough": 12}[tier]
    runs = CliRuns(chk, drv, r, S, pysam)
    mcmc = runs.mcmc
    for d in range(n_sets):
        pedigree = d % 2 == 1
        dsdir = os.path.join(work, f"ds{d}")
        # even datasets: one (sample, locus) pair without any read; odd ones: a pedigree with both ploidies
        ds = S.make_dataset(r, dsdir, n_samples=3, n_loci=3, ploidies=(2, 4), max_snvs=3, depth=(6, 14),
                            features=frozenset() if pedigree else frozenset({"nodepth"}))
        if ds.nodepth:
            chk.count("cli:dataset with a zero-read (sample, locus)")
        ped = pedigree_files(r, ds, dsdir, S)
        chk.count(f"cli:pedigree shape={ped['shape']} ploidies={ped['ploidies']}")
        inb_file = S.write_text(os.path.join(dsdir, "inbreeding.txt"),
                                "".join(f"{s}\t{r.choice(['0.0', '0.1', '0.25', '0.5'])}\n" for s in reversed(ds.samples)))
        lines = gen_hap_records(r, ds, per_locus=3)
        header = hap_vcf_text(ds, [])
        all_gz = S.bgzip_tabix_vcf(S.write_text(os.path.join(dsdir, "haps.vcf"), hap_vcf_text(ds, lines)))

        def rnd_filter():
            field = r.choice(["PF", "AX", "IR"])
            op = r.choice([">", ">", ">=", ">=", "!=", "<", "<=", "="])
            if op in (">", ">=", "!="):
                val = r.choice(["0", "0.125", "0.25"]) if field != "IR" else r.choice(["0", "1"])
            else:
                val = r.choice(["0.25", "0.5", "1", "2"]) if field != "IR" else r.choice(["1", "2", "5"])
            return (field, op, val)

        def rnd_inbreeding():
            u = r.random()
            return None if u < 0.4 else (r.choice(["0.1", "0.25", "0.9"]) if u < 0.7 else inb_file)

        with pysam.VariantFile(all_gz) as f:
            recs = list(f.fetch())
            # configurations: (program, frequency tag, documented filter components, report list)
            if pedigree:
                configs = [("call-pedigree", "PF", rnd_filter(), REPORT_ALL), ("call-pedigree", None, rnd_filter(), pick_report(r, r.random() < 0.5)),
                           ("call", "PF", None, pick_report(r, r.random() < 0.5)), ("call-exact", "PF", rnd_filter(), pick_report(r, True)),
                           ("call-pedigree", "PF", rnd_filter(), pick_report(r, True))]
            else:
                configs = [("call-exact", "PF", rnd_filter(), REPORT_ALL), ("call-exact", "PF", None, pick_report(r, True)),
                           ("call-exact", None, rnd_filter(), pick_report(r, True)), ("call-exact", "PF", rnd_filter(), pick_report(r, False)),
                           ("call", "PF", rnd_filter(), REPORT_ALL), ("call", None, ("PF", ">", "0"), pick_report(r, r.random() < 0.5))]
            for ci, (prog, tag, flt, report) in enumerate(configs):
                # the sampler of mchap call always runs once with the frequency tag and inbreeding > 0
                inb = r.choice(["0.25", "0.5", inb_file]) if (prog == "call" and tag == "PF") else (rnd_inbreeding() if ci > 0 else None)
                runs.run_config(d, ds, dsdir, f"cfg{ci}", header, recs, prog, tag, flt, report, "generated", ped=ped, inbreeding=inb)
            # ---- probes of the two known crash sites (one record each)
            if d == 0:
                l = next((x for x in ds.loci if x.snv_positions), None)
                if l is not None:
                    ref = ds.contigs[l.contig][l.start:l.stop]
                    alt1 = hap_string(ds, l, [1] + [0] * (len(l.snv_positions) - 1))
                    alt2 = hap_string(ds, l, [1] * len(l.snv_positions)) if len(l.snv_positions) > 1 else None
                    alts = [alt1] + ([alt2] if alt2 and alt2 != alt1 else [])
                    pf = ["0.5"] * len(alts) + ["0"]
                    line = f"{l.contig}\t{l.start + 1}\tprobe\t{ref}\t{','.join(alts)}\t.\tPASS\tPF={','.join(pf)};IR={','.join(['1'] * (len(alts) + 1))}"
                    gz = S.bgzip_tabix_vcf(S.write_text(os.path.join(dsdir, "probe.vcf"), hap_vcf_text(ds, [line])))
                    for prog, extra, sig, what in (
                        ("call", mcmc + ["--prior-frequencies", "PF", "--report", "AOP"], SIG_F4,
                         "mchap call --report AOP aborts when the highest-numbered allele has zero prior (per-allele arrays one short)"),
                        ("call-exact", ["--prior-frequencies", "PF", "--report", "AOP"], "C16/cli/call-exact-abort",
                         "mchap call-exact --report AOP aborts when the highest-numbered allele has zero prior"),
                        ("call-exact", ["--prior-frequencies", "IR"], SIG_INT,
                         "mchap call-exact --prior-frequencies <Integer INFO field> aborts (integer array cannot be normalised in place)"),
                    ):
                        out, code, err = S.run_program(ds.call_argv(prog, gz, *extra))
                        chk.count(f"cli:{prog}:probe-runs")
                        chk.case({"probe": what, "seed": C.seed()}, True)
                        if code != 0:
                            chk.violation(what, {"record": line, "argv_tail": extra, "error": err[:500]}, sig)
    # ---- the REAL output of `mchap assemble --report AFP` as the haplotype VCF: REFMASKED records, records without ALT
    #      (AC=., AFP=1), AFP of a masked reference = 0, ALTs with AC=0, AC Integer Number=A, AFP Float Number=R
    for k in range(n_asm_sets):
        d = f"asm{k}"
        dsdir = os.path.join(work, d)
        ds = S.make_dataset(r, dsdir, n_samples=3, n_loci={"warm": 3}.get(tier, 6), ploidies=(2, 4), max_snvs=3, depth=(6, 14),
                            features=frozenset({"nodepth"}))
        ped = pedigree_files(r, ds, dsdir, S)
        chk.count(f"cli:pedigree shape={ped['shape']} ploidies={ped['ploidies']}")
        chk.count("cli:dataset with a zero-read (sample, locus)", len(ds.nodepth))
        inb_file = S.write_text(os.path.join(dsdir, "inbreeding.txt"),
                                "".join(f"{s}\t{r.choice(['0.0', '0.1', '0.25', '0.5'])}\n" for s in reversed(ds.samples)))
        argv = ds.assemble_argv("--mcmc-steps", "200", "--mcmc-burn", "100", "--report", "AFP")
        chk.breadcrumb("mchap assemble", {"dataset": d, "argv": argv[-6:]})
        out, code, err = S.run_program(argv)
        if code != 0:
            raise RuntimeError(f"mchap assemble cannot be run on the synthetic dataset (dataset {d}, seed {C.seed()}): {err[:400]}")
        asm_gz = S.bgzip_tabix_vcf(S.write_text(os.path.join(dsdir, "assemble.vcf"), out))
        with pysam.VariantFile(asm_gz) as f:
            a_header = str(f.header)
            a_recs = list(f.fetch())
            for rec in a_recs:
                chk.count("cli:assemble-record " + ("REFMASKED " if "REFMASKED" in rec.info else "") + ("without ALT" if not rec.alts else "with ALT"))
            a_cfgs = [(p, t, fl) for p in ("call-exact", "call", "call-pedigree")
                      for t, fl in (("AFP", ("AFP", ">", "0.05")), ("AFP", ("AC", ">", "0")), (None, ("AC", ">=", "2")),
                                    ("AFP", None), ("AFP", ("AFP", ">=", "0.25")), (None, ("AFP", "<", "0.3")))]
            # every program with 'AFP>0.05' and with 'AC>0', then a sample of the rest
            head = [c for c in a_cfgs if c[2] in (("AFP", ">", "0.05"), ("AC", ">", "0"))]
            rest = [c for c in a_cfgs if c not in head]
            r.shuffle(rest)
            for ci, (prog, tag, flt) in enumerate((head + rest)[:n_asm]):
                low = prog == "call-exact" and ci % 2 == 1
                report = pick_report(r, low) if (ci >= 6 or low) else REPORT_ALL
                u = r.random()
                runs.run_config(d, ds, dsdir, f"cfg{ci}", a_header, a_recs, prog, tag, flt, report, "assemble-output", ped=ped,
                                inbreeding=None if u < 0.4 else (r.choice(["0.1", "0.25", "0.9"]) if u < 0.7 else inb_file))
    pend = runs.pend
    ans = drv.ask([p[0] for p in pend])
    for (req, key, o_rec), a in zip(pend, ans):
        parts = a.split(" ")
        if parts[0].startswith("err"):
            chk.disagreement("CLI accepted a record the model rejects", {**key, "model": a})
            continue
        m_keep = [x == "1" for x in parts[0].split(",")]
        m_mask = parts[1] == "1"
        m_fr = None if parts[3] == "nan" else [float(C.parse_rat(x)) for x in parts[3].split(",")]
        m_labels = [] if parts[4] == "~" else [int(x) for x in parts[4].split(",")]
        m_scen = parts[6] if key["program"] == "call-exact" else parts[5]
        bad = []
        if m_keep.count(True) - 1 != len(o_rec["ALT"]):
            bad.append("ALT count")
        if m_mask != (o_rec["INFO"].get("REFMASKED") is True):
            bad.append("REFMASKED")
        filt = o_rec["FILTER"]
        if {"valid": "PASS", "NOA": "NOA", "AF0": "AF0"}[m_scen] != filt:
            bad.append("FILTER")
        if "AFPRIOR" in o_rec["INFO"]:
            pri = floats_of(o_rec["INFO"]["AFPRIOR"])
            if m_fr is None:
                if not all(math.isnan(x) for x in pri):
                    bad.append("AFPRIOR nan")
            elif len(pri) != len(m_fr) or any(not (abs(x - y) <= 6e-4) for x, y in zip(pri, m_fr)):
                bad.append("AFPRIOR")
        if m_scen == "valid":
            m_n = int(parts[8])
            for smp in o_rec["samples"]:
                for x in smp["GT"].split("/"):
                    if x == "." or int(x) not in m_labels:
                        bad.append("GT outside callLabels")
                for fld in ("AFP", "ACP", "AOP"):
                    if fld in smp and len(smp[fld].split(",")) != m_n:
                        bad.append(f"FORMAT/{fld} length")
        if bad:
            chk.disagreement("CLI output != model (" + ", ".join(sorted(set(bad))) + ")", {**key, "model": a, "out": o_rec["line"][:500]})


def lines_of(rec) -> str:
    """the VCF text line of a pysam record of the generated haplotype VCF (8 columns)"""
    return str(rec).rstrip("\n")


def check_out_record(chk, key0, prog, rec, orc, o, part, ds):
    """property oracles on one printed record"""
    key = {**key0, "record": rec.id, "input": lines_of(rec)[:400]}
    alts_in = list(rec.alts) if rec.alts else []
    exp_alts = [a for a, k in zip(alts_in, orc["keep"][1:]) if k]
    scen, usable = scenario_of(orc)
    n = len(orc["raw"])
    removed = len(alts_in) - len(exp_alts)
    chk.count(f"cli:scenario={scen}")
    if removed:
        chk.count("cli:alts-removed")
    if orc["mask"]:
        chk.count("cli:ref-masked")
    nontriv = len(alts_in) >= 2 and scen == "valid" and len(usable) < 1 + len(alts_in)
    chk.case({"seed": C.seed(), **key0, "record": rec.id}, nontriv,
             sample={"request": str(key0), "impl": o["line"][:300], "model": "see lp request"})
    if o["REF"] != rec.ref or o["POS"] != rec.pos or o["CHROM"] != rec.chrom:
        chk.violation(f"{prog} changed CHROM/POS/REF", {**key, "out": o["line"][:300]}, f"C16/cli/{prog}-columns")
    if o["ALT"] != exp_alts:
        chk.violation(f"{prog}: ALT is not the input ALT minus exactly the alleles failing the filter",
                      {**key, "out_ALT": o["ALT"], "expected": exp_alts}, "C16/cli/alt")
    if (o["INFO"].get("REFMASKED") is True) != orc["mask"]:
        chk.violation(f"{prog}: REFMASKED differs from (input flag or failing reference)",
                      {**key, "out": o["INFO"].get("REFMASKED"), "expected": orc["mask"]}, "C16/cli/refmasked")
    if "AFPRIOR" in o["INFO"]:
        chk.count("cli:AFPRIOR-compared")
        pri = floats_of(o["INFO"]["AFPRIOR"])
        if orc["freqs"] is None:
            okp = all(math.isnan(x) for x in pri)
        else:
            okp = len(pri) == n and not any(not (abs(x - float(y)) <= 6e-4) for x, y in zip(pri, orc["freqs"]))
    else:
        okp = True
    if not okp:
        chk.violation(f"{prog}: AFPRIOR is not the named INFO values normalised over the retained alleles",
                      {**key, "out": o["INFO"].get("AFPRIOR"), "expected": None if orc["freqs"] is None else [str(x) for x in orc["freqs"]]},
                      "C16/cli/afprior")
    exp_filter = {"valid": "PASS", "NOA": "NOA", "AF0": "AF0"}[scen]
    if o["FILTER"] != exp_filter:
        chk.violation(f"{prog}: FILTER is {o['FILTER']}, expected {exp_filter}", {**key, "out": o["line"][:300]}, "C16/cli/filter")
    f4 = part == "f4"
    for name, smp in zip(o["sample_names"], o["samples"]):
        gt = smp["GT"].split("/")
        ploidy = len(gt)
        if scen != "valid":
            if any(x != "." for x in gt):
                chk.violation(f"{prog}: a record without usable allele has a called genotype", {**key, "sample": name, "GT": smp["GT"]},
                              "C16/cli/invalid-called")
            continue
        if any(x == "." or int(x) not in usable for x in gt):
            chk.violation(f"{prog}: GT contains a masked / zero-prior / missing allele", {**key, "sample": name, "GT": smp["GT"], "usable": usable},
                          "C16/cli/gt-masked-allele")
        for fld in ("AFP", "ACP", "AOP"):
            if fld in smp:
                v = floats_of(smp[fld])
                if len(v) != n:
                    chk.violation(f"{prog}: FORMAT/{fld} has {len(v)} values for {n} alleles", {**key, "sample": name, fld: smp[fld]},
                                  SIG_F4 if f4 else "C16/cli/array-length")
                if any(x != 0 for i, x in enumerate(v) if i not in usable):
                    chk.violation(f"{prog}: FORMAT/{fld} gives a masked / zero-prior allele a non-zero posterior",
                                  {**key, "sample": name, fld: smp[fld], "usable": usable}, "C16/cli/masked-posterior")
        if "GP" in smp:
            v = floats_of(smp["GP"])
            gs = vcf_order_genotypes(n, ploidy)
            if len(v) != len(gs):
                chk.violation(f"{prog}: FORMAT/GP has {len(v)} values for {len(gs)} genotypes", {**key, "sample": name},
                              "C16/cli/gp-length")
            elif any(x != 0 for x, g in zip(v, gs) if any(a not in usable for a in g)):
                chk.violation(f"{prog}: FORMAT/GP gives a genotype with a masked / zero-prior allele a non-zero posterior",
                              {**key, "sample": name, "GP": smp["GP"][:200], "usable": usable}, "C16/cli/masked-posterior")
    if scen == "valid":
        for fld in ("AFP", "ACP", "AOPSUM", "AOP"):
            if fld in o["INFO"]:
                v = floats_of(o["INFO"][fld])
                if len(v) != n:
                    chk.violation(f"{prog}: INFO/{fld} has {len(v)} values for {n} alleles", {**key, fld: o["INFO"][fld]},
                                  SIG_F4 if f4 else "C16/cli/array-length")
                if any(x != 0 for i, x in enumerate(v) if i not in usable):
                    chk.violation(f"{prog}: INFO/{fld} gives a masked / zero-prior allele a non-zero posterior",
                                  {**key, fld: o["INFO"][fld], "usable": usable}, "C16/cli/masked-posterior")
