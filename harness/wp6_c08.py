"""Helpers of the C08 harness (work package 6): real-process runs with fault wrappers, going on in the background.

`Jobs` starts `mchap` command lines in fresh interpreters (each in its own session, so that a time-out can kill the whole
process group: a hung multi-core run leaves a manager and pool workers behind otherwise) and hands the results back in
submission order.  No threads are used (the in-process part of the check forks worker pools; forking a multi-threaded
interpreter is fragile): processes are polled whenever `pump()` is called, and `results()` polls until all have ended or
timed out.  Modes of a run:

    "capture"      stdout captured in a temporary file (what `synth.run_program_subprocess` does);
    "devfull"      stdout is /dev/full: the first flush fails with ENOSPC;
    "closed-pipe"  stdout is a pipe into `head -n <keep_lines>`: the reader goes away after that many lines and every later
                   write fails with EPIPE (what `mchap ... | head` does);

A run submitted with `quiet=<seconds>` also counts as hung (exit code 124) once it has begun to write, has then written nothing
for that long and is still running - a 7-locus run writes all its records within a second or two of the header.

`kill_locus` wraps `program.call_locus` (harness side, nothing in /repo is touched) so that the WORKER process reaching
the named locus is killed with SIGKILL (what the kernel's OOM killer does to the largest process).
"""
from __future__ import annotations

import os
import signal
import subprocess
import sys
import tempfile
import time

from . import common as C

# executed with `python -c`; argv[1:] is the mchap command line
_PLAIN = "import sys; sys.argv = sys.argv[1:]; from mchap.application.cli import main; main()"
_KILL = (
    "import os, sys, signal\n"
    "import multiprocessing as mp\n"
    "import mchap.application.baseclass as B\n"
    "_target = os.environ['VERIF_KILL_LOCUS']\n"
    "_orig = B.program.call_locus\n"
    "def call_locus(self, locus, sample_bams):\n"
    "    if str(locus.name) == _target and mp.current_process().name != 'MainProcess':\n"
    "        os.kill(os.getpid(), signal.SIGKILL)\n"
    "    return _orig(self, locus, sample_bams)\n"
    "B.program.call_locus = call_locus\n"
    "sys.argv = sys.argv[1:]\n"
    "from mchap.application.cli import main\n"
    "main()\n"
)


def _killpg(p):
    try:
        os.killpg(p.pid, signal.SIGKILL)
    except (ProcessLookupError, PermissionError, OSError):
        pass


class _Run:
    def __init__(self, idx, spec):
        self.idx, self.spec = idx, spec
        argv = [str(a) for a in spec["argv"]]
        extra = dict(spec.get("env") or {})
        code = _PLAIN
        if spec.get("kill_locus") is not None:
            code = _KILL
            extra["VERIF_KILL_LOCUS"] = str(spec["kill_locus"])
        cmd = [sys.executable, "-c", code, *argv]
        env = C.subprocess_env(extra)
        self.ferr = tempfile.TemporaryFile("w+", prefix="c08-err-")
        self.fout = None
        self.reader = None
        mode = spec.get("mode", "capture")
        self.t0 = time.time()
        self.deadline = self.t0 + spec["timeout"]
        self.size, self.last_change = 0, self.t0
        self.why = ""
        if mode == "devfull":
            sink = open("/dev/full", "w")
            self.p = subprocess.Popen(cmd, env=env, stdout=sink, stderr=self.ferr, start_new_session=True)
            sink.close()
        elif mode == "closed-pipe":
            self.fout = tempfile.TemporaryFile("w+", prefix="c08-out-")
            self.p = subprocess.Popen(cmd, env=env, stdout=subprocess.PIPE, stderr=self.ferr, start_new_session=True)
            self.reader = subprocess.Popen(["head", "-n", str(int(spec["keep_lines"]))], stdin=self.p.stdout, stdout=self.fout,
                                           stderr=subprocess.DEVNULL)
            self.p.stdout.close()             # only `head` holds the read end now
        elif mode == "pipe":
            # stdout is a pipe (as in `mchap ... | bgzip`): writes longer than PIPE_BUF are not atomic and a writer blocks in the
            # middle of a long line while the 64 kB buffer is full
            self.fout = tempfile.TemporaryFile("w+", prefix="c08-out-")
            self.p = subprocess.Popen(cmd, env=env, stdout=subprocess.PIPE, stderr=self.ferr, start_new_session=True)
            # a consumer that starts reading late: by then every process that writes to the pipe is blocked in the middle of a line
            self.reader = subprocess.Popen(["sh", "-c", "sleep 4; exec cat"], stdin=self.p.stdout, stdout=self.fout,
                                           stderr=subprocess.DEVNULL)
            self.p.stdout.close()
        else:
            self.fout = tempfile.TemporaryFile("w+", prefix="c08-out-")
            self.p = subprocess.Popen(cmd, env=env, stdout=self.fout, stderr=self.ferr, start_new_session=True)

    def poll(self):
        """None while running, else (stdout, exit code, stderr, seconds)"""
        rc = self.p.poll()
        if rc is None:
            now = time.time()
            quiet = self.spec.get("quiet")
            stalled = False
            if quiet and self.fout is not None:
                # a run that has started to write (the header is out) and then writes nothing for `quiet` seconds while its
                # main process is still there does not make progress any more
                size = os.fstat(self.fout.fileno()).st_size
                if size != self.size:
                    self.size, self.last_change = size, now
                stalled = size > 0 and now - self.last_change > quiet
            if now < self.deadline and not stalled:
                return None
            self.why = (f"no output for {quiet} s after {self.size} bytes while the main process is still running"
                        if stalled else f"no exit within {self.spec['timeout']} s")
            rc = 124
        if rc != 0:
            _killpg(self.p)                   # also removes orphaned pool / manager processes of a failed run
            try:
                self.p.wait(timeout=10)
            except subprocess.TimeoutExpired:
                pass
        if self.reader is not None:
            try:
                self.reader.wait(timeout=10)
            except subprocess.TimeoutExpired:
                self.reader.kill()
        out = ""
        if self.fout is not None:
            self.fout.seek(0)
            out = self.fout.read()
            self.fout.close()
        self.ferr.seek(0)
        err = self.ferr.read()
        self.ferr.close()
        if rc == 124:
            err = self.why + "\n" + err
        return out, rc, err, time.time() - self.t0


class Jobs:
    """background real-process runs; at most `workers` at a time; results in submission order"""

    def __init__(self, workers=10):
        self.max = workers
        self.pending, self.running, self.done = [], [], {}
        self.n = 0

    def submit(self, label, argv, exp, timeout=240, env=None, mode="capture", kill_locus=None, keep_lines=0, quiet=None):
        self.pending.append((self.n, {"label": label, "argv": list(argv), "exp": exp, "timeout": timeout, "env": env, "mode": mode,
                                      "kill_locus": kill_locus, "keep_lines": keep_lines, "quiet": quiet}))
        self.n += 1
        self.pump()

    def pump(self):
        """collect what has ended, start what fits (cheap; called from wherever the harness passes by)"""
        for j in list(self.running):
            res = j.poll()
            if res is not None:
                self.running.remove(j)
                out, rc, err, dt = res
                self.done[j.idx] = (j.spec["label"], j.spec["argv"], j.spec["exp"], out, rc, err, dt)
        while self.pending and len(self.running) < self.max:
            idx, spec = self.pending.pop(0)
            self.running.append(_Run(idx, spec))

    def results(self) -> list:
        # bounded: every run has a deadline after which it is killed and counted as ended
        limit = time.time() + 60 + sum(s["timeout"] for _, s in self.pending) + sum(j.spec["timeout"] for j in self.running)
        while (self.pending or self.running) and time.time() < limit:
            self.pump()
            if self.pending or self.running:
                time.sleep(0.05)
        if self.pending or self.running:
            self.abort()
            raise C.Infra("background runs did not end")
        return [self.done[i] for i in range(self.n)]

    def abort(self):
        for j in self.running:
            _killpg(j.p)
        self.pending, self.running = [], []
