"""WP3 additions to C19 (find-snvs): input shapes the original generators never produced.

* `maxdepth_stream`  — pileups around pysam's default ``max_depth=8000`` (bam_region_depths, oracle only).
* `cli_stream`       — `mchap find-snvs` end to end with the PROPERTY evaluated on the known ReadSpecs: several read groups per
  BAM, ``--read-group-field ID``, ``--bam`` list files (paths / ``sample<TAB>path``), numeric contig names, BED with 3 columns /
  gzip / '#' lines, regions touching the contig ends, reads without qualities, records with several exclusion flags, pairwise
  distinct threshold values with ``--min-ind`` in 1..n_samples, fixed differences and REF-fails-one-ALT-passes sites.

The reads of the CLI stream avoid the four engine defaults registered as K1–K4 (no secondary records, no base quality < 13,
no paired reads), so the configured-filter pileup *is* what the engine must return.
"""
from __future__ import annotations

from collections import Counter
import gzip
import os
import shutil
from fractions import Fraction

import numpy as np

from . import common as C
from . import synth as S
from .c06 import DUP, QCFAIL, SUPP, _name, rand_cigar, tok_reads

BASES = "ACGT"


# --------------------------------------------------------------------------------------
# depth near max_depth
# --------------------------------------------------------------------------------------

def maxdepth_stream(chk, r, work, tier, FS, report_deviation):
    from .c19 import spec_depths

    sizes = {"warm": [8003], "quick": [r.randint(7950, 8000), 8000 + r.choice([1, 2, r.randint(3, 250)])],
             "thorough": [r.randint(7800, 8000) for _ in range(3)] + [8000, 8001, 8002] + [r.randint(8003, 9500) for _ in range(4)]}[tier]
    d = os.path.join(work, "maxdepth")
    os.makedirs(d, exist_ok=True)
    for n_pass in sizes:
        L = r.randint(50, 70)
        contigs = {"c1": "".join(r.choice(BASES) for _ in range(L))}
        fasta = S.write_fasta(os.path.join(d, "ref.fa"), contigs)
        core = r.randint(18, L - 18)                      # every passing read covers this position
        alt = r.choice([b for b in BASES if b != contigs["c1"][core]])
        n_dup = r.randint(100, 400)                       # excluded records do not count towards any cap
        specs = []
        for i in range(n_pass + n_dup):
            ln = r.randint(6, 14)
            pos = max(0, min(L - ln, core - r.randint(0, ln - 1)))
            seq = list(contigs["c1"][pos:pos + ln])
            if r.random() < 0.3:
                seq[core - pos] = alt
            specs.append(S.ReadSpec(f"r{i}", "c1", pos, f"{ln}M", "".join(seq), [r.randint(20, 40)] * ln,
                                    DUP if i >= n_pass else 0, 60, "rg"))
        r.shuffle(specs)
        specs = S.sort_reads(contigs, specs)
        bam = S.write_bam(os.path.join(d, "deep.bam"), contigs, specs, [{"ID": "rg", "SM": "s0"}])
        start, stop = core - r.randint(0, 3), core + r.randint(1, 4)
        for sd in (True, False):
            got = FS.bam_region_depths([bam], fasta, "c1", start, stop, dtype=np.int64, min_quality=20, skip_duplicates=sd,
                                       skip_qcfail=True, skip_supplementary=True)[:, 0, :]
            want = spec_depths(specs, "c1", start, stop, 20, sd, True, True)
            depth = int(want.sum(axis=1).max())
            chk.count("depths:maxdepth(%s)" % ("<=8000" if depth <= 8000 else ">8000"))
            case = {"stream": "maxdepth", "region": ["c1", start, stop], "passing_reads_over_core": depth,
                    "excluded_duplicates": 0 if not sd else n_dup, "skip_duplicates": sd,
                    "reads": f"{n_pass} records of 6..14 M covering c1:{core} + {n_dup} duplicates (flag 0x400), MAPQ 60",
                    "impl_depth_sums": got.sum(axis=1).tolist(), "expected_depth_sums": want.sum(axis=1).tolist()}
            chk.case(["maxdepth", n_pass, n_dup, sd, start, stop, C.seed()], True)
            if np.array_equal(got, want):
                continue
            # htslib stops adding reads once more than max_depth are held: the deepest column has 8000 or 8001 reads
            capped = bool((got <= want).all()) and int(got.sum(axis=1).max()) in (8000, 8001) and depth > 8000
            if capped:
                report_deviation("C19/bam_region_depths/max-depth-8000",
                                 "depths are capped at 8000 reads per position (pysam pileup default max_depth is not overridden): "
                                 "they are not the number of base calls among the reads passing the configured filters", case)
            else:
                report_deviation("C19/bam_region_depths/unexplained",
                                 "depths differ from the configured-filter pileup in a way none of the known causes explains", case)
    shutil.rmtree(d, ignore_errors=True)


# --------------------------------------------------------------------------------------
# CLI, end to end
# --------------------------------------------------------------------------------------

def cli_case(r, contig_names, n_bam):
    """contigs, polymorphic sites, per-BAM ReadSpecs (unpaired, primary, base quality >= 13 or absent)"""
    contigs = {c: "".join(r.choice(BASES) for _ in range(r.randint(90, 140))) for c in contig_names}
    sites = {}        # (contig, pos) -> per-sample list of (allele, probability)
    for c, seq in contigs.items():
        for p in r.sample(range(len(seq)), 14) + [0, 1, len(seq) - 1, len(seq) - 2]:
            ref = seq[p]
            others = [b for b in BASES if b != ref]
            r.shuffle(others)
            kind = r.choice(["snv", "snv", "fixed", "few-ref", "tri", "rare", "one-sample"])
            per = []
            for j in range(n_bam):
                if kind == "fixed":
                    per.append([(others[0], 1.0)])
                elif kind == "few-ref":
                    per.append([(others[0], 0.93), (ref, 0.07)])
                elif kind == "tri":
                    f1, f2 = r.choice([(0.3, 0.3), (0.5, 0.2), (0.2, 0.1), (0.45, 0.45)])
                    per.append([(others[0], f1), (others[1], f2), (ref, 1 - f1 - f2)])
                elif kind == "rare":
                    per.append([(others[0], 0.06), (ref, 0.94)])
                elif kind == "one-sample":
                    per.append([(others[0], 0.5), (ref, 0.5)] if j == 0 else [(ref, 1.0)])
                else:
                    f = r.choice([0.0, 0.1, 0.25, 0.5, 0.75, 1.0])
                    per.append([(others[0], f), (ref, 1 - f)])
            sites[(c, p)] = per
    bams = []
    for j in range(n_bam):
        specs = []
        for c, seq in contigs.items():
            L = len(seq)
            for i in range(r.randint(70, 130)):
                ops = rand_cigar(r, r.randint(6, 40))
                ops = [(n, op) for n, op in ops]
                ref_len = sum(n for n, op in ops if op in "MDN=X")
                if ref_len > L:
                    continue
                u = r.random()
                pos = 0 if u < 0.12 else (L - ref_len if u < 0.24 else r.randint(0, L - ref_len))
                out_seq, quals = [], []
                rr = pos
                for n, op in ops:
                    if op in "M=X":
                        for x in range(n):
                            b = seq[rr + x]
                            per = sites.get((c, rr + x))
                            if per is not None:
                                v, acc = r.random(), 0.0
                                for al, pr in per[j]:
                                    acc += pr
                                    if v < acc:
                                        b = al
                                        break
                            elif r.random() < 0.01:
                                b = r.choice("ACGTN")
                            out_seq.append(b)
                            quals.append(r.randint(13, 41))
                        rr += n
                    elif op in "DN":
                        rr += n
                    elif op in "IS":
                        for _ in range(n):
                            out_seq.append(r.choice(BASES))
                            quals.append(r.randint(13, 41))
                if len(out_seq) < 2:
                    continue
                flag = 0x10 if r.random() < 0.5 else 0
                u = r.random()
                if u < 0.25:
                    for b_ in r.choice([(DUP,), (QCFAIL,), (SUPP,), (DUP, QCFAIL), (QCFAIL, SUPP), (DUP, SUPP), (DUP, QCFAIL, SUPP)]):
                        flag |= b_
                mapq = r.choice([0, 1, 19, 20, 21, 29, 30, 31]) if r.random() < 0.25 else 60
                spec = S.ReadSpec(f"b{j}.{c}.{i}", c, pos, "".join(f"{n}{op}" for n, op in ops), "".join(out_seq),
                                  None if r.random() < 0.15 else quals, flag, mapq, None)
                specs.append(spec)
        bams.append(specs)
    return contigs, sites, bams


def pick_regions(r, contigs, nested=False):
    """disjoint intervals per contig in genome order; the first / last base of a contig is included in most cases"""
    out = []
    for c, seq in contigs.items():
        L = len(seq)
        cuts = sorted(r.sample(range(1, L), r.choice([3, 4, 5])))
        bounds = [0] + cuts + [L]
        ivs = [(bounds[i], bounds[i + 1]) for i in range(len(bounds) - 1)]
        keep = [iv for i, iv in enumerate(ivs) if i in (0, len(ivs) - 1) and r.random() < 0.8 or r.random() < 0.5]
        if not keep:
            keep = [ivs[0]]
        # shrink the inner ends a little so neighbouring targets do not touch
        for a, b in keep:
            a2 = a if a == 0 else min(b - 1, a + r.randint(0, 2))
            b2 = b if b == L else max(a2 + 1, b - r.randint(0, 2))
            out.append((c, a2, b2))
            # now and then a target is followed by one nested in it (a gene and one of its exons) or by one that overlaps its
            # end: every position of every target is still a target position
            if nested and b2 - a2 >= 6 and r.random() < 0.5:
                x = r.randint(a2, b2 - 3)
                out.append((c, x, r.randint(x + 1, b2 - 2)))
            elif nested and b2 - a2 >= 4 and b2 + 2 <= L and r.random() < 0.3:
                out.append((c, r.randint(a2 + 1, b2 - 1), min(L, b2 + r.randint(1, 5))))
    return out


def dyadic(fr):
    d = fr.denominator
    return d & (d - 1) == 0


def check_site(chk, case, rec, ref_char, ds, th, n_samples):
    """the property at one position: `rec` is the parsed record or None, `ds` the per-sample depth vectors"""
    from .c19 import site_property

    pr = site_property(ref_char, ds, th)
    if pr is None:
        if rec is not None:
            chk.violation("a position whose reference base is not A/C/G/T was emitted", case, "C19/find-snvs/non-acgt-reference")
        return
    # a mean of >= 2 float frequencies exactly at --maf is decided by rounding unless every term is dyadic (Appendix A)
    if th[0] > 0 and n_samples >= 2:
        for a in range(4):
            fs = [f[a] for f in pr["freq"] if f[a] is not None]
            if len(fs) >= 2 and sum(fs) / len(fs) == th[0] and not (dyadic(th[0]) and all(dyadic(f) for f in fs)):
                chk.count("cli2:maf-tie-skipped")
                return
    if not pr["meets"][pr["ref"]] and sum(pr["meets"]) == 1:
        chk.count("cli2:site:REF-fails-and-exactly-one-ALT-passes" +
                  ("(fixed difference)" if all(d[pr["ref"]] == 0 for d in ds) else ""))
    if pr["emit"]:
        chk.count("cli2:site:emitted" + ("(REFMASKED)" if not pr["meets"][pr["ref"]] else ""))
    if (rec is not None) != pr["emit"]:
        chk.violation("a position is emitted iff at least two alleles meet the thresholds — violated",
                      {**case, "meets": pr["meets"]}, "C19/find-snvs/emitted-iff-two")
        return
    if rec is None:
        return
    n_cols = 1 + len(rec["alts"])
    if len(rec["pop"]) != n_cols or len(rec["admf"]) != n_cols or len(rec["ad"]) != n_samples or \
            any(len(x) != n_cols for x in rec["ad"]) or any(len(a) != 1 or a not in BASES for a in [rec["ref"]] + rec["alts"]):
        chk.violation("malformed record: allele / AD / ADMF columns do not line up", case, "C19/find-snvs/malformed-record")
        return
    listed = {BASES.find(a) for a in [rec["ref"]] + rec["alts"]}
    want = {a for a in range(4) if pr["meets"][a]} | {pr["ref"]}
    if listed != want or len(listed) != n_cols:
        chk.violation("the listed alleles are not exactly those meeting the thresholds (plus REF)",
                      {**case, "expected": sorted(want), "meets": pr["meets"]}, "C19/find-snvs/listed-iff-thresholds")
        return
    if BASES.find(rec["ref"]) != pr["ref"] or rec["masked"] != (not pr["meets"][pr["ref"]]):
        chk.violation("REF is not the reference base / REFMASKED does not flag a reference that failed the thresholds",
                      case, "C19/find-snvs/ref-first-masked-iff")
        return
    means = [pr["mean"][BASES.find(a)] for a in rec["alts"]]
    if any(x is None or y is None or x < y for x, y in zip(means, means[1:])):
        chk.violation("ALT alleles are not in order of decreasing mean sample frequency",
                      {**case, "means": [str(m) for m in means]}, "C19/find-snvs/alt-order")
        return
    cols = [BASES.find(a) for a in [rec["ref"]] + rec["alts"]]
    if rec["ad"] != [[d[a] for a in cols] for d in ds] or rec["pop"] != [sum(d[a] for d in ds) for a in cols]:
        chk.violation("AD is not the number of base calls of each listed nucleotide among the reads passing the configured filters",
                      {**case, "expected_AD": [[d[a] for a in cols] for d in ds]}, "C19/find-snvs/ad")


def cli_stream(chk, ctx, r, work, tier):
    from .c19 import compare_site, parse_impl_record, parse_model_site, spec_depths, thresh_tokens

    n = {"warm": 1, "quick": 8, "thorough": 60}[tier]
    for i in range(n):
        d = os.path.join(work, f"cli2_{i}")
        os.makedirs(d, exist_ok=True)
        # ---- what varies
        style = ["alpha", "mixed", "alpha", "mixed", "alpha", "numeric", "mixed", "alpha"][i % 8]
        contig_names = {"alpha": ["c1", "c2"], "numeric": ["1", "2"], "mixed": ["1", "chrX"]}[style]
        if r.random() < 0.3 and style != "mixed":
            contig_names = contig_names[:1]
        n_bam = r.choice([1, 2, 2, 3, 4])
        bed_cols = r.choice([3, 3, 4])
        bed_gz = r.random() < 0.4
        bed_comment = (i % 8 == 2)
        field = "ID" if i % 3 == 1 else "SM"
        bam_form = ["paths", "list", "pairs"][i % 3] if i % 2 == 0 else r.choice(["paths", "list", "pairs"])
        contigs, sites, bams = cli_case(r, contig_names, n_bam)
        fasta = S.write_fasta(os.path.join(d, "ref.fa"), contigs)
        # ---- BAM files: several read groups per file (same SM) unless the sample is read from the ID field
        sm = ["sA", "sA1", "sB", "s"][:n_bam]            # names that are substrings of each other
        r.shuffle(sm)
        paths, names = [], []
        for j, specs in enumerate(bams):
            n_rg = 1 if field == "ID" else r.choice([1, 2, 3])
            rgs = [{"ID": f"{sm[j]}.lib{k}" if field == "SM" else f"id{j}x", "SM": sm[j]} for k in range(n_rg)]
            for s in specs:
                s.rg = r.choice(rgs)["ID"]
            specs[:] = S.sort_reads(contigs, specs)
            paths.append(S.write_bam(os.path.join(d, f"bam{j}.bam"), contigs, specs, rgs))
            names.append(rgs[0][field])
        order = list(range(n_bam))
        r.shuffle(order)                                 # the order on the command line / in the list file defines the columns
        if bam_form == "paths":
            bam_args = [paths[j] for j in order]
        elif bam_form == "list":
            bam_args = [S.write_text(os.path.join(d, "bams.txt"), "".join(paths[j] + "\n" for j in order))]
        else:
            bam_args = [S.write_text(os.path.join(d, "bams.tsv"), "".join(f"{names[j]}\t{paths[j]}\n" for j in order))]
        # ---- targets
        regions = pick_regions(r, contigs, nested=r.random() < 0.4)
        cover = Counter((c, p) for c, a, b in regions for p in range(a, b))
        overlapping = any(v > 1 for v in cover.values())
        chk.count("cli2:targets-nested-or-overlapping" if overlapping else "cli2:targets-disjoint")
        text = "".join(f"{c}\t{a}\t{b}" + (f"\tt{k}" if bed_cols == 4 else "") + "\n" for k, (c, a, b) in enumerate(regions))
        if bed_comment:
            text = r.choice(["#chrom\tstart\tend" + ("\tname" if bed_cols == 4 else "") + "\n", "# targets of run 7\n"]) + text
        bed = os.path.join(d, "targets.bed" + (".gz" if bed_gz else ""))
        if bed_gz:
            with gzip.open(bed, "wt") as f:
                f.write(text)
        else:
            S.write_text(bed, text)
        # ---- options: pairwise distinct values, so that two swapped options cannot cancel
        min_ind = r.randint(1, n_bam)
        ind_mad = r.choice([x for x in (2, 3, 4, 6) if x != min_ind])
        mad = r.choice([x for x in (0, 0, 5, 7, 9, 12) if x not in (min_ind, ind_mad)])
        ind_maf = r.choice(["0.05", "0.1", "0.2", "0.3"])
        maf = r.choice([x for x in ("0.0", "0.0", "0.03", "0.07", "0.15", "0.25") if x != ind_maf])
        th_str = (maf, str(mad), ind_maf, str(ind_mad), str(min_ind))
        th = (Fraction(maf), mad, Fraction(ind_maf), ind_mad, min_ind)
        cfg = (r.choice([0, 1, 20, 21, 30]), r.random() < 0.5, r.random() < 0.5, r.random() < 0.5)
        if r.random() < 0.4:
            keep = r.randrange(3)
            cfg = (cfg[0], keep != 0, keep != 1, keep != 2)
        opts = [["--targets", bed], ["--reference", fasta], ["--bam", *bam_args], ["--maf", th_str[0]], ["--mad", th_str[1]],
                ["--ind-maf", th_str[2]], ["--ind-mad", th_str[3]], ["--min-ind", th_str[4]], ["--mapping-quality", str(cfg[0])]]
        if field == "ID":
            opts.append(["--read-group-field", "ID"])
        if not cfg[1]:
            opts.append(["--keep-duplicate-reads"])
        if not cfg[2]:
            opts.append(["--keep-qcfail-reads"])
        if not cfg[3]:
            opts.append(["--keep-supplementary-reads"])
        r.shuffle(opts)                                  # the order of the options on the command line is arbitrary
        argv = ["mchap", "find-snvs"] + [t for o in opts for t in o]
        for key in (f"contigs={style}", f"bed-columns={bed_cols}", f"bed-gzip={bed_gz}", f"bed-comment-line={bed_comment}",
                    f"read-group-field={field}", f"--bam={bam_form}", f"n_samples={n_bam}", f"min-ind={min_ind}"):
            chk.count("cli2:" + key)
        shape = {"contigs": style, "bed": {"columns": bed_cols, "gzip": bed_gz, "comment_line": bed_comment, "text": text[:300]},
                 "bam_form": bam_form, "field": field, "samples": [names[j] for j in order], "argv": argv[2:]}
        out, code, err = S.run_program(argv)
        chk.count("cli2:find-snvs-runs")
        numeric_bed = all(c.isdigit() for c, _, _ in regions)
        if code != 0:
            if bed_comment:
                chk.violation("mchap find-snvs aborts on a targets BED that starts with a '#' comment line "
                              "(pandas.read_table without comment='#'; assemble's read_bed4 skips such lines)",
                              {**shape, "error": err[:400]}, "C19/find-snvs/bed-comment-line")
            elif numeric_bed:
                chk.violation("mchap find-snvs aborts when every contig name in the targets BED is numeric "
                              "(pandas parses the column as int; FastaFile.fetch needs a string)",
                              {**shape, "error": err[:400]}, "C19/find-snvs/numeric-contig-name")
            else:
                chk.violation("mchap find-snvs aborted on a consistent input", {**shape, "error": err[:600]},
                              "C19/find-snvs/abort")
            shutil.rmtree(d, ignore_errors=True)
            continue
        header, recs = S.parse_vcf_text(out)
        cols = S.vcf_sample_names(header)
        if sorted(cols) != sorted(names[j] for j in order):
            chk.violation("the sample columns are not the samples of the BAM files given",
                          {**shape, "columns": cols}, "C19/find-snvs/sample-columns")
            shutil.rmtree(d, ignore_errors=True)
            continue
        if cols != [names[j] for j in order]:
            chk.count("cli2:sample-columns-not-in-argument-order")
        order = [names.index(x) for x in cols]           # column k holds the sample of BAM order[k]
        by_pos, n_seen = {}, {}
        dup = False
        for rec in recs:
            k = (rec["CHROM"], rec["POS"] - 1)
            pr_ = parse_impl_record(rec)
            if k in by_pos:
                # a position that lies in several targets may be reported once per target, with one and the same content
                n_seen[k] = n_seen.get(k, 1) + 1
                dup = dup or n_seen[k] > cover.get(k, 0) or by_pos[k] != pr_
            by_pos[k] = pr_
        inside = {(c, p) for c, a, b in regions for p in range(a, b)}
        if dup or not set(by_pos) <= inside:
            chk.violation("a record lies outside the targets or a position was emitted twice",
                          {**shape, "outside": sorted(set(by_pos) - inside)[:10]}, "C19/find-snvs/positions")
        for c, a, b in regions:
            deps = [spec_depths(bams[j], c, a, b, cfg[0], cfg[1], cfg[2], cfg[3]) for j in order]
            edge = "contig-start" if a == 0 else ("contig-end" if b == len(contigs[c]) else "inner")
            chk.count(f"cli2:region:{edge}")
            for p in range(a, b):
                ds = [[int(x) for x in dep[p - a]] for dep in deps]
                case = {**shape, "region": [c, a, b], "pos0": p, "reference_base": contigs[c][p], "thresholds": th_str,
                        "filters": {"mapping_quality": cfg[0], "skip_duplicates": cfg[1], "skip_qcfail": cfg[2],
                                    "skip_supplementary": cfg[3]}, "spec_depths_ACGT": ds, "impl": by_pos.get((c, p))}
                check_site(chk, case, by_pos.get((c, p)), contigs[c][p], ds, th, n_bam)
            # ---- the model on the same block
            mine = {p: by_pos[(c, p)] for p in range(a, b) if (c, p) in by_pos}
            toks = ["c19.block", _name(c), str(a), str(b), contigs[c][a:b]] + thresh_tokens(th_str) + \
                [str(cfg[0]), str(int(cfg[1])), str(int(cfg[2])), str(int(cfg[3])), str(n_bam)]
            for j in order:
                toks += tok_reads([s for s in bams[j]], contigs)
            line = " ".join(toks)

            def cb(model, mine=mine, line=line, shape=shape, region=(c, a, b), nb=n_bam):
                parts = model.split(" ; ")
                got = {}
                for x in parts[1:]:
                    pos, _, rest = x.partition(" ")
                    got[int(pos)] = parse_model_site(rest)
                chk.case(line, len(mine) > 0)
                if sorted(got) != sorted(mine):
                    chk.disagreement("find-snvs emitted positions != model (cli2)",
                                     {**shape, "region": region, "impl": sorted(mine), "model": sorted(got)})
                    return
                for p in got:
                    diff = compare_site(mine[p], got[p], nb >= 2)
                    if diff:
                        chk.disagreement(f"find-snvs record != model ({diff}) (cli2)",
                                         {**shape, "region": region, "pos": p, "impl": mine[p], "model": got[p]})
                        return
            ctx.ask(line, cb)
        ctx.flush()
        shutil.rmtree(d, ignore_errors=True)
