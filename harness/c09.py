"""C09 — likelihood caches are transparent; the carried likelihood always equals the recomputed one.

(i)  random get / set histories on the jitted `arraymap` (tiny `initial_size` / `max_size` forcing
     repeated growth and flushes) against the Lean model of the pointer-array trie
     (`MCHap/Model/ArrayMap.lean`) and against a plain dict (transparency oracle);
(ii) the jitted assemble sampler: llk trace vs recomputed `log_likelihood`, and identical genotype
     trajectories with the cache enabled / disabled for one seed;
(iii) a subprocess with `NUMBA_DISABLE_JIT=1` (`harness/c09_nojit.py`) where every value served by the
     cached wrappers of the assemble, call and call-pedigree samplers is compared with a fresh
     computation, caches are made tiny to force flushes, temperatures exchange, and a
     caller-supplied cache is inspected after `pair_allele_swap_step`.
"""
from __future__ import annotations

import json
import math
import subprocess
import sys

import numpy as np

from . import common as C
from . import gen as G

PROP = "C09"
MODULE = "MCHap.Properties.C09"
THEOREMS = [
    "MCHap.C09.walk_append",
    "MCHap.C09.walk_upd_fresh",
    "MCHap.C09.WF_link",
    "MCHap.C09.insertPath_spec",
    "MCHap.C09.WF_new",
    "MCHap.C09.get_new_miss",
    "MCHap.C09.flushed_empty",
    "MCHap.C09.insertLoop_ok",
    "MCHap.C09.Inv_new",
    "MCHap.C09.get_eq_abs",
    "MCHap.C09.set_refines",
    "MCHap.C09.amap_coherent_set",
    "MCHap.C09.amap_transparent",
    "MCHap.C09.coherent_set",
    "MCHap.C09.cachedCall_spec",
    "MCHap.C09.cache_transparent",
    "MCHap.C09.carried_llk_invariant",
    "MCHap.C09.carried_llk_invariant_history",
    "MCHap.C09.exchange_keeps_invariant",
]
RULE = ("cases: arraymap histories of 20..200 get/set operations over key length 1..6, 2..4 branches, initial_size 2..8, max_size 8..64 "
        "(non-trivial: the history contains a growth, a flush and a hit); jitted DenovoMCMC fits with cache on / off; no-JIT monitored runs "
        "of the three samplers (tiny caches, two temperatures, parents with unequal numbers of distinct reads). Distinct by history / instance.")


def val_str(x):
    return "nan" if math.isnan(x) else C.rat_str(x)


def ped_cache_factory(ped_cached, reads, counts, harr):
    """an empty cache of the key type the pedigree wrapper accepts: the pedigree sampler builds its cache inside jitted
    code, so the harness has to guess the key type — (sample, genotype index) pairs as written, or a single integer;
    None when neither is accepted (the plain-Python monitors then carry the coverage)"""
    from numba import types
    from numba.typed import Dict as NDict
    probe = np.zeros(1, dtype=np.int64)
    for make in (lambda: _init(NDict.empty(types.UniTuple(types.int64, 2), types.float64), (-1, -1)),
                 lambda: _init(NDict.empty(types.int64, types.float64), -1)):
        c = make()
        try:
            ped_cached(reads, counts, harr, 0, probe, c)
        except Exception:   # noqa: BLE001  (numba TypingError for a key type the wrapper does not use)
            continue
        return make()
    return None


def _init(d, key):
    d[key] = np.nan
    return d


def run(tier, replay=None):
    from mchap.assemble import arraymap

    chk = C.Check(PROP, tier, MODULE, THEOREMS, RULE, assumptions=[
        "arraymap.set / get are proved (on the model) to refine a finite map through every growth / flush path; the model is tied to the "
        "jitted code by get/set histories and a dict oracle",
        "sampler-level transparency is observed on the real samplers (monitors under NUMBA_DISABLE_JIT=1, jitted trace recomputation)",
    ])
    chk.prove()
    drv = C.Driver()
    r = C.rng(PROP)

    # ------------------------------------------------------------------ (i) arraymap histories
    n_hist = {"warm": 3, "quick": 120, "thorough": 1500}[tier]
    lines, hists = [], []
    for i in range(n_hist):
        kl = r.randint(1, 6); br = r.randint(2, 4)
        ini = r.choice([2, 2, 3, 4, 8]); mx = r.choice([8, 16, 32, 64, 4096])
        pool = [[r.randrange(br) for _ in range(kl)] for _ in range(r.randint(2, 25))]
        ops = []
        for _ in range(r.randint(20, 200 if tier != "warm" else 30)):
            key = r.choice(pool) if r.random() < 0.85 else [r.randrange(br) for _ in range(kl)]
            if r.random() < 0.45:
                v = float(r.choice([-1.5, -0.25, -3.0, -10.125, 0.0, r.random() * -20]))
                if r.random() < 0.03:
                    v = math.nan
                ops.append(("s", key, v))
            else:
                ops.append(("g", key, None))
        toks = ["amap.run", str(kl), str(br), str(ini), str(mx)]
        for op, key, v in ops:
            toks += [op] + [str(k) for k in key] + ([val_str(v)] if op == "s" else [])
        lines.append(" ".join(toks))
        hists.append((kl, br, ini, mx, ops))
    ans = drv.ask(lines)
    for (kl, br, ini, mx, ops), a, line in zip(hists, ans, lines):
        model = a.split(";")
        m = arraymap.new(kl, br, initial_size=ini, max_size=mx)
        ref = {}
        grew = flushed = hit = False
        impl_out = []
        bad = None
        for k, (op, key, v) in enumerate(ops):
            karr = np.array(key, dtype=np.int64)
            if op == "g":
                x = float(arraymap.get(m, karr))
                impl_out.append("g " + val_str(x))
                want = ref.get(tuple(key), math.nan)
                if not math.isnan(x):
                    hit = True
                # transparency oracle: a hit returns exactly what was stored; after a flush everything is a miss
                if not math.isnan(x) and (math.isnan(want) or x != want) and bad is None:
                    bad = ("get returns a value that was not stored for that key", k, key, x, want)
                if math.isnan(x) and not math.isnan(want) and bad is None:
                    bad = ("get misses a key that was stored and not flushed", k, key, x, want)
            else:
                before = m
                m = arraymap.set(m, karr, v, empty_if_full=True)
                if m[3] == 1 and m[4] == 0:  # after a successful store empty_values >= 1
                    flushed = True
                    ref = {}
                    impl_out.append(f"s flushed {len(m[0])} {len(m[1])} {m[3]} {m[4]} 1")
                else:
                    if len(m[0]) > len(before[0]) or len(m[1]) > len(before[1]):
                        grew = True
                    ref[tuple(key)] = v
                    impl_out.append(f"s ok {len(m[0])} {len(m[1])} {m[3]} {m[4]} 1")
        chk.count(f"history:keylen={kl}"); chk.count(f"history:max={mx}")
        chk.case(line, grew and flushed and hit, sample={"request": line[:200], "impl": impl_out[:6], "model": model[:6]})
        if impl_out != model:
            k = next((j for j in range(min(len(impl_out), len(model))) if impl_out[j] != model[j]), -1)
            chk.disagreement("arraymap history: implementation != model", {"key_len": kl, "branches": br, "initial_size": ini, "max_size": mx,
                                                                          "op_index": k, "op": str(ops[k]) if k >= 0 else None,
                                                                          "impl": impl_out[k] if k >= 0 else None, "model": model[k] if k >= 0 else None})
        if bad is not None:
            chk.violation(f"arraymap: {bad[0]}", {"key_len": kl, "branches": br, "initial_size": ini, "max_size": mx, "op_index": bad[1],
                                                  "key": bad[2], "got": bad[3], "stored": bad[4],
                                                  "history": [(o, k_, v_) for o, k_, v_ in ops[: bad[1] + 1]]}, "C09/arraymap/transparency")
    # empty_if_full = False raises
    m = arraymap.new(2, 2, initial_size=2, max_size=2)
    try:
        arraymap.set(m, np.array([0, 1], dtype=np.int64), 1.0, empty_if_full=False)
        raised = False
    except ValueError:
        raised = True
    mod = drv.ask1("amap.run 2 2 2 2 S 0 1 1")
    if ("error:ValueError" in mod) != raised:
        chk.disagreement("arraymap.set(empty_if_full=False) at max_size: implementation != model", {"impl_raised": raised, "model": mod})

    # ------------------------------------------------------------------ (ii) jitted assemble sampler
    from mchap.assemble.mcmc import DenovoMCMC
    from mchap.assemble.likelihood import log_likelihood
    n_fit = {"warm": 1, "quick": 6, "thorough": 40}[tier]
    for it in range(n_fit):
        # diffuse posteriors (few reads, gaps) so that chains at different temperatures sit in different states
        ploidy = r.choice([2, 4, 4, 6]); nb = r.randint(3, 6)
        n_alleles = [r.choice([2, 2, 3]) for _ in range(nb)]
        truth = G.gen_genotype(r, ploidy, n_alleles, dup=0.3)
        reads, counts = G.gen_reads(r, n_alleles, r.randint(3, 8), haps=truth, gap=0.3, style="encoded")
        temps = (1.0,) if it % 3 == 2 else r.choice([(0.25, 0.6, 1.0), (0.1, 1.0), (0.5, 0.75, 0.9, 1.0)])
        traces = {}
        for thr in (-1, 0):
            mod_ = DenovoMCMC(ploidy=ploidy, n_alleles=n_alleles, steps=150, chains=2, fix_homozygous=2.0, temperatures=temps,
                              random_seed=17 + it, llk_cache_threshold=thr, inbreeding=0.05)
            tr = mod_.fit(reads, read_counts=counts)
            traces[thr] = tr
            gt, lt = tr.genotypes, tr.llks
            for c in range(gt.shape[0]):
                for s in range(gt.shape[1]):
                    fresh = float(log_likelihood(reads, gt[c, s], read_counts=counts))
                    if not C.close_log(float(lt[c, s]), fresh):
                        chk.violation("likelihood recorded in the assemble trace differs from the recomputed likelihood of that genotype",
                                      {"cache": "on" if thr == 0 else "off", "chain": c, "step": s, "genotype": gt[c, s].tolist(),
                                       "carried": float(lt[c, s]), "recomputed": fresh, "temperatures": temps}, "C09/assemble/trace-llk")
                        break
        chk.count("fit:jitted")
        chk.case(("fit", it, ploidy, tuple(n_alleles), temps), True)
        if not np.array_equal(traces[-1].genotypes, traces[0].genotypes):
            s = int(np.argmax(np.any(traces[-1].genotypes != traces[0].genotypes, axis=(0, 2, 3))))
            chk.violation("enabling the assemble likelihood cache changes the sampled trajectory for a fixed seed",
                          {"ploidy": ploidy, "n_alleles": n_alleles, "temperatures": temps, "first_differing_step": s}, "C09/assemble/cache-trajectory")

    # ------------------------------------------------------------------ (ii-b) dict caches of the call / call-pedigree wrappers over whole genotype spaces
    import itertools
    from numba import types
    from numba.typed import Dict as NDict
    from mchap.calling.likelihood import log_likelihood_alleles_cached as call_cached, log_likelihood_alleles
    from mchap.pedigree.likelihood import log_likelihood_alleles_cached as ped_cached
    spaces = [(10, 3), (12, 2), (9, 4), (4, 5), (5, 300), (6, 260), (2, 1000)]
    if tier == "warm":
        spaces = [(4, 3)]
    for (ploidy, n_haps) in spaces:
        nb = 10 if n_haps > 32 else 3
        seen, haps = set(), []
        for _ in range(n_haps * 20):
            h = tuple(r.randrange(2) for _ in range(nb))
            if h not in seen:
                seen.add(h); haps.append(h)
            if len(haps) == n_haps:
                break
        n_haps = len(haps)
        harr = np.array(haps, dtype=np.int8)
        reads, counts = G.gen_reads(r, [2] * nb, 6, haps=[list(haps[0]), list(haps[-1])], gap=0.1, style="encoded")
        if math.comb(n_haps + ploidy - 1, ploidy) <= 1500:
            genos = list(itertools.combinations_with_replacement(range(n_haps), ploidy))
        else:
            genos = sorted({tuple(sorted(r.randrange(n_haps) for _ in range(ploidy))) for _ in range(600)}
                           | {tuple(sorted([r.randrange(n_haps)] + [r.randrange(max(1, n_haps - 3), n_haps) for _ in range(ploidy - 1)])) for _ in range(300)})
        cache = NDict.empty(types.int64, types.float64); cache[-1] = np.nan
        pcache = ped_cache_factory(ped_cached, reads, counts, harr)
        fresh = {}
        order = list(genos); r.shuffle(order)
        bad = None
        for rnd in range(2):
            for g in order:
                arr = np.array(g, dtype=np.int64)
                if g not in fresh:
                    fresh[g] = float(log_likelihood_alleles(reads, counts, harr, arr))
                perm = arr.copy(); np.random.shuffle(perm)   # the wrapper sorts before keying
                v1 = float(call_cached(reads, counts, harr, perm, cache))
                v2 = float(ped_cached(reads, counts, harr, 0, arr, pcache)) if pcache is not None else fresh[g]
                if bad is None and not (C.close_log(v1, fresh[g]) and C.close_log(v2, fresh[g])):
                    bad = (g, v1, v2, fresh[g], rnd)
            r.shuffle(order)
        chk.count("dict-cache-space")
        chk.case(("dict-cache", ploidy, n_haps, len(genos)), ploidy >= 9 or n_haps > 256)
        if bad is not None:
            chk.violation("a likelihood served from the call / call-pedigree genotype cache differs from the freshly computed likelihood",
                          {"ploidy": ploidy, "n_haplotypes": n_haps, "genotype": list(bad[0]), "calling_cached": bad[1], "pedigree_cached": bad[2],
                           "fresh": bad[3], "pass": bad[4], "n_genotypes_cached": len(genos)}, "C09/dict-cache/served-value")

    # ------------------------------------------------------------------ (ii-c) one pedigree cache shared by samples of different ploidy
    for trial in range({"warm": 1, "quick": 6, "thorough": 40}[tier]):
        n_haps = r.choice([3, 4, 5]); nb = 3
        seen, haps = set(), []
        for _ in range(60):
            h = tuple(r.randrange(2) for _ in range(nb))
            if h not in seen:
                seen.add(h); haps.append(h)
            if len(haps) == n_haps:
                break
        harr = np.array(haps, dtype=np.int8); n_haps = len(haps)
        ploidies = [r.choice([2, 3, 4, 6]) for _ in range(r.randint(3, 5))]
        if trial % 2 == 0:
            ploidies.sort(reverse=True)
        per_sample = [G.gen_reads(r, [2] * nb, r.randint(1, 6), haps=[list(haps[0]), list(haps[-1])], gap=0.1, style="encoded") for _ in ploidies]
        pc = ped_cache_factory(ped_cached, per_sample[0][0], per_sample[0][1], harr)
        if pc is None:
            chk.count("ped-shared-cache:key-type-unknown")
            break
        todo = [(s_, g) for s_, pl in enumerate(ploidies) for g in itertools.combinations_with_replacement(range(n_haps), pl)]
        bad = None
        for rnd in range(2):
            r.shuffle(todo)
            for s_, g in todo:
                arr = np.array(g, dtype=np.int64)
                rd, ct = per_sample[s_]
                want = float(log_likelihood_alleles(rd, ct, harr, arr))
                got = float(ped_cached(rd, ct, harr, s_, arr, pc))
                if bad is None and not C.close_log(got, want):
                    bad = {"sample": s_, "ploidies": ploidies, "n_haplotypes": n_haps, "genotype": list(g), "served": got, "fresh": want, "pass": rnd}
        chk.count("ped-shared-cache")
        chk.case(("ped-shared-cache", tuple(ploidies), n_haps), len(set(ploidies)) > 1)
        if bad is not None:
            chk.violation("the pedigree likelihood cache serves one sample the likelihood of another sample / genotype "
                          "(one cache shared by samples of different ploidy)", bad, "C09/pedigree/shared-cache-served-value")

    # ------------------------------------------------------------------ (iii) monitored plain-Python runs
    scale = {"warm": 0.4, "quick": 1.0, "thorough": 6.0}[tier]
    try:
        p = subprocess.run([sys.executable, "-W", "ignore", "-m", "harness.c09_nojit", str(C.seed()), str(scale)],
                           cwd=C.VERIF, env=C.subprocess_env({"NUMBA_DISABLE_JIT": "1"}), capture_output=True, text=True, timeout=1500)
    except subprocess.TimeoutExpired:
        raise C.Infra("no-JIT monitor run timed out")
    if p.returncode != 0:
        raise C.Infra("no-JIT monitor run failed: " + p.stderr[-800:])
    res = json.loads(p.stdout.strip().splitlines()[-1])
    for k in ("assemble", "calling", "pedigree", "swap"):
        for e in res[k]:
            chk.count(f"nojit:{k}")
            chk.case(("nojit", k, json.dumps(e, sort_keys=True)), k != "assemble" or (e.get("hits", 0) > 0 and (e.get("flushes", 0) > 0 or e.get("growths", 0) > 0)))
    chk.extra["nojit_assemble"] = res["assemble"][:6]
    for b in res["bad"]:
        where = b["where"]
        if "mixed ploidy" in where:
            chk.violation("the pedigree sampler is served a likelihood that is not the likelihood of that sample's genotype and own reads "
                          "(pedigree with individuals of different ploidy sharing the cache)", b, "C09/pedigree/served-value-mixed-ploidy")
        elif where.startswith("pedigree/swap-cache-entry") or where.startswith("pedigree/served-value"):
            sig = "C09/pedigree/swap-read-mask" if True else None
            chk.violation("pedigree likelihood cache holds / serves a value that is not the likelihood of that sample's own reads "
                          "(the parental allele swap masks the second parent's reads with the first parent's read counts)", b, sig)
        elif "trajectory" in where:
            chk.violation("the sampled trajectory depends on the cache (" + where + ")", b, "C09/cache-trajectory")
        else:
            chk.violation("a cached / carried likelihood differs from the freshly computed one (" + where + ")", b, "C09/" + where.split(" ")[0])
    return chk.finish()
