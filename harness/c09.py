"""C09 — likelihood caches are transparent; the carried likelihood always equals the recomputed one.

(i)  random get / set histories on the jitted `arraymap` (tiny `initial_size` / `max_size` forcing
     repeated growth and flushes) against the Lean model of the pointer-array trie
     (`MCHap/Model/ArrayMap.lean`) and against a plain dict (transparency oracle);
(ii) the jitted assemble sampler: llk trace vs recomputed `log_likelihood`, and identical genotype
     trajectories with the cache enabled / disabled for one seed;
(iii) a subprocess with `NUMBA_DISABLE_JIT=1` (`harness/c09_nojit.py`) where every value served by the
     cached wrappers of the assemble, call and call-pedigree samplers is compared with a fresh
     computation, caches are made tiny to force flushes, temperatures exchange, and a
     caller-supplied cache is inspected after `pair_allele_swap_step`.
"""
from __future__ import annotations

import json
import math
import subprocess
import sys

import numpy as np

from . import common as C
from . import gen as G

PROP = "C09"
MODULE = "MCHap.Properties.C09"
THEOREMS = [
    "MCHap.C09.walk_append",
    "MCHap.C09.walk_upd_fresh",
    "MCHap.C09.WF_link",
    "MCHap.C09.insertPath_spec",
    "MCHap.C09.WF_new",
    "MCHap.C09.get_new_miss",
    "MCHap.C09.flushed_empty",
    "MCHap.C09.insertLoop_ok",
    "MCHap.C09.Inv_new",
    "MCHap.C09.get_eq_abs",
    "MCHap.C09.set_refines",
    "MCHap.C09.amap_coherent_set",
    "MCHap.C09.amap_transparent",
    "MCHap.C09.coherent_set",
    "MCHap.C09.cachedCall_spec",
    "MCHap.C09.cache_transparent",
    "MCHap.C09.carried_llk_invariant",
    "MCHap.C09.carried_llk_invariant_history",
    "MCHap.C09.exchange_keeps_invariant",
]
RULE = ("cases: arraymap histories of 20..200 get/set operations over key length 1..6, 2..4 branches, initial_size 2..8, max_size 8..64 "
        "(non-trivial: the history contains a growth, a flush and a hit); jitted DenovoMCMC fits with cache on / off; no-JIT monitored runs "
        "of the three samplers (tiny caches, two temperatures, parents with unequal numbers of distinct reads, samples without reads, read rows "
        "permuted so that zero-count rows precede positive-count rows, read_counts=None, Gibbs and MH updates, swap steps of every parental pair "
        "of a mixed-ploidy family); jitted: a fit on a space that overflows the cache, the call sampler cache on / off / CallingMCMC.fit, dict "
        "caches with genotype indices beyond 2^53 and 2^63, 300 haplotypes x 3 samples in one pedigree cache, pedigree Gibbs / MH updates on a "
        "caller-supplied cache audited entry by entry; `mchap assemble` with --mcmc-llk-cache-threshold -1 / 0 under tempering. "
        "Distinct by history / instance.")


def val_str(x):
    return "nan" if math.isnan(x) else C.rat_str(x)


def ped_cache_factory(ped_cached, reads, counts, harr):
    """an empty cache of the key type the pedigree wrapper accepts: the pedigree sampler builds its cache inside jitted
    code, so the harness has to guess the key type — (sample, genotype index) pairs as written, or a single integer;
    None when neither is accepted (the plain-Python monitors then carry the coverage)"""
    from numba import types
    from numba.typed import Dict as NDict
    probe = np.zeros(1, dtype=np.int64)
    for make in (lambda: _init(NDict.empty(types.UniTuple(types.int64, 2), types.float64), (-1, -1)),
                 lambda: _init(NDict.empty(types.int64, types.float64), -1)):
        c = make()
        try:
            ped_cached(reads, counts, harr, 0, probe, c)
        except Exception:   # noqa: BLE001  (numba TypingError for a key type the wrapper does not use)
            continue
        return make()
    return None


def _init(d, key):
    d[key] = np.nan
    return d


def cli_cache_runs(chk, r, tier):
    """the same `mchap assemble` command line with --mcmc-llk-cache-threshold -1 and 0 (plus tempering and the other MCMC options no other
    stream passes): what DenovoMCMC receives is recorded, every trace of the program is recomputed, and the two VCFs must be identical"""
    import os
    import shutil
    import tempfile
    from . import synth as S
    import mchap.application.assemble as A
    from mchap.assemble.likelihood import log_likelihood

    work = tempfile.mkdtemp(prefix="verif-c09-")
    orig = A.DenovoMCMC
    try:
        n_ds = {"quick": 1, "thorough": 4}[tier]
        for d in range(n_ds):
            ds = S.make_dataset(r, os.path.join(work, f"ds{d}"), n_samples=2, n_loci=3, ploidies=(4, 2), max_snvs=4, depth=(4, 10))
            variants = [
                (["--mcmc-temperatures", "0.3", "1.0", "--mcmc-fix-homozygous", "2.0"], (0.3, 1.0)),
                (["--mcmc-temperatures", "0.1", "0.5", "1.0", "--mcmc-chains", "3", "--mcmc-burn", "0", "--mcmc-fix-homozygous", "0.9",
                  "--mcmc-chain-incongruence-threshold", "0.7"], (0.1, 0.5, 1.0)),
            ]
            for v, (extra, temps) in enumerate(variants):
                seed_ = str(r.randrange(1, 10 ** 6))
                outs, fits = {}, {}
                for thr in ("-1", "0"):
                    rec = []

                    class Rec(orig):
                        def fit(self, reads, read_counts=None, initial=None, _rec=rec):
                            tr = super().fit(reads, read_counts=read_counts, initial=initial)
                            _rec.append((self, reads, read_counts, tr))
                            return tr
                    A.DenovoMCMC = Rec
                    try:
                        out, code, err = S.run_program(ds.assemble_argv("--mcmc-steps", "120", "--mcmc-burn", "40", "--mcmc-seed", seed_,
                                                                        *extra, "--mcmc-llk-cache-threshold", thr))
                    finally:
                        A.DenovoMCMC = orig
                    chk.count("cli:assemble-runs")
                    if code != 0:
                        chk.violation("mchap assemble aborted on a synthetic data set", {"dataset": d, "options": extra, "threshold": thr, "error": err[:500]},
                                      "C09/cli/abort")
                        continue
                    outs[thr] = [l for l in out.split("\n") if not l.startswith("##commandline") and not l.startswith("##fileDate")]
                    fits[thr] = rec
                    for (m, reads, counts, tr) in rec:
                        case = {"dataset": d, "options": extra, "threshold": thr}
                        if int(m.llk_cache_threshold) != int(thr) or tuple(float(x) for x in np.sort(m.temperatures)) != temps:
                            chk.violation("--mcmc-llk-cache-threshold / --mcmc-temperatures are not what DenovoMCMC receives",
                                          {**case, "received_threshold": m.llk_cache_threshold, "received_temperatures": [float(x) for x in m.temperatures]},
                                          "C09/cli/options-forwarded")
                        if "--mcmc-chains" in extra and tr.genotypes.shape[0] != 3:
                            chk.violation("--mcmc-chains is not the number of chains in the trace", {**case, "chains": int(tr.genotypes.shape[0])},
                                          "C09/cli/options-forwarded")
                        if m.fix_homozygous > 1 and reads.shape[1] > 0:
                            chk.count("cli:fit-recomputed")
                            done = False
                            for c in range(tr.genotypes.shape[0]):
                                for s_ in range(tr.genotypes.shape[1]):
                                    fresh = float(log_likelihood(reads, tr.genotypes[c, s_], read_counts=counts))
                                    if not C.close_log(float(tr.llks[c, s_]), fresh):
                                        chk.violation("likelihood recorded in a trace of `mchap assemble` differs from the recomputed likelihood",
                                                      {**case, "chain": c, "step": s_, "genotype": tr.genotypes[c, s_].tolist(),
                                                       "carried": float(tr.llks[c, s_]), "recomputed": fresh}, "C09/assemble/trace-llk")
                                        done = True
                                        break
                                if done:
                                    break
                chk.case(("cli-cache", d, v, seed_), True)
                if len(outs) == 2:
                    same_traces = len(fits["-1"]) == len(fits["0"]) and all(
                        np.array_equal(a[3].genotypes, b[3].genotypes) for a, b in zip(fits["-1"], fits["0"]))
                    if outs["-1"] != outs["0"] or not same_traces:
                        k = next((i for i, (a, b) in enumerate(zip(outs["-1"], outs["0"])) if a != b), None)
                        chk.violation("`mchap assemble` gives a different result with the likelihood cache disabled (-1) and always on (0) for one seed",
                                      {"dataset": d, "options": extra, "seed": seed_, "traces_equal": bool(same_traces),
                                       "first_differing_line": None if k is None else [outs["-1"][k][:300], outs["0"][k][:300]]},
                                      "C09/cli/cache-changes-output")
    finally:
        A.DenovoMCMC = orig
        shutil.rmtree(work, ignore_errors=True)


def run(tier, replay=None):
    from mchap.assemble import arraymap

    chk = C.Check(PROP, tier, MODULE, THEOREMS, RULE, assumptions=[
        "arraymap.set / get are proved (on the model) to refine a finite map through every growth / flush path; the model is tied to the "
        "jitted code by get/set histories and a dict oracle",
        "sampler-level transparency is observed on the real samplers (monitors under NUMBA_DISABLE_JIT=1, jitted trace recomputation)",
    ])
    chk.prove()
    drv = C.Driver()
    r = C.rng(PROP)

    # ------------------------------------------------------------------ (i) arraymap histories
    n_hist = {"warm": 3, "quick": 120, "thorough": 1500}[tier]
    lines, hists = [], []
    for i in range(n_hist):
        kl = r.randint(1, 6); br = r.randint(2, 4)
        ini = r.choice([2, 2, 3, 4, 8]); mx = r.choice([8, 16, 32, 64, 4096])
        pool = [[r.randrange(br) for _ in range(kl)] for _ in range(r.randint(2, 25))]
        ops = []
        for _ in range(r.randint(20, 200 if tier != "warm" else 30)):
            key = r.choice(pool) if r.random() < 0.85 else [r.randrange(br) for _ in range(kl)]
            if r.random() < 0.45:
                v = float(r.choice([-1.5, -0.25, -3.0, -10.125, 0.0, r.random() * -20]))
                if r.random() < 0.03:
                    v = math.nan
                ops.append(("s", key, v))
            else:
                ops.append(("g", key, None))
        toks = ["amap.run", str(kl), str(br), str(ini), str(mx)]
        for op, key, v in ops:
            toks += [op] + [str(k) for k in key] + ([val_str(v)] if op == "s" else [])
        lines.append(" ".join(toks))
        hists.append((kl, br, ini, mx, ops))
    ans = drv.ask(lines)
    for (kl, br, ini, mx, ops), a, line in zip(hists, ans, lines):
        model = a.split(";")
        m = arraymap.new(kl, br, initial_size=ini, max_size=mx)
        ref = {}
        grew = flushed = hit = False
        impl_out = []
        bad = None
        for k, (op, key, v) in enumerate(ops):
            karr = np.array(key, dtype=np.int64)
            if op == "g":
                x = float(arraymap.get(m, karr))
                impl_out.append("g " + val_str(x))
                want = ref.get(tuple(key), math.nan)
                if not math.isnan(x):
                    hit = True
                # transparency oracle: a hit returns exactly what was stored; after a flush everything is a miss
                if not math.isnan(x) and (math.isnan(want) or x != want) and bad is None:
                    bad = ("get returns a value that was not stored for that key", k, key, x, want)
                if math.isnan(x) and not math.isnan(want) and bad is None:
                    bad = ("get misses a key that was stored and not flushed", k, key, x, want)
            else:
                before = m
                m = arraymap.set(m, karr, v, empty_if_full=True)
                if m[3] == 1 and m[4] == 0:  # after a successful store empty_values >= 1
                    flushed = True
                    ref = {}
                    impl_out.append(f"s flushed {len(m[0])} {len(m[1])} {m[3]} {m[4]} 1")
                else:
                    if len(m[0]) > len(before[0]) or len(m[1]) > len(before[1]):
                        grew = True
                    ref[tuple(key)] = v
                    impl_out.append(f"s ok {len(m[0])} {len(m[1])} {m[3]} {m[4]} 1")
        chk.count(f"history:keylen={kl}"); chk.count(f"history:max={mx}")
        chk.case(line, grew and flushed and hit, sample={"request": line[:200], "impl": impl_out[:6], "model": model[:6]})
        if impl_out != model:
            k = next((j for j in range(min(len(impl_out), len(model))) if impl_out[j] != model[j]), -1)
            chk.disagreement("arraymap history: implementation != model", {"key_len": kl, "branches": br, "initial_size": ini, "max_size": mx,
                                                                          "op_index": k, "op": str(ops[k]) if k >= 0 else None,
                                                                          "impl": impl_out[k] if k >= 0 else None, "model": model[k] if k >= 0 else None})
        if bad is not None:
            chk.violation(f"arraymap: {bad[0]}", {"key_len": kl, "branches": br, "initial_size": ini, "max_size": mx, "op_index": bad[1],
                                                  "key": bad[2], "got": bad[3], "stored": bad[4],
                                                  "history": [(o, k_, v_) for o, k_, v_ in ops[: bad[1] + 1]]}, "C09/arraymap/transparency")
    # empty_if_full = False raises
    m = arraymap.new(2, 2, initial_size=2, max_size=2)
    try:
        arraymap.set(m, np.array([0, 1], dtype=np.int64), 1.0, empty_if_full=False)
        raised = False
    except ValueError:
        raised = True
    mod = drv.ask1("amap.run 2 2 2 2 S 0 1 1")
    if ("error:ValueError" in mod) != raised:
        chk.disagreement("arraymap.set(empty_if_full=False) at max_size: implementation != model", {"impl_raised": raised, "model": mod})

    # ------------------------------------------------------------------ (ii) jitted assemble sampler
    from mchap.assemble.mcmc import DenovoMCMC
    from mchap.assemble.likelihood import log_likelihood
    n_fit = {"warm": 1, "quick": 6, "thorough": 40}[tier]
    for it in range(n_fit):
        # diffuse posteriors (few reads, gaps) so that chains at different temperatures sit in different states
        ploidy = r.choice([2, 4, 4, 6]); nb = r.randint(3, 6)
        n_alleles = [r.choice([2, 2, 3]) for _ in range(nb)]
        truth = G.gen_genotype(r, ploidy, n_alleles, dup=0.3)
        reads, counts = G.gen_reads(r, n_alleles, r.randint(3, 8), haps=truth, gap=0.3, style="encoded")
        temps = (1.0,) if it % 3 == 2 else r.choice([(0.25, 0.6, 1.0), (0.1, 1.0), (0.5, 0.75, 0.9, 1.0)])
        if it % 4 == 3:
            counts = None          # read_counts=None: every row is one observation
            chk.count("fit:read_counts=None")
        n_chains = (2, 1, 3)[it % 3]
        chk.count(f"fit:chains={n_chains}")
        traces = {}
        for thr in (-1, 0):
            mod_ = DenovoMCMC(ploidy=ploidy, n_alleles=n_alleles, steps=150, chains=n_chains, fix_homozygous=2.0, temperatures=temps,
                              random_seed=17 + it, llk_cache_threshold=thr, inbreeding=0.05)
            tr = mod_.fit(reads, read_counts=counts)
            traces[thr] = tr
            gt, lt = tr.genotypes, tr.llks
            for c in range(gt.shape[0]):
                for s in range(gt.shape[1]):
                    fresh = float(log_likelihood(reads, gt[c, s], read_counts=counts))
                    if not C.close_log(float(lt[c, s]), fresh):
                        chk.violation("likelihood recorded in the assemble trace differs from the recomputed likelihood of that genotype",
                                      {"cache": "on" if thr == 0 else "off", "chain": c, "step": s, "genotype": gt[c, s].tolist(),
                                       "carried": float(lt[c, s]), "recomputed": fresh, "temperatures": temps}, "C09/assemble/trace-llk")
                        break
        # one assembler object fitted to a second sample (cache on): its trace carries that sample's likelihoods and is the
        # trace of a new object
        truth2 = G.gen_genotype(r, ploidy, n_alleles, dup=0.3)
        reads2, counts2 = G.gen_reads(r, n_alleles, r.randint(3, 8), haps=truth2, gap=0.3, style="encoded")
        mk = lambda: DenovoMCMC(ploidy=ploidy, n_alleles=n_alleles, steps=150, chains=n_chains, fix_homozygous=2.0,  # noqa: E731
                                temperatures=temps, random_seed=17 + it, llk_cache_threshold=0, inbreeding=0.05)
        m_ = mk()
        m_.fit(reads, read_counts=counts)
        again = m_.fit(reads2, read_counts=counts2)
        alone = mk().fit(reads2, read_counts=counts2)
        chk.count("fit:one-object-fitted-to-two-samples")
        bad = next(((c, s_) for c in range(again.genotypes.shape[0]) for s_ in range(again.genotypes.shape[1])
                    if not C.close_log(float(again.llks[c, s_]), float(log_likelihood(reads2, again.genotypes[c, s_], read_counts=counts2)))), None)
        if bad is not None:
            chk.violation("second fit of one DenovoMCMC object: a likelihood in the trace is not the likelihood of that genotype for the "
                          "reads being fitted", {"chain": bad[0], "step": bad[1], "genotype": again.genotypes[bad].tolist(),
                                                 "carried": float(again.llks[bad]), "temperatures": temps}, "C09/assemble/trace-llk")
        if not np.array_equal(again.genotypes, alone.genotypes):
            chk.violation("the second fit of one DenovoMCMC object differs from the fit of a new object (same reads and seed)",
                          {"ploidy": ploidy, "n_alleles": n_alleles, "temperatures": temps}, "C09/assemble/cache-trajectory")
        chk.count("fit:jitted")
        chk.case(("fit", it, ploidy, tuple(n_alleles), temps), True)
        if not np.array_equal(traces[-1].genotypes, traces[0].genotypes):
            s = int(np.argmax(np.any(traces[-1].genotypes != traces[0].genotypes, axis=(0, 2, 3))))
            chk.violation("enabling the assemble likelihood cache changes the sampled trajectory for a fixed seed",
                          {"ploidy": ploidy, "n_alleles": n_alleles, "temperatures": temps, "first_differing_step": s}, "C09/assemble/cache-trajectory")

    # ------------------------------------------------------------------ (ii-a2) jitted assemble sampler on a space large enough to flush its cache
    from mchap.assemble import mcmc as amcmc
    from mchap.assemble.likelihood import new_log_likelihood_cache
    from mchap.jitutils import seed_numba
    for it in range({"warm": 0, "quick": 1, "thorough": 4}[tier]):
        ploidy, nb = (6, 14) if it % 2 == 0 else (4, 20)
        n_alleles = [3] * nb
        truth = G.gen_genotype(r, ploidy, n_alleles, dup=0.3)
        reads, counts = G.gen_reads(r, n_alleles, 10, haps=truth, gap=0.4, style="encoded")
        temps = np.array([0.1, 0.3, 0.6, 1.0])
        steps = 700 if tier == "quick" else 1500
        bd = amcmc._point_beta_probabilities(nb, 1.0, 3.0)
        sd = r.randrange(1, 2 ** 31)
        res = {}
        for thr in (-1, 0):
            seed_numba(sd); np.random.seed(sd)
            res[thr] = amcmc._denovo_assembler(
                genotype=np.array(truth, dtype=np.int8), inbreeding=0.05, reads=reads, read_counts=counts, n_alleles=np.array(n_alleles, dtype=np.int8),
                steps=steps, break_dist=bd, recombination_step_probability=0.5, partial_dosage_step_probability=0.5, dosage_step_probability=1.0,
                temperatures=temps, return_heated_trace=True, llk_cache_threshold=thr)
        gt, lt = res[0]
        # the cache holds at least every state of the trace: a replica filled with those keys alone tells whether it must have overflowed
        keys = {gt[t, s_].tobytes() for t in range(gt.shape[0]) for s_ in range(gt.shape[1])}
        rep = new_log_likelihood_cache(ploidy, nb, 3)
        overflow = False
        for k in sorted(keys):
            rep = arraymap.set(rep, np.frombuffer(k, dtype=np.int8).astype(np.int64), -1.0, empty_if_full=True)
            if rep[3] == 1 and rep[4] == 0:
                overflow = True
                break
        chk.count("fit:jitted-large-space"); chk.count("fit:jitted-cache-certainly-flushed" if overflow else "fit:jitted-cache-maybe-not-flushed")
        chk.case(("fit-flush", it, ploidy, nb, steps, len(keys)), overflow)
        for thr in (-1, 0):
            g_, l_ = res[thr]
            stop = False
            for t in range(g_.shape[0]):
                for s_ in range(0, g_.shape[1], 1 if tier == "thorough" else 3):
                    fresh = float(log_likelihood(reads, g_[t, s_], read_counts=counts))
                    if not C.close_log(float(l_[t, s_]), fresh):
                        chk.violation("likelihood recorded in the assemble trace differs from the recomputed likelihood of that genotype "
                                      "(space large enough for the cache to overflow)",
                                      {"cache": "on" if thr == 0 else "off", "chain": t, "step": s_, "genotype": g_[t, s_].tolist(),
                                       "carried": float(l_[t, s_]), "recomputed": fresh, "temperatures": temps.tolist(), "seed": sd}, "C09/assemble/trace-llk")
                        stop = True
                        break
                if stop:
                    break
        if not np.array_equal(res[-1][0], res[0][0]):
            s_ = int(np.argmax(np.any(res[-1][0] != res[0][0], axis=(0, 2, 3))))
            chk.violation("enabling the assemble likelihood cache changes the sampled trajectory for a fixed seed (cache overflowing)",
                          {"ploidy": ploidy, "n_base": nb, "temperatures": temps.tolist(), "first_differing_step": s_, "seed": sd,
                           "certainly_flushed": overflow}, "C09/assemble/cache-trajectory")

    # ------------------------------------------------------------------ (ii-a2'') deep samples with the homozygosity screen on: many distinct reads,
    # some positions fixed.  The sampler then runs on the remaining positions; a read's factor at the fixed positions is the same for
    # every genotype, so (likelihood of the recorded genotype for ALL of the sample's reads and positions) - (likelihood carried)
    # must be one constant over all steps and chains
    from mchap.assemble import mcmc as amcmc_mod
    for it in range({"warm": 1, "quick": 3, "thorough": 16}[tier]):
        ploidy = r.choice([2, 4]); nb = r.randint(5, 7)
        hom = sorted(r.sample(range(nb), r.randint(1, 2)))
        base_h = [r.randrange(2) for _ in range(nb)]
        truth = []
        for _ in range(ploidy):
            h = [r.randrange(2) for _ in range(nb)]
            for j in hom:
                h[j] = base_h[j]
            truth.append(h)
        raw = []
        for _ in range(r.choice([300, 500, 800])):
            h = r.choice(truth)
            row = np.full((nb, 2), np.nan)
            for j in range(nb):
                if r.random() < 0.15:
                    continue                                   # gap
                a = h[j] if r.random() > 0.04 else 1 - h[j]    # a sequencing error
                e = r.choice([0.001, 0.01])
                row[j, a] = 1 - e; row[j, 1 - a] = e
            raw.append(row)
        raw = np.array(raw)
        keys = np.nan_to_num(raw.reshape(len(raw), -1), nan=-1.0)
        _, first, counts_d = np.unique(keys, axis=0, return_index=True, return_counts=True)
        reads_d, counts_d = raw[first], counts_d.astype(np.int64)
        mod_ = DenovoMCMC(ploidy=ploidy, n_alleles=[2] * nb, steps=120, chains=2, temperatures=(0.3, 1.0), random_seed=41 + it, inbreeding=0.0)
        tr = mod_.fit(reads_d, read_counts=counts_d)
        gt, lt = tr.genotypes, tr.llks
        fixed_cols = [j for j in range(nb) if len({int(x) for x in gt[:, :, :, j].ravel()}) == 1]
        chk.count("fit:deep-with-screen"); chk.count("fit:deep-with-screen:distinct-reads>=64" if len(reads_d) >= 64 else "fit:deep-with-screen:distinct-reads<64")
        chk.count("fit:deep-with-screen:fixed-columns=%d" % min(len(fixed_cols), 3))
        chk.case(("fit-deep", it, ploidy, nb, len(reads_d)), len(reads_d) >= 64 and 0 < len(fixed_cols) < nb)
        if np.isnan(lt).all():
            continue
        offs = [float(log_likelihood(reads_d, gt[c, s_], read_counts=counts_d)) - float(lt[c, s_])
                for c in range(gt.shape[0]) for s_ in range(gt.shape[1])]
        spread = max(offs) - min(offs)
        scale = max(1.0, max(abs(float(x)) for x in lt.ravel()))
        # the constant itself: the reads' factors at the positions the screen fixed (the same screen function, the fit's threshold)
        hp = amcmc_mod._homozygosity_probabilities(reads_d, np.array([2] * nb, dtype=np.int8), ploidy, inbreeding=0.0, read_counts=counts_d)
        fixed = hp >= mod_.fix_homozygous
        const = 0.0
        for j in range(nb):
            if fixed[j].any():
                a_ = int(np.argmax(fixed[j]))
                col = reads_d[:, j, a_]
                const += float(np.sum(counts_d[~np.isnan(col)] * np.log(col[~np.isnan(col)])))
        if fixed.any(axis=1).sum() < nb and not (abs(offs[0] - const) <= 1e-7 * scale):
            chk.violation("deep sample, homozygosity screen on: the likelihood carried in the trace is not the likelihood of the recorded "
                          "genotype for the sample's reads and counts at the positions that were not fixed",
                          {"ploidy": ploidy, "n_base": nb, "distinct_reads": int(len(reads_d)), "observations": int(counts_d.sum()),
                           "fixed_positions": [int(j) for j in range(nb) if fixed[j].any()], "full_minus_carried": offs[0],
                           "factor_of_the_fixed_positions": const}, "C09/assemble/trace-llk")
        if not (spread <= 1e-7 * scale):
            chk.violation("deep sample, homozygosity screen on: the likelihood carried in the trace does not differ from the likelihood of "
                          "the recorded genotype for all of the sample's reads by one constant (the factor of the fixed positions)",
                          {"ploidy": ploidy, "n_base": nb, "distinct_reads": int(len(reads_d)), "observations": int(counts_d.sum()),
                           "columns_constant_in_the_trace": fixed_cols, "offset_min": min(offs), "offset_max": max(offs)}, "C09/assemble/trace-llk")

    # ------------------------------------------------------------------ (ii-a2') every chain of small ladders, the boundary ladder (inverse temperature exactly 0) included
    for it in range({"warm": 1, "quick": 6, "thorough": 40}[tier]):
        ploidy = r.choice([2, 3, 4]); nb = r.randint(3, 5)
        n_alleles = [r.choice([2, 3, 4]) for _ in range(nb)]
        if max(n_alleles) < 3:
            n_alleles[r.randrange(nb)] = r.choice([3, 4])
        truth = G.gen_genotype(r, ploidy, n_alleles, dup=0.3)
        reads, counts = G.gen_reads(r, n_alleles, r.randint(1, 6), haps=truth, gap=0.3, style="encoded")
        temps = np.array([(0.0, 1.0), (0.0, 0.3, 1.0), (0.2, 1.0), (0.0, 0.1, 0.3, 0.6, 1.0)][it % 4])
        bd = amcmc._point_beta_probabilities(nb, 1.0, 3.0)
        sd = r.randrange(1, 2 ** 31)
        for thr in (-1, 0):
            seed_numba(sd); np.random.seed(sd)
            g_, l_ = amcmc._denovo_assembler(
                genotype=np.array(truth, dtype=np.int8), inbreeding=r.choice([0.0, 0.1]), reads=reads, read_counts=counts,
                n_alleles=np.array(n_alleles, dtype=np.int8), steps=150, break_dist=bd, recombination_step_probability=0.5,
                partial_dosage_step_probability=0.5, dosage_step_probability=1.0, temperatures=temps, return_heated_trace=True,
                llk_cache_threshold=thr)
            chk.count("fit:all-chains-of-a-ladder"); chk.count("fit:ladder-from-%s" % ("0" if temps[0] == 0 else "above-0"))
            chk.case(("fit-ladder", it, thr, tuple(temps.tolist())), True)
            bad = next(((t, s_) for t in range(g_.shape[0]) for s_ in range(g_.shape[1])
                        if not C.close_log(float(l_[t, s_]), float(log_likelihood(reads, g_[t, s_], read_counts=counts)))), None)
            if bad is not None:
                chk.violation("likelihood carried by a chain of the ladder differs from the recomputed likelihood of its genotype",
                              {"cache": "on" if thr == 0 else "off", "chain": bad[0], "inverse_temperature": float(temps[bad[0]]), "step": bad[1],
                               "genotype": g_[bad].tolist(), "carried": float(l_[bad]),
                               "recomputed": float(log_likelihood(reads, g_[bad], read_counts=counts)), "temperatures": temps.tolist(),
                               "n_alleles": n_alleles, "seed": sd}, "C09/assemble/trace-llk")

    # ------------------------------------------------------------------ (ii-a3) jitted call sampler: cache on / off for one seed, trace llks recomputed
    from mchap.calling import mcmc as cmcmc
    from mchap.calling.classes import CallingMCMC
    from mchap.calling.likelihood import log_likelihood_alleles as lla
    for it in range({"warm": 1, "quick": 10, "thorough": 60}[tier]):
        shape = it % 5
        ploidy = (2, 4, 10, 6, 4)[shape]
        n_haps = (4, 8, 6, 300, 1)[shape]          # (1: a record whose only usable allele is one haplotype - nothing to choose, but the
                                                   # likelihood carried is still that of the genotype)
        nb = 10 if n_haps > 32 else r.randint(2, 4)
        seen, haps = set(), []
        for _ in range(n_haps * 20):
            h = tuple(r.randrange(2) for _ in range(nb))
            if h not in seen:
                seen.add(h); haps.append(h)
            if len(haps) == n_haps:
                break
        harr = np.array(haps, dtype=np.int8); n_haps = len(haps)
        truth = [list(r.choice(haps)) for _ in range(ploidy)]
        reads, counts = G.gen_reads(r, [2] * nb, r.randint(2, 8), haps=truth, gap=0.2, style="encoded")
        if it % 5 == 4:
            counts = None
            chk.count("call-sampler:read_counts=None")
        F = r.choice([0.0, 0.1, 0.5])
        freqs = None if it % 2 == 0 else np.array([r.random() + 0.05 for _ in range(n_haps)])
        if freqs is not None:
            freqs = freqs / freqs.sum()
        g0 = np.array(sorted(r.randrange(n_haps) for _ in range(ploidy)), dtype=np.int64)
        for st in (0, 1):
            sd = r.randrange(1, 2 ** 31)
            out_ = {}
            try:
                for cache in (False, True):
                    seed_numba(sd); np.random.seed(sd)
                    out_[cache] = cmcmc.mcmc_sampler(g0, harr, reads, counts, F, frequencies=freqs, n_steps=60, cache=cache, step_type=st)
                # the application class (cache always on), same seed and initial state: chain 0 is the same stream
                fit = CallingMCMC(ploidy=ploidy, haplotypes=harr, frequencies=freqs, inbreeding=F, steps=60, chains=2, random_seed=sd,
                                  step_type="Gibbs" if st == 0 else "Metropolis-Hastings").fit(reads, read_counts=counts, initial=g0)
            except Exception as e:   # noqa: BLE001
                chk.violation(f"the call sampler raised {type(e).__name__} on a valid input", {"ploidy": ploidy, "n_haplotypes": n_haps, "step_type": st,
                              "read_counts": None if counts is None else counts.tolist(), "error": repr(e)[:300]}, "C09/calling/raises")
                continue
            chk.count(f"call-sampler:jitted step_type={st}")
            chk.case(("call-sampler", it, st, ploidy, n_haps), ploidy >= 9 or n_haps > 256)
            case = {"ploidy": ploidy, "n_haplotypes": n_haps, "step_type": st, "inbreeding": F, "seed": sd, "initial": g0.tolist(),
                    "frequencies": None if freqs is None else "random", "read_counts": None if counts is None else counts.tolist()}
            streams = [("cache=False", out_[False][0], out_[False][1]), ("cache=True", out_[True][0], out_[True][1])] + \
                      [(f"CallingMCMC.fit chain {c}", fit.genotypes[c], fit.llks[c]) for c in range(fit.genotypes.shape[0])]
            for name, g_, l_ in streams:
                for s_ in range(len(g_)):
                    fresh = float(lla(reads, counts, harr, np.asarray(g_[s_], dtype=np.int64)))
                    if not C.close_log(float(l_[s_]), fresh):
                        chk.violation("likelihood recorded in the call-sampler trace differs from the recomputed likelihood of that genotype",
                                      {**case, "run": name, "step": s_, "alleles": np.asarray(g_[s_]).tolist(), "carried": float(l_[s_]),
                                       "recomputed": fresh}, "C09/calling/trace-llk")
                        break
            if not np.array_equal(out_[False][0], out_[True][0]) or not np.array_equal(out_[False][0], fit.genotypes[0]):
                chk.violation("the trajectory of the call sampler depends on whether its likelihood cache is in use (one seed, one initial state)",
                              {**case, "cache_off_vs_on_equal": bool(np.array_equal(out_[False][0], out_[True][0])),
                               "cache_off_vs_CallingMCMC_equal": bool(np.array_equal(out_[False][0], fit.genotypes[0]))}, "C09/calling/cache-trajectory")

            # one model object fitted to a second sample (other reads, same haplotypes, same seed and initial state): what it
            # carries must be that sample's likelihoods, and the run must be the run of a new object
            truth2 = [list(r.choice(haps)) for _ in range(ploidy)]
            reads2, counts2 = G.gen_reads(r, [2] * nb, r.randint(2, 8), haps=truth2, gap=0.2, style="encoded")
            try:
                mk = lambda: CallingMCMC(ploidy=ploidy, haplotypes=harr, frequencies=freqs, inbreeding=F, steps=60, chains=2,  # noqa: E731
                                         random_seed=sd, step_type="Gibbs" if st == 0 else "Metropolis-Hastings")
                model = mk()
                model.fit(reads, read_counts=counts, initial=g0)
                again = model.fit(reads2, read_counts=counts2, initial=g0)
                alone = mk().fit(reads2, read_counts=counts2, initial=g0)
            except Exception as e:   # noqa: BLE001
                chk.violation(f"the call sampler raised {type(e).__name__} on a valid input (second fit of one object)",
                              {**case, "error": repr(e)[:300]}, "C09/calling/raises")
                continue
            chk.count("call-sampler:one-object-fitted-to-two-samples")
            case2 = {**case, "read_counts_second_sample": counts2.tolist()}
            for c in range(again.genotypes.shape[0]):
                bad = next((s_ for s_ in range(again.genotypes.shape[1]) if not C.close_log(
                    float(again.llks[c][s_]), float(lla(reads2, counts2, harr, np.asarray(again.genotypes[c][s_], dtype=np.int64)))))
                    , None)
                if bad is not None:
                    chk.violation("second fit of one CallingMCMC object: a likelihood in the trace is not the likelihood of that genotype "
                                  "for the reads being fitted",
                                  {**case2, "chain": c, "step": bad, "alleles": again.genotypes[c][bad].tolist(),
                                   "carried": float(again.llks[c][bad]),
                                   "recomputed": float(lla(reads2, counts2, harr, np.asarray(again.genotypes[c][bad], dtype=np.int64)))},
                                  "C09/calling/trace-llk")
                    break
            if not np.array_equal(again.genotypes, alone.genotypes):
                chk.violation("the second fit of one CallingMCMC object differs from the fit of a new object (same reads, seed, initial state)",
                              case2, "C09/calling/cache-trajectory")

    # ------------------------------------------------------------------ (ii-b) dict caches of the call / call-pedigree wrappers over whole genotype spaces
    import itertools
    from numba import types
    from numba.typed import Dict as NDict
    from mchap.calling.likelihood import log_likelihood_alleles_cached as call_cached, log_likelihood_alleles
    from mchap.pedigree.likelihood import log_likelihood_alleles_cached as ped_cached
    # (8, 400): genotype indices beyond 2^53; (8, 870): just below 2^63; (8, 1000): beyond 2^63 (the int64 index wraps)
    spaces = [(10, 3), (12, 2), (9, 4), (4, 5), (5, 300), (6, 260), (2, 1000), (8, 400), (8, 870), (8, 1000)]
    if tier == "warm":
        spaces = [(4, 3)]
    for (ploidy, n_haps) in spaces:
        nb = 12 if n_haps > 512 else 10 if n_haps > 32 else 3
        seen, haps = set(), []
        for _ in range(n_haps * 20):
            h = tuple(r.randrange(2) for _ in range(nb))
            if h not in seen:
                seen.add(h); haps.append(h)
            if len(haps) == n_haps:
                break
        n_haps = len(haps)
        harr = np.array(haps, dtype=np.int8)
        reads, counts = G.gen_reads(r, [2] * nb, 6, haps=[list(haps[0]), list(haps[-1])], gap=0.1, style="encoded")
        if math.comb(n_haps + ploidy - 1, ploidy) <= 1500:
            genos = list(itertools.combinations_with_replacement(range(n_haps), ploidy))
        else:
            genos = sorted({tuple(sorted(r.randrange(n_haps) for _ in range(ploidy))) for _ in range(600)}
                           | {tuple(sorted([r.randrange(n_haps)] + [r.randrange(max(1, n_haps - 3), n_haps) for _ in range(ploidy - 1)])) for _ in range(300)})
        cache = NDict.empty(types.int64, types.float64); cache[-1] = np.nan
        pcache = ped_cache_factory(ped_cached, reads, counts, harr)
        fresh = {}
        order = list(genos); r.shuffle(order)
        bad = None
        for rnd in range(2):
            for g in order:
                arr = np.array(g, dtype=np.int64)
                if g not in fresh:
                    fresh[g] = float(log_likelihood_alleles(reads, counts, harr, arr))
                perm = arr.copy(); np.random.shuffle(perm)   # the wrapper sorts before keying
                v1 = float(call_cached(reads, counts, harr, perm, cache))
                v2 = float(ped_cached(reads, counts, harr, 0, arr, pcache)) if pcache is not None else fresh[g]
                if bad is None and not (C.close_log(v1, fresh[g]) and C.close_log(v2, fresh[g])):
                    bad = (g, v1, v2, fresh[g], rnd)
            r.shuffle(order)
        chk.count("dict-cache-space")
        top = math.comb(n_haps + ploidy - 1, ploidy)
        chk.count("dict-cache-space:index>=2^63" if top >= 2 ** 63 else "dict-cache-space:index>=2^53" if top >= 2 ** 53 else "dict-cache-space:index<2^53")
        chk.case(("dict-cache", ploidy, n_haps, len(genos)), ploidy >= 9 or n_haps > 256)
        if bad is not None:
            chk.violation("a likelihood served from the call / call-pedigree genotype cache differs from the freshly computed likelihood",
                          {"ploidy": ploidy, "n_haplotypes": n_haps, "genotype": list(bad[0]), "calling_cached": bad[1], "pedigree_cached": bad[2],
                           "fresh": bad[3], "pass": bad[4], "n_genotypes_cached": len(genos)}, "C09/dict-cache/served-value")

    # ------------------------------------------------------------------ (ii-c) one pedigree cache shared by samples of different ploidy
    for trial in range({"warm": 1, "quick": 6, "thorough": 40}[tier]):
        big = trial % 3 == 1          # 300 haplotypes x 3 samples: large genotype indices under several sample indices
        n_haps = 300 if big else r.choice([3, 4, 5]); nb = 10 if big else 3
        seen, haps = set(), []
        for _ in range(60 if not big else 6000):
            h = tuple(r.randrange(2) for _ in range(nb))
            if h not in seen:
                seen.add(h); haps.append(h)
            if len(haps) == n_haps:
                break
        harr = np.array(haps, dtype=np.int8); n_haps = len(haps)
        ploidies = [r.choice([2, 3, 4, 6]) for _ in range(r.randint(3, 5))] if not big else r.sample([2, 4, 6, 8], 3)
        if trial % 2 == 0:
            ploidies.sort(reverse=True)
        per_sample = [G.gen_reads(r, [2] * nb, r.randint(1, 6), haps=[list(haps[0]), list(haps[-1])], gap=0.1, style="encoded") for _ in ploidies]
        pc = ped_cache_factory(ped_cached, per_sample[0][0], per_sample[0][1], harr)
        if pc is None:
            chk.count("ped-shared-cache:key-type-unknown")
            break
        if big:
            todo = sorted({(s_, tuple(sorted(r.randrange(n_haps) for _ in range(pl)))) for s_, pl in enumerate(ploidies) for _ in range(150)}
                          | {(s_, tuple(sorted([r.randrange(n_haps)] + [r.randrange(n_haps - 3, n_haps) for _ in range(pl - 1)])))
                             for s_, pl in enumerate(ploidies) for _ in range(80)})
            # the same genotype index under every sample index of that ploidy class is the interesting collision: equal ploidies share genotypes
            todo += [(s2, g) for (s1, g) in list(todo)[:200] for s2, pl2 in enumerate(ploidies) if pl2 == len(g) and s2 != s1]
            chk.count("ped-shared-cache:300-haplotypes")
        else:
            todo = [(s_, g) for s_, pl in enumerate(ploidies) for g in itertools.combinations_with_replacement(range(n_haps), pl)]
        bad = None
        for rnd in range(2):
            r.shuffle(todo)
            for s_, g in todo:
                arr = np.array(g, dtype=np.int64)
                rd, ct = per_sample[s_]
                want = float(log_likelihood_alleles(rd, ct, harr, arr))
                got = float(ped_cached(rd, ct, harr, s_, arr, pc))
                if bad is None and not C.close_log(got, want):
                    bad = {"sample": s_, "ploidies": ploidies, "n_haplotypes": n_haps, "genotype": list(g), "served": got, "fresh": want, "pass": rnd}
        chk.count("ped-shared-cache")
        chk.case(("ped-shared-cache", tuple(ploidies), n_haps), len(set(ploidies)) > 1)
        if bad is not None:
            chk.violation("the pedigree likelihood cache serves one sample the likelihood of another sample / genotype "
                          "(one cache shared by samples of different ploidy)", bad, "C09/pedigree/shared-cache-served-value")

    # ------------------------------------------------------------------ (ii-d) jitted pedigree allele updates on a caller-supplied cache, audited
    # mixed-ploidy family, samples without reads, read rows permuted (zero-count rows before positive-count rows)
    from mchap.pedigree import mcmc as pmcmc
    from mchap.jitutils import index_as_genotype_alleles
    base_tau = {"T": (2, 2), "D": (1, 1), "C": (2, 1), "E": (1, 1), "K": (1, 1)}
    base_par = {"T": (None, None), "D": (None, None), "C": ("T", "D"), "E": (None, None), "K": ("D", "E")}
    for trial in range({"warm": 1, "quick": 6, "thorough": 50}[tier]):
        nb = r.randint(1, 3); n_alleles = [2] * nb
        haps = []
        for _ in range(30):
            h = G.gen_haplotype(r, n_alleles)
            if h not in haps:
                haps.append(h)
            if len(haps) == 4:
                break
        if len(haps) < 2:
            continue
        harr = np.array(haps, dtype=np.int8); n = len(haps)
        names = list(base_tau); r.shuffle(names)
        pos = {nm: i for i, nm in enumerate(names)}
        N = len(names)
        tau = np.array([base_tau[nm] for nm in names], dtype=np.int64)
        pl = tau.sum(axis=1); mp = int(pl.max())
        par = np.array([[-1 if q is None else pos[q] for q in base_par[nm]] for nm in names], dtype=np.int64)
        n_reads = [r.choice([0, 1, 2, 3, 4, 5, 6]) for _ in range(N)]
        R = max(1, max(n_reads) + r.randint(0, 2))
        dists = np.full((N, R, nb, 2), np.nan); cnts = np.zeros((N, R), dtype=np.int64)
        geno = np.full((N, mp), -2, dtype=np.int64)
        interleaved = 0
        for s_ in range(N):
            geno[s_, :pl[s_]] = [r.randrange(n) for _ in range(pl[s_])]
            rd, ct = G.gen_reads(r, n_alleles, n_reads[s_], haps=[haps[a] for a in geno[s_, :pl[s_]]], gap=0.0, style="encoded")
            dists[s_, :n_reads[s_]] = rd; cnts[s_, :n_reads[s_]] = ct
            for k in range(R):
                if cnts[s_, k] == 0 and r.random() < 0.5:     # a legal read observed 0 times
                    dists[s_, k] = G.gen_reads(r, n_alleles, 1, haps=None, gap=0.0, style="encoded")[0][0]
            perm = list(range(R)); r.shuffle(perm)
            dists[s_] = dists[s_][perm].copy(); cnts[s_] = cnts[s_][perm].copy()
            p_ = np.where(cnts[s_] > 0)[0]
            interleaved += int(len(p_) > 0 and bool((cnts[s_, :p_[-1]] == 0).any()))
        cache = ped_cache_factory(ped_cached, dists[0], cnts[0], harr)
        if cache is None:
            chk.count("ped-updates:key-type-unknown")
            break
        children = pmcmc.sample_children_matrix(par)
        lam = np.zeros((N, 2)); err = np.full((N, 2), 0.05); logf = np.log(np.full(n, 1.0 / n))
        z = lambda: np.zeros(mp, dtype=np.int64)
        case = {"order": names, "ploidies": [int(x) for x in pl], "n_reads": n_reads, "read_counts": cnts.tolist(), "haplotypes": haps,
                "genotypes": geno.tolist()}
        failed = None
        for fn_name in ("gibbs_probabilities", "metropolis_hastings_probabilities"):
            fn = getattr(pmcmc, fn_name)
            for s_ in range(N):
                for a_ in range(int(pl[s_])):
                    try:
                        fn(s_, a_, geno, pl, par, children, tau, lam, err, dists, cnts, harr, logf, cache, z(), z(), z(), z(), z(), z(), z(), np.zeros(mp))
                    except Exception as e:    # noqa: BLE001
                        failed = (fn_name, s_, a_, repr(e)[:300])
                        break
                if failed:
                    break
            if failed:
                break
        chk.count("ped-updates:jitted"); chk.count(f"ped-updates:samples-with-interleaved-rows={min(interleaved, 3)}{'+' if interleaved > 3 else ''}")
        if 0 in n_reads:
            chk.count("ped-updates:sample-without-reads")
        chk.case(("ped-updates", trial, tuple(names), tuple(n_reads)), interleaved > 0)
        if failed:
            chk.violation(f"pedigree {failed[0]} raised on a valid family", {**case, "target": failed[1], "allele_index": failed[2], "error": failed[3]},
                          "C09/pedigree/updates-raise")
            continue
        n_entries = 0
        for key, v in cache.items():
            if not (isinstance(key, tuple) and len(key) == 2):
                chk.count("ped-updates:flat-key(entries not decoded)")
                break
            s_, gi = int(key[0]), int(key[1])
            if s_ < 0:
                continue
            n_entries += 1
            al = index_as_genotype_alleles(gi, int(pl[s_]))
            idx = cnts[s_] > 0
            fresh = float(log_likelihood(dists[s_][idx], harr[al], read_counts=cnts[s_][idx]))
            if not C.close_log(float(v), fresh):
                p_ = np.where(cnts[s_] > 0)[0]
                rows = bool(len(p_) > 0 and (cnts[s_, :p_[-1]] == 0).any())
                chk.violation("after Gibbs / MH allele updates the pedigree likelihood cache holds, under (sample, genotype), a value that is not the "
                              "likelihood of that genotype given that sample's positive-count reads",
                              {**case, "sample": s_, "alleles": al.tolist(), "cached": float(v), "fresh": fresh,
                               "zero_count_row_before_a_positive_one": rows},
                              "C09/pedigree/served-value-read-rows" if rows else "C09/pedigree/update-cache-entry")
                break
        chk.extra.setdefault("ped_update_entries", []).append(n_entries)

    # ------------------------------------------------------------------ (iv) `mchap assemble` with the cache disabled (-1) / always on (0), tempered
    if tier != "warm":
        cli_cache_runs(chk, r, tier)

    # ------------------------------------------------------------------ (iii) monitored plain-Python runs
    scale = {"warm": 0.4, "quick": 1.0, "thorough": 6.0}[tier]
    try:
        p = subprocess.run([sys.executable, "-W", "ignore", "-m", "harness.c09_nojit", str(C.seed()), str(scale)],
                           cwd=C.VERIF, env=C.subprocess_env({"NUMBA_DISABLE_JIT": "1"}), capture_output=True, text=True, timeout=1500)
    except subprocess.TimeoutExpired:
        raise C.Infra("no-JIT monitor run timed out")
    if p.returncode != 0:
        # the monitored plain-Python run drives the implementation's own samplers: an exception there comes from the code under
        # test (or from an interface this harness can no longer drive) - a broken correspondence, not a failure of the machinery
        raise C.ProgramAbort("no-JIT monitor run failed: " + p.stderr[-800:])
    res = json.loads(p.stdout.strip().splitlines()[-1])
    for k in ("assemble", "calling", "pedigree", "swap"):
        for e in res[k]:
            chk.count(f"nojit:{k}")
            chk.case(("nojit", k, json.dumps(e, sort_keys=True)), k != "assemble" or (e.get("hits", 0) > 0 and (e.get("flushes", 0) > 0 or e.get("growths", 0) > 0)))
    chk.extra["nojit_assemble"] = res["assemble"][:6]
    for b in res["bad"]:
        where = b["where"]
        if b.get("zero_count_row_before_a_positive_one") and where.startswith("pedigree/served-value"):
            chk.violation("the pedigree sampler is served / caches a likelihood that is not the likelihood of that sample's positive-count reads "
                          "(a sample whose zero-count read rows are not all at the tail of its row of the read array)", b,
                          "C09/pedigree/served-value-read-rows")
        elif "mixed ploidy" in where:
            chk.violation("the pedigree sampler is served a likelihood that is not the likelihood of that sample's genotype and own reads "
                          "(pedigree with individuals of different ploidy sharing the cache)", b, "C09/pedigree/served-value-mixed-ploidy")
        elif where.startswith("pedigree/swap-cache-entry") or where.startswith("pedigree/served-value"):
            sig = "C09/pedigree/swap-read-mask" if True else None
            chk.violation("pedigree likelihood cache holds / serves a value that is not the likelihood of that sample's own reads "
                          "(the parental allele swap masks the second parent's reads with the first parent's read counts)", b, sig)
        elif "trajectory" in where:
            chk.violation("the sampled trajectory depends on the cache (" + where + ")", b, "C09/cache-trajectory")
        else:
            chk.violation("a cached / carried likelihood differs from the freshly computed one (" + where + ")", b, "C09/" + where.split(" ")[0])
    return chk.finish()
