"""entry point: ./check Cxx quick|thorough|warm | --replay <file>"""
import hashlib
import importlib
import json
import os
import subprocess
import sys
import time
import traceback

from . import common


def supervise(prop, argv):
    """Run the check in a child interpreter; if the child dies abnormally (e.g. a segfault inside the
    jitted code under test) report that as a violation instead of vanishing."""
    t0 = time.time()
    r = subprocess.run([sys.executable, "-W", "ignore", "-m", "harness.main", "--child", *argv], cwd=common.VERIF)
    if r.returncode in (0, 1, 2):
        return r.returncode
    broken = None
    if r.returncode == 5:
        try:
            broken = json.loads((common.CACHE / f"broken_{prop}.json").read_text())
        except Exception:
            broken = {"exception": "unknown"}
    journal = common.CACHE / f"journal_{prop}.jsonl"
    entries = []
    try:
        entries = [json.loads(l) for l in journal.read_text().splitlines() if l.strip()]
    except Exception:
        pass
    start = next((e for e in entries if e.get("start")), {})
    audit = next((e["audit"] for e in entries if "audit" in e), None)
    viols = [e for e in entries if "violation" in e]
    crumbs = [e for e in entries if "breadcrumb" in e]
    tier = start.get("tier", os.environ.get("VERIF_TIER", "quick"))
    payload = {"property": prop, "kind": "implementation-crashed-the-interpreter", "exit_status": r.returncode,
               "note": "the check's interpreter died (signal / abnormal exit) while exercising the implementation; "
                       "violations journalled before the crash and the last breadcrumb are listed",
               **({"kind": "correspondence-broken", "correspondence": f"harness.{prop.lower()} (model vs implementation differential run)",
                   "broken_at": broken,
                   "note": "the correspondence check could not drive the implementation (its interface or types changed): the "
                           "property is no longer shown to hold on this tree; violations journalled before the break are listed"}
                  if broken is not None else {}),
               "violations_before_crash": viols[:5], "last_breadcrumb": crumbs[-1] if crumbs else None,
               "seed": common.seed(), "tier": tier, "repo": common.repo_git_state(),
               "replay_cmd": f"./check {prop} --replay <this file>"}
    d = common.REPLAYS / prop
    d.mkdir(parents=True, exist_ok=True)
    blob = json.dumps(payload, indent=1, sort_keys=True, default=str)
    name = hashlib.sha1(blob.encode()).hexdigest()[:12] + ".json"
    (d / name).write_text(blob)
    found = bool(viols or crumbs) if broken is None else bool(viols)
    print(f"VIOLATION property={prop} replay=replays/{prop}/{name}" + ("" if found else " no-failing-input-found"))
    ev = {"property_id": prop, "tier": tier if tier in ("quick", "thorough") else "quick", "seed": common.seed(), "level": "proof",
          "coverage": {"obligations": max(1, (audit or {}).get("obligations", start.get("theorems", 1))),
                       "discharged": max(1, (audit or {}).get("discharged", 1)) if audit else 1,
                       "checker_cmd": (audit or {}).get("cmd", "cd lean && lake build"),
                       "trusted_base": common.TRUSTED_BASE,
                       "evaluations": len(entries), "distinct_nontrivial": 0,
                       "rule": "the check's interpreter crashed while exercising the implementation; see the replay file",
                       "samples": [payload["last_breadcrumb"] or payload["kind"]]},
          "assumptions": ["this run did not complete: the implementation under test crashed the interpreter"],
          "wall_s": round(time.time() - t0, 2), "violations": 1}
    common.EVIDENCE.mkdir(exist_ok=True)
    (common.EVIDENCE / f"{prop}.json").write_text(json.dumps(ev, indent=1, default=str))
    print(f"[{prop}] interpreter exited with status {r.returncode} -> exit 1")
    return 1


def main(argv):
    child = False
    if argv and argv[0] == "--child":
        child = True
        argv = argv[1:]
    if len(argv) < 2:
        print("usage: ./check Cxx quick|thorough|warm | ./check Cxx --replay <file>")
        return 2
    prop, mode = argv[0], argv[1]
    replay = None
    if mode == "--replay":
        if len(argv) < 3:
            print("missing replay file")
            return 2
        replay = json.loads(open(argv[2]).read())
        mode = replay.get("tier", "quick")
        if "seed" in replay:
            os.environ["VERIF_SEED"] = str(replay["seed"])
    if mode not in ("quick", "thorough", "warm"):
        print(f"unknown tier {mode}")
        return 2
    os.environ["VERIF_TIER"] = mode
    if prop == "all":
        rc = 0
        for i in range(1, 21):
            p = f"C{i:02d}"
            try:
                importlib.import_module(f"harness.{p.lower()}")
            except ModuleNotFoundError:
                continue
            import subprocess
            r = subprocess.run([str(common.VERIF / "check"), p, mode])
            rc = max(rc, r.returncode)
        return rc
    if not child:
        return supervise(prop, argv)
    try:
        common.setup_numba_cache()
        mod = importlib.import_module(f"harness.{prop.lower()}")
        return mod.run(mode, replay)
    except common.Infra as e:
        print(f"INFRA-FAILURE property={prop}: {e}")
        return 2
    except Exception as e:
        traceback.print_exc()
        drift = interface_drift(e)
        if drift is not None:
            # the harness could not drive the implementation (signature, type or name changed under it): the
            # correspondence no longer checks.  That is reported as a violation without a failing input
            # (unless one was journalled before), never as an infrastructure failure.
            try:
                (common.CACHE / f"broken_{prop}.json").write_text(json.dumps(drift, default=str))
            except OSError:
                pass
            return 5
        print(f"INFRA-FAILURE property={prop}: unexpected exception in the harness")
        return 2


def interface_drift(exc):
    """details of an exception that comes from calling into the implementation, else None"""
    repo = str(common.REPO)
    frames = traceback.extract_tb(exc.__traceback__)
    mod = type(exc).__module__ or ""
    text = f"{type(exc).__name__}: {exc}"
    in_repo = [f for f in frames if f.filename.startswith(repo)]
    harness_frames = [f for f in frames if "/harness/" in f.filename]
    named = isinstance(exc, (ImportError, AttributeError)) and "mchap" in str(exc)
    verif = str(common.VERIF)
    foreign = bool(frames) and not frames[-1].filename.startswith(verif)    # raised by code the harness called into
    # Every unexpected exception of a harness run is treated as a broken correspondence: failures of the machinery
    # itself (build, time-outs, missing tools) are raised as common.Infra, and what is left is the harness failing
    # to drive the implementation — also when the innermost Python frame is the harness line calling it (errors
    # raised by compiled dispatchers have no frame of their own).
    _ = (in_repo, named, foreign)
    at = harness_frames[-1] if harness_frames else None
    return {"exception": text[:2000],
            "harness_location": f"{at.filename}:{at.lineno} ({at.name}): {at.line}" if at else None,
            "implementation_frames": [f"{f.filename}:{f.lineno} ({f.name})" for f in in_repo[-5:]]}


if __name__ == "__main__":
    sys.exit(main(sys.argv[1:]))
