"""entry point: ./check Cxx quick|thorough|warm | --replay <file>"""
import importlib
import json
import os
import sys
import traceback

from . import common


def main(argv):
    if len(argv) < 2:
        print("usage: ./check Cxx quick|thorough|warm | ./check Cxx --replay <file>")
        return 2
    prop, mode = argv[0], argv[1]
    replay = None
    if mode == "--replay":
        if len(argv) < 3:
            print("missing replay file")
            return 2
        replay = json.loads(open(argv[2]).read())
        mode = replay.get("tier", "quick")
        if "seed" in replay:
            os.environ["VERIF_SEED"] = str(replay["seed"])
    if mode not in ("quick", "thorough", "warm"):
        print(f"unknown tier {mode}")
        return 2
    os.environ["VERIF_TIER"] = mode
    if prop == "all":
        rc = 0
        for i in range(1, 21):
            p = f"C{i:02d}"
            try:
                importlib.import_module(f"harness.{p.lower()}")
            except ModuleNotFoundError:
                continue
            import subprocess
            r = subprocess.run([str(common.VERIF / "check"), p, mode])
            rc = max(rc, r.returncode)
        return rc
    try:
        common.setup_numba_cache()
        mod = importlib.import_module(f"harness.{prop.lower()}")
        return mod.run(mode, replay)
    except common.Infra as e:
        print(f"INFRA-FAILURE property={prop}: {e}")
        return 2
    except Exception:
        traceback.print_exc()
        print(f"INFRA-FAILURE property={prop}: unexpected exception in the harness")
        return 2


if __name__ == "__main__":
    sys.exit(main(sys.argv[1:]))
