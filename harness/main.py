"""entry point: ./check Cxx quick|thorough|warm | --replay <file>"""
import hashlib
import importlib
import json
import os
import subprocess
import sys
import time
import traceback

from . import common


def supervise(prop, argv):
    """Run the check in a child interpreter; if the child dies abnormally (e.g. a segfault inside the
    jitted code under test) report that as a violation instead of vanishing."""
    t0 = time.time()
    r = subprocess.run([sys.executable, "-W", "ignore", "-m", "harness.main", "--child", *argv], cwd=common.VERIF)
    if r.returncode in (0, 1, 2):
        return r.returncode
    journal = common.CACHE / f"journal_{prop}.jsonl"
    entries = []
    try:
        entries = [json.loads(l) for l in journal.read_text().splitlines() if l.strip()]
    except Exception:
        pass
    start = next((e for e in entries if e.get("start")), {})
    audit = next((e["audit"] for e in entries if "audit" in e), None)
    viols = [e for e in entries if "violation" in e]
    crumbs = [e for e in entries if "breadcrumb" in e]
    tier = start.get("tier", os.environ.get("VERIF_TIER", "quick"))
    payload = {"property": prop, "kind": "implementation-crashed-the-interpreter", "exit_status": r.returncode,
               "note": "the check's interpreter died (signal / abnormal exit) while exercising the implementation; "
                       "violations journalled before the crash and the last breadcrumb are listed",
               "violations_before_crash": viols[:5], "last_breadcrumb": crumbs[-1] if crumbs else None,
               "seed": common.seed(), "tier": tier, "repo": common.repo_git_state(),
               "replay_cmd": f"./check {prop} --replay <this file>"}
    d = common.REPLAYS / prop
    d.mkdir(parents=True, exist_ok=True)
    blob = json.dumps(payload, indent=1, sort_keys=True, default=str)
    name = hashlib.sha1(blob.encode()).hexdigest()[:12] + ".json"
    (d / name).write_text(blob)
    found = bool(viols or crumbs)
    print(f"VIOLATION property={prop} replay=replays/{prop}/{name}" + ("" if found else " no-failing-input-found"))
    ev = {"property_id": prop, "tier": tier if tier in ("quick", "thorough") else "quick", "seed": common.seed(), "level": "proof",
          "coverage": {"obligations": max(1, (audit or {}).get("obligations", start.get("theorems", 1))),
                       "discharged": max(1, (audit or {}).get("discharged", 1)) if audit else 1,
                       "checker_cmd": (audit or {}).get("cmd", "cd lean && lake build"),
                       "trusted_base": common.TRUSTED_BASE,
                       "evaluations": len(entries), "distinct_nontrivial": 0,
                       "rule": "the check's interpreter crashed while exercising the implementation; see the replay file",
                       "samples": [payload["last_breadcrumb"] or payload["kind"]]},
          "assumptions": ["this run did not complete: the implementation under test crashed the interpreter"],
          "wall_s": round(time.time() - t0, 2), "violations": 1}
    common.EVIDENCE.mkdir(exist_ok=True)
    (common.EVIDENCE / f"{prop}.json").write_text(json.dumps(ev, indent=1, default=str))
    print(f"[{prop}] interpreter exited with status {r.returncode} -> exit 1")
    return 1


def main(argv):
    child = False
    if argv and argv[0] == "--child":
        child = True
        argv = argv[1:]
    if len(argv) < 2:
        print("usage: ./check Cxx quick|thorough|warm | ./check Cxx --replay <file>")
        return 2
    prop, mode = argv[0], argv[1]
    replay = None
    if mode == "--replay":
        if len(argv) < 3:
            print("missing replay file")
            return 2
        replay = json.loads(open(argv[2]).read())
        mode = replay.get("tier", "quick")
        if "seed" in replay:
            os.environ["VERIF_SEED"] = str(replay["seed"])
    if mode not in ("quick", "thorough", "warm"):
        print(f"unknown tier {mode}")
        return 2
    os.environ["VERIF_TIER"] = mode
    if prop == "all":
        rc = 0
        for i in range(1, 21):
            p = f"C{i:02d}"
            try:
                importlib.import_module(f"harness.{p.lower()}")
            except ModuleNotFoundError:
                continue
            import subprocess
            r = subprocess.run([str(common.VERIF / "check"), p, mode])
            rc = max(rc, r.returncode)
        return rc
    if not child:
        return supervise(prop, argv)
    try:
        common.setup_numba_cache()
        mod = importlib.import_module(f"harness.{prop.lower()}")
        return mod.run(mode, replay)
    except common.Infra as e:
        print(f"INFRA-FAILURE property={prop}: {e}")
        return 2
    except Exception:
        traceback.print_exc()
        print(f"INFRA-FAILURE property={prop}: unexpected exception in the harness")
        return 2


if __name__ == "__main__":
    sys.exit(main(sys.argv[1:]))
