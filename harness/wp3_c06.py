"""WP3 additions to C06 (read extraction): input shapes that only exist in the application glue.

`substr_stream`  hand-built BAMs whose sample names / read-group IDs / read names are substrings of each other, two read names
                 only (>= 3 alignments per name), `encode_sample_reads` with and without base phred scores.
`shapes_stream`  synthetic data sets pushed through the real `assemble` / `call-exact` argument parsers and programs:
                 --bam as paths / list file / `sample<TAB>path` pairs (one sample out of a multi-sample file), CRAM input,
                 soft-masked FASTA, targets BED gzipped / with '#' lines / with 3 columns, --variants with split multi-allelic
                 sites, indel / MNP records, a deletion starting before the window and ALT '.' records; extraction through the
                 LocusPrior of `call-exact` (SNVs = haplotype column differences, unlisted base = no call).
All expectations come from the ReadSpecs of the data set (`c06.oracle_rows` / `oracle_stats`) and from the text written here.
"""
from __future__ import annotations

import gzip
import os
import shutil

from . import common as C
from . import synth as S
from . import c06 as B

MCMC = ["--mcmc-steps", "100", "--mcmc-burn", "50"]


# --------------------------------------------------------------------------------------
# substrings / many alignments per name / phred scores
# --------------------------------------------------------------------------------------

def substr_stream(ctx, r, work, tier):
    from mchap.application import baseclass

    chk = ctx.chk
    n = {"warm": 2, "quick": 70, "thorough": 700}[tier]
    d = os.path.join(work, "substr")
    os.makedirs(d, exist_ok=True)
    for i in range(n):
        few = i % 2 == 0
        contigs, loc, rgs, specs, thr = B.hand_case(r, substr=True, few_names=few)
        bam = S.write_bam(os.path.join(d, "s.bam"), contigs, specs, rgs)
        ml = B.make_mlocus(loc, contigs)
        per_name = {}
        for s in specs:
            if B.overlaps(s, loc.contig, loc.start, loc.stop):
                per_name[(s.rg, s.qname)] = per_name.get((s.rg, s.qname), 0) + 1
        chk.count("substr:names-with->=3-overlapping-alignments", sum(1 for v in per_name.values() if v >= 3))
        # every single key of either field, given as a plain string (a substring test instead of equality would leak rows)
        field = r.choice(["SM", "ID"])
        keys = sorted({g[field] for g in rgs})
        for k in keys:
            o = B.Opts(field, max(0, thr + r.choice([-1, 0, 1])), r.random() < 0.5, r.random() < 0.5, r.random() < 0.5,
                       k if r.random() < 0.6 else [k])
            B.check_extract(ctx, "substr", bam, None, specs, rgs, loc, ml, o, contigs)
        for o in B.option_grid(r, rgs, thr, 2):
            B.check_extract(ctx, "substr", bam, None, specs, rgs, loc, ml, o, contigs)
        use_phred = i % 4 < 2
        err_rate = r.choice([0.0024, 0.5, 0.0] if use_phred else [0.0024, 0.5, 0.75])
        pools = {"P1": [(r.choice(keys), bam)], "P2": [(k, bam) for k in r.sample(keys, min(len(keys), r.choice([1, 2, 3])))]}
        prog = baseclass.program(
            vcf=None, ref=None, samples=list(pools), sample_bams=pools, sample_ploidy={}, sample_inbreeding={},
            read_group_field=field, base_error_rate=err_rate, ignore_base_phred_scores=not use_phred,
            mapping_quality=max(0, thr + r.choice([-1, 0, 1])), skip_duplicates=r.random() < 0.5,
            skip_qcfail=r.random() < 0.5, skip_supplementary=r.random() < 0.5, info_fields=[], format_fields=[])
        chk.count(f"substr:encode:phred={use_phred}")
        B.check_encode(ctx, "substr", prog, ml, loc, pools, {bam: (specs, rgs, contigs)}, err_rate, use_phred, {})
        if i % 20 == 19:
            ctx.flush()
    ctx.flush()
    shutil.rmtree(d, ignore_errors=True)


# --------------------------------------------------------------------------------------
# shapes of the program inputs
# --------------------------------------------------------------------------------------

def to_cram(bam, cram, fasta):
    import pysam

    with pysam.AlignmentFile(bam) as f, pysam.AlignmentFile(cram, "wc", header=f.header, reference_filename=fasta) as out:
        for a in f.fetch(until_eof=True):
            out.write(a)
    pysam.index(cram)
    return cram


def vcf_header(contigs):
    return ["##fileformat=VCFv4.2", '##FILTER=<ID=PASS,Description="All filters passed">'] + \
        [f"##contig=<ID={c},length={len(s)}>" for c, s in contigs.items()] + ["#CHROM\tPOS\tID\tREF\tALT\tQUAL\tFILTER\tINFO"]


def shaped_variants(r, ds, with_dot):
    """VCF text with the SNVs of the data set in awkward but valid shapes; returns (text, expected loci, dot positions)

    expected locus = (positions, alleles) the property's "listed alleles" refer to: single-base records only, the ALTs of
    records sharing a POS merged in file order."""
    order = {c: i for i, c in enumerate(ds.contigs)}
    recs = []        # (contig index, pos, serial, contig, ref, alt-string)
    dots = set()
    kinds = {}

    def add(c, p, ref, alt, kind):
        recs.append((order[c], p, r.random(), c, ref, alt))
        kinds[kind] = kinds.get(kind, 0) + 1

    for l in ds.loci:
        seq = ds.contigs[l.contig]
        free = [q for q in range(l.start, l.stop) if q not in l.snv_positions]
        for p, als in zip(l.snv_positions, l.snv_alleles):
            if len(als) > 2 and r.random() < 0.7:
                alts = list(als[1:])
                if r.random() < 0.5:                       # one record per ALT
                    for a in alts:
                        add(l.contig, p, als[0], a, "split-multiallelic")
                else:                                       # 1 + (n-1), sharing an ALT between the records
                    add(l.contig, p, als[0], alts[0], "split-multiallelic")
                    add(l.contig, p, als[0], ",".join(alts[1:] + ([alts[0]] if r.random() < 0.5 else [])), "split-multiallelic")
            else:
                add(l.contig, p, als[0], ",".join(als[1:]), "snv")
            if r.random() < 0.3 and p + 2 <= len(seq):     # an indel record at the POS of an SNV
                add(l.contig, p, seq[p:p + 2], seq[p], "deletion-at-snv-pos")
        k = r.randint(1, 3)
        if l.start - k >= 0 and r.random() < 0.8:           # deletion that starts before the window and reaches into it
            q = l.start - k
            add(l.contig, q, seq[q:q + k + 2], seq[q], "deletion-from-before-window")
        for q in r.sample(free, min(len(free), 3)):
            u = r.random()
            if u < 0.3 and q + 2 <= len(seq):
                add(l.contig, q, seq[q:q + 2], r.choice([b for b in "ACGT" if b != seq[q]]) + r.choice([b for b in "ACGT" if b != seq[q + 1]]), "mnp")
            elif u < 0.55:
                add(l.contig, q, seq[q], seq[q] + r.choice("ACGT"), "insertion")
            elif u < 0.8 and q + 3 <= len(seq):
                add(l.contig, q, seq[q:q + 3], seq[q], "deletion")
            elif with_dot:
                add(l.contig, q, seq[q], ".", "alt-missing")
                dots.add((l.contig, q))
    recs.sort(key=lambda t: (t[0], t[1], t[2]))
    text = "\n".join(vcf_header(ds.contigs) + [f"{c}\t{p + 1}\t.\t{ref}\t{alt}\t.\tPASS\t." for _, p, _, c, ref, alt in recs]) + "\n"
    expected = []
    for l in ds.loci:
        pos, als = [], {}
        for _, p, _, c, ref, alt in recs:
            if c != l.contig or not (l.start <= p < l.stop) or len(ref) != 1 or alt == "." or any(len(a) != 1 for a in alt.split(",")):
                continue
            if p not in als:
                pos.append(p)
                als[p] = [ref]
            for a in alt.split(","):
                if a not in als[p]:
                    als[p].append(a)
        expected.append((pos, [als[p] for p in pos]))
    return text, expected, dots, kinds


def header_keys(rgs, field):
    out = []
    for g in rgs:
        if g[field] not in out:
            out.append(g[field])
    return out


def same_snvs(got, want):
    """same positions; per position the same set of listed alleles without repeats, the reference allele first
    (the numbering of the other alleles is not part of the property)"""
    return [p for p, _ in got] == [p for p, _ in want] and \
        all(a[0] == b[0] and sorted(a) == sorted(b) and len(set(a)) == len(a) for (_, a), (_, b) in zip(got, want))


def same_selection(samples, pools, exp_samples, exp_pools):
    """the same samples, each read from the same (sample key, file) pairs; the order is not part of the property"""
    return sorted(samples) == sorted(exp_samples) and sorted(pools) == sorted(exp_pools) and \
        all(sorted(pools[k]) == sorted(exp_pools[k]) for k in pools)


def pool_rows(files, members, loc, o):
    """char rows of a (pooled) sample per the property, straight from the ReadSpecs"""
    rows = []
    for name, path in members:
        specs, rgs, _ = files[path]
        oo = B.Opts(o.id_field, o.minq, o.skip_dup, o.skip_qc, o.skip_supp, samples=name)
        rws, _ = B.oracle_rows(specs, rgs, loc, oo)
        rows += list(rws.get(name, {}).values())
    return rows


def check_cli_records(ctx, stream, out, exp_samples, exp_pools, files, targets, o, case, with_model=True):
    """FORMAT RCOUNT / DP / SNVDP / RCALLS and INFO/SNVPOS of program output against the ReadSpecs (and the model).

    targets: [(contig, start, stop, HLocus)] in output order."""
    chk = ctx.chk
    header, recs = S.parse_vcf_text(out)
    cols = S.vcf_sample_names(header)
    if sorted(cols) != sorted(exp_samples):
        chk.violation("the sample columns are not the samples selected by the --bam argument",
                      {**case, "columns": cols, "expected": list(exp_samples)}, f"C06/{stream}/sample-columns")
        return
    if [(x["CHROM"], x["POS"]) for x in recs] != [(c, a + 1) for c, a, _, _ in targets]:
        chk.violation("the program did not print one record per target, in order",
                      {**case, "records": [(x["CHROM"], x["POS"]) for x in recs], "targets": [(c, a, b) for c, a, b, _ in targets]},
                      f"C06/{stream}/records")
        return
    for rec, (c, a, b, loc) in zip(recs, targets):
        want_pos = ",".join(str(p - a + 1) for p in loc.snv_positions) or "."
        if rec["INFO"].get("SNVPOS", ".") != want_pos:
            chk.violation("INFO/SNVPOS is not the list of SNVs of the target",
                          {**case, "target": [c, a, b], "impl": rec["INFO"].get("SNVPOS"), "expected": want_pos},
                          f"C06/{stream}/snvpos")
            continue
        for sname, colsd in zip(rec["sample_names"], rec["samples"]):
            members = exp_pools[sname]
            impl = (colsd.get("RCOUNT"), colsd.get("DP"), colsd.get("SNVDP"), colsd.get("RCALLS"))
            rc, dpx, sdp, rcl, _ = B.oracle_stats(pool_rows(files, members, loc, o), loc)
            exp = (str(rc), "." if dpx is None else str(dpx), ",".join(str(x) for x in sdp) or ".", str(rcl))
            cc = {**case, "target": [c, a, b], "sample": sname, "members": [(n, os.path.basename(p)) for n, p in members]}
            chk.count(f"{stream}:cli-sample-columns")
            if impl != exp:
                chk.violation("FORMAT RCOUNT/DP/SNVDP/RCALLS are not the counts of the filtered pileup",
                              {**cc, "impl": impl, "expected": exp}, "C06/assemble/format-fields" if stream == "shapes"
                              else f"C06/{stream}/format-fields")
            if not with_model:
                continue
            toks = ["c06.sample"] + B.tok_locus(loc.contig, loc.start, loc.stop, loc.snv_positions, loc.snv_alleles) \
                + o.tokens() + [C.rat_str(0.0024), "-", str(len(members))]
            for name, path in members:
                specs, rgs, md_ref = files[path]
                toks += [B._name(name)] + B.tok_hdr(rgs) + B.tok_reads(specs, md_ref)
            line = " ".join(toks)

            def cb(model, impl=impl, line=line, cc=cc):
                m = B.parse_sample_reply(model)
                chk.case(line, isinstance(m, dict) and m["rcount"] > 0)
                if isinstance(m, str):
                    chk.disagreement("the program printed a record but the model raises", {**cc, "model": m})
                    return
                mm = (str(m["rcount"]), "." if m["dp"] is None else str(m["dp"]),
                      ",".join(str(x) for x in m["snvdp"]) or ".", str(m["rcalls"]))
                if mm != impl:
                    chk.disagreement("FORMAT fields != model", {**cc, "impl": impl, "model": mm})
            ctx.ask(line, cb)


def shapes_stream(ctx, r, work, tier):
    from mchap.application.assemble import program as AsmProgram
    from mchap.application.call_exact import program as ExactProgram

    chk = ctx.chk
    n = {"warm": 1, "quick": 6, "thorough": 48}[tier]
    n_cli = {"warm": 1, "quick": 3, "thorough": 16}[tier]
    for i in range(n):
        d = os.path.join(work, f"shape{i}")
        feats = {f for f in sorted(S.ALL_FEATURES) if r.random() < 0.5}
        if i % 2 == 0:
            feats.add("multi_rg")
        substr = i % 2 == 1
        soft = [0.0, 0.6, 1.0][i % 3]
        ds = S.make_dataset(r, d, n_samples=3, n_loci=3, ploidies=(2, 4), max_snvs=4, depth=(3, 9), read_len=(15, 60),
                            features=feats, n_contigs=r.choice([1, 2]), contig_len=360,
                            sample_names=["S1", "S10", "S1x"] if substr else None, softmask=soft)
        files = {p: (ds.reads[p], ds.read_groups[p], ds.contigs) for p in ds.bams}
        aln = list(ds.bams)
        cram = i % 3 == 1
        if cram:
            aln = []
            for p in ds.bams:
                cp = to_cram(p, p[:-4] + ".cram", ds.fasta)
                files[cp] = files[p]
                aln.append(cp)
        # ---- options of the read filters (parsed by the real parser)
        minq = r.choice([0, 1, 19, 20, 21, 30])
        o = B.Opts("ID" if i % 4 == 3 else "SM", minq, r.random() < 0.5, r.random() < 0.5, r.random() < 0.5)
        ropts = ["--mapping-quality", str(minq)]
        if not o.skip_dup:
            ropts.append("--keep-duplicate-reads")
        if not o.skip_qc:
            ropts.append("--keep-qcfail-reads")
        if not o.skip_supp:
            ropts.append("--keep-supplementary-reads")
        if o.id_field == "ID":
            ropts += ["--read-group-field", "ID"]
        err_rate = r.choice([0.0024, 0.01, 0.25])
        use_phred = r.random() < 0.4
        ropts += ["--base-error-rate", repr(err_rate)] + (["--use-base-phred-scores"] if use_phred else [])
        # ---- --bam: paths | list file | sample<TAB>path pairs (a subset of the samples, one out of a shared file)
        form = ["pairs", "list", "paths"][i % 3]
        per_file = [(p, header_keys(files[p][1], o.id_field)) for p in aln]
        if form == "pairs":
            allp = [(k, p) for p, ks in per_file for k in ks]
            chosen = [x for x in allp if r.random() < 0.6] or [allp[0]]
            if "multi_rg" in feats and o.id_field == "SM":
                chosen = [x for x in chosen if x[0] != ds.samples[1]]       # S1 without its file-mate S2 / S10
                if all(x[0] != ds.samples[0] for x in chosen):
                    chosen.insert(0, (ds.samples[0], per_file[0][0]))
            r.shuffle(chosen)
            bam_args = [S.write_text(os.path.join(d, "bams.tsv"), "".join(f"{k}\t{p}\n" for k, p in chosen))]
            exp_samples = [k for k, _ in chosen]
            exp_pools = {k: [(k, p)] for k, p in chosen}
        else:
            order = list(range(len(aln)))
            r.shuffle(order)
            exp_samples = [k for j in order for k in per_file[j][1]]
            exp_pools = {k: [(k, per_file[j][0])] for j in order for k in per_file[j][1]}
            bam_args = [aln[j] for j in order] if form == "paths" else \
                [S.write_text(os.path.join(d, "bams.txt"), "".join(aln[j] + "\n" for j in order))]
        pooled = form != "pairs" and r.random() < 0.25
        if pooled:
            exp_pools = {"POOL": [m for k in exp_samples for m in exp_pools[k]]}
            exp_samples = ["POOL"]
        ploidy = ds.ploidy_file if (o.id_field == "SM" and not pooled) else r.choice(["2", "4"])
        # ---- --targets: gzip / '#' lines / 3 columns
        bed_gz, bed_comment, bed_cols = r.random() < 0.5, r.random() < 0.6, r.choice([3, 4])
        lines = [f"{l.contig}\t{l.start}\t{l.stop}" + (f"\t{l.name}" if bed_cols == 4 else "") + "\n" for l in ds.loci]
        if bed_comment:
            lines.insert(0, "#chrom\tstart\tend\n")
            lines.insert(r.randint(1, len(lines)), "# a comment between two targets\n")
        bed = os.path.join(d, "shaped.bed" + (".gz" if bed_gz else ""))
        if bed_gz:
            with gzip.open(bed, "wt") as f:
                f.write("".join(lines))
        else:
            S.write_text(bed, "".join(lines))
        # ---- --variants
        with_dot = i % 2 == 0
        text, exp_loci, dots, kinds = shaped_variants(r, ds, with_dot)
        vcf = S.bgzip_tabix_vcf(S.write_text(os.path.join(d, "shaped.vcf"), text))
        for k, v in kinds.items():
            chk.count(f"shapes:variants:{k}", v)
        for key in (f"--bam={form}", f"cram={cram}", f"softmask={soft}", f"bed-gzip={bed_gz}", f"bed-comment={bed_comment}",
                    f"bed-columns={bed_cols}", f"field={o.id_field}", f"substring-sample-names={substr}", f"pooled={pooled}"):
            chk.count("shapes:" + key)
        case = {"stream": "shapes", "features": sorted(feats), "bam_form": form, "cram": cram, "softmask": soft,
                "bed": "".join(lines)[:300], "bed_gzip": bed_gz, "field": o.id_field, "samples": exp_samples, "read_options": ropts}

        def build(vcf_path):
            argv = ["mchap", "assemble", "--bam", *bam_args, "--ploidy", ploidy, "--targets", bed, "--variants", vcf_path,
                    "--reference", ds.fasta, *ropts] + (["--sample-pool", "POOL"] if pooled else [])
            return argv, AsmProgram.cli(argv)

        try:
            argv, prog = build(vcf)
        except Exception as e:  # noqa: BLE001
            chk.violation("the assemble argument parser rejected a consistent input", {**case, "error": S.exception_chain(e)[:400]},
                          "C06/assemble/arguments-abort")
            shutil.rmtree(d, ignore_errors=True)
            continue
        got_pools = {k: [tuple(m) for m in v] for k, v in prog.sample_bams.items()}
        if not same_selection(prog.samples, got_pools, exp_samples, exp_pools):
            chk.violation("--bam (paths / list file / sample-path pairs): the samples and the file each is read from are not "
                          "the ones specified", {**case, "impl_samples": list(prog.samples),
                                                 "impl_files": {k: [(n_, os.path.basename(p)) for n_, p in v] for k, v in got_pools.items()}},
                          "C06/bam-argument/samples")
            shutil.rmtree(d, ignore_errors=True)
            continue
        try:
            mloci = list(prog.loci())
        except Exception as e:  # noqa: BLE001
            msg = S.exception_chain(e)[:400]
            if with_dot and isinstance(e, TypeError):
                chk.violation("a --variants record without ALT ('.') inside a target makes Locus.set_variants raise "
                              "(mchap assemble aborts) instead of skipping the monomorphic record",
                              {**case, "error": msg, "records": sorted(dots)[:5]}, "C06/set_variants/alt-missing-record-crash")
                text2 = "\n".join(x for x in text.split("\n") if x and (x.startswith("#") or not x.endswith("\t.\t.\tPASS\t."))) + "\n"
                vcf = S.bgzip_tabix_vcf(S.write_text(os.path.join(d, "shaped_nodot.vcf"), text2))
                argv, prog = build(vcf)
                mloci = list(prog.loci())
                dots = set()
            else:
                chk.violation("program.loci() raised on consistent targets / variants", {**case, "error": msg},
                              "C06/assemble/loci-abort")
                shutil.rmtree(d, ignore_errors=True)
                continue
        # ---- a second record at the position of an SNV whose REF is not the reference base (records of one position are merged):
        # the disagreement must be reported, the stated base never used as an allele
        cands = [(l, p_, a_) for l in ds.loci for p_, a_ in zip(l.snv_positions, l.snv_alleles)]
        if cands:
            l_, p_, a_ = r.choice(cands)
            true_ref = ds.contigs[l_.contig][p_]
            wrong = r.choice([b for b in "ACGT" if b != true_ref.upper()])
            alt_ = r.choice([b for b in "ACGT" if b not in (true_ref.upper(), wrong)])
            body = [x for x in text.split("\n") if x]
            hdr_, recs_ = [x for x in body if x.startswith("#")], [x for x in body if not x.startswith("#")]
            extra = f"{l_.contig}\t{p_ + 1}\t.\t{wrong}\t{alt_}\t.\tPASS\t."
            key = lambda x: (list(ds.contigs).index(x.split("\t")[0]), int(x.split("\t")[1]))   # noqa: E731
            last = max(i for i, x in enumerate(recs_) if key(x) == key(extra))
            recs_.insert(last + 1, extra)
            if with_dot:
                recs_ = [x for x in recs_ if not x.endswith("\t.\t.\tPASS\t.")]
            vcf3 = S.bgzip_tabix_vcf(S.write_text(os.path.join(d, "shaped_conflict.vcf"), "\n".join(hdr_ + recs_) + "\n"))
            chk.count("shapes:variants:second-record-with-a-REF-that-is-not-the-reference-base")
            try:
                _, prog3 = build(vcf3)
                ml3 = list(prog3.loci())
                used = [list(a) for m in ml3 if m.name == l_.name or (m.contig, m.start) == (l_.contig, l_.start)
                        for q, a in zip(m.positions, m.alleles) if q == p_]
                chk.violation("two --variants records of one position disagree about the reference base (one of them with the FASTA "
                              "too) and no error is reported" + ("; the stated base is used as an allele" if any(wrong in a for a in used) else ""),
                              {**case, "position": [l_.contig, p_], "fasta_base": true_ref, "stated_ref": wrong, "alleles_used": used},
                              "C06/set_variants/reference-conflict-not-reported")
            except Exception:  # noqa: BLE001
                chk.count("shapes:reference-conflict-reported")
        # ---- the loci the program will use
        targets = []
        bad = len(mloci) != len(ds.loci)
        for ml, l, (pos, als) in zip(mloci, ds.loci, exp_loci):
            # an ALT-less single-base record may be skipped or kept as an SNV with the single allele REF
            got = [(p, list(a)) for p, a in zip(ml.positions, ml.alleles)]
            want = [(p, a) for p, a in zip(pos, als)]
            got_nodot = [(p, a) for p, a in got if not ((l.contig, p) in dots and a == [ds.contigs[l.contig][p]])]
            ok = (ml.contig, ml.start, ml.stop, ml.name if bed_cols == 4 else l.name) == (l.contig, l.start, l.stop, l.name) and \
                ml.sequence == ds.contigs[l.contig][l.start:l.stop] and same_snvs(got_nodot, want) and \
                [p for p, _ in got] == sorted(p for p, _ in got)
            if not ok:
                bad = True
                chk.violation("the locus used for extraction is not the BED window with the single-base records of --variants "
                              "(ALTs of records sharing a POS merged, indel / MNP records skipped)",
                              {**case, "target": [l.contig, l.start, l.stop], "impl": [ml.contig, ml.start, ml.stop, ml.name, got],
                               "expected": want}, "C06/assemble/loci")
                continue
            loc = B.HLocus(l.name, l.contig, l.start, l.stop, [p for p, _ in got], [a for _, a in got])
            targets.append((l.contig, l.start, l.stop, loc))
            B.check_encode(ctx, "shapes", prog, ml, loc, prog.sample_bams, files, err_rate, use_phred,
                           {"features": sorted(feats), "argv": argv[2:]})
        ctx.flush()
        if not bad and i < n_cli:
            out, code, err = S.run_program(argv + MCMC + ["--report", "SNVDP"])
            chk.count("shapes:cli-assemble")
            if code != 0:
                chk.violation("mchap assemble failed on a consistent dataset", {**case, "error": err[:500]}, "C06/assemble/spurious-error")
            else:
                check_cli_records(ctx, "shapes", out, exp_samples, exp_pools, files, targets, o, case)
            ctx.flush()
        prior_case(ctx, r, ds, d, files, bam_args, exp_samples, exp_pools, ploidy, pooled, ropts, o, err_rate, use_phred, case,
                   run_cli=i < n_cli, ExactProgram=ExactProgram)
        ctx.flush()
        shutil.rmtree(d, ignore_errors=True)


def prior_case(ctx, r, ds, d, files, bam_args, exp_samples, exp_pools, ploidy, pooled, ropts, o, err_rate, use_phred, case, run_cli,
               ExactProgram):
    """extraction through the LocusPrior of call-exact: the SNVs are the columns in which the haplotypes differ"""
    chk = ctx.chk
    lines = vcf_header(ds.contigs)
    exp = []
    for l in ds.loci:
        ref = ds.contigs[l.contig][l.start:l.stop]
        cands = []
        for s in ds.samples:
            for h in ds.truth[s][l.name]:
                if h != ref and h not in cands:
                    cands.append(h)
        for _ in range(2):                                   # haplotypes nobody carries
            h = list(ref)
            for p, als in zip(l.snv_positions, l.snv_alleles):
                h[p - l.start] = r.choice(als)
            if "".join(h) != ref and "".join(h) not in cands:
                cands.append("".join(h))
        r.shuffle(cands)
        alts = cands[:r.choice([0, 1, 2, 3, 5])]             # usually not all of them: reads then carry unlisted bases
        lines.append(f"{l.contig}\t{l.start + 1}\t{l.name}\t{ref}\t{','.join(alts) or '.'}\t.\tPASS\t.")
        cols = [j for j in range(len(ref)) if any(h[j] != ref[j] for h in alts)]
        alleles = []
        for j in cols:
            a = []
            for h in [ref] + alts:
                if h[j] not in a:
                    a.append(h[j])
            alleles.append(a)
        exp.append((l, [l.start + j for j in cols], alleles))
        unlisted = sum(1 for p, als in zip(l.snv_positions, l.snv_alleles) if p - l.start not in cols or
                       len(als) > len(alleles[cols.index(p - l.start)]))
        chk.count("prior:snvs-with-unlisted-alleles", unlisted)
    hgz = S.bgzip_tabix_vcf(S.write_text(os.path.join(d, "haps.vcf"), "\n".join(lines) + "\n"))
    argv = ["mchap", "call-exact", "--bam", *bam_args, "--ploidy", ploidy, "--haplotypes", hgz, "--reference", ds.fasta, *ropts] + \
        (["--sample-pool", "POOL"] if pooled else [])
    pc = {**case, "stream": "prior", "haplotypes": lines[-len(ds.loci):]}
    try:
        prog = ExactProgram.cli(argv)
        lps = list(prog.loci())
    except Exception as e:  # noqa: BLE001
        chk.violation("call-exact rejected a consistent input", {**pc, "error": S.exception_chain(e)[:400]}, "C06/call-exact/abort")
        return
    if not same_selection(prog.samples, {k: [tuple(m) for m in v] for k, v in prog.sample_bams.items()}, exp_samples, exp_pools):
        chk.violation("--bam (call-exact): the samples and the file each is read from are not the ones specified",
                      {**pc, "impl_samples": list(prog.samples)}, "C06/bam-argument/samples")
        return
    targets = []
    bad = len(lps) != len(exp)
    for lp, (l, pos, alleles) in zip(lps, exp):
        got = [(int(p), list(a)) for p, a in zip(lp.positions, lp.alleles)]
        if (lp.contig, lp.start, lp.stop) != (l.contig, l.start, l.stop) or not same_snvs(got, list(zip(pos, alleles))):
            bad = True
            chk.violation("LocusPrior: the SNVs used for extraction are not the columns in which the haplotypes differ "
                          "(listed alleles = the bases of the haplotypes in that column, REF first)", {**pc, "target": l.name, "impl": got, "expected": list(zip(pos, alleles))},
                          "C06/locus-prior/snv-columns")
            continue
        loc = B.HLocus(l.name, l.contig, l.start, l.stop, [p for p, _ in got], [a for _, a in got])
        targets.append((l.contig, l.start, l.stop, loc))
        chk.count("prior:loci")
        B.check_encode(ctx, "prior", prog, lp, loc, prog.sample_bams, files, err_rate, use_phred, {"argv": argv[2:]})
    ctx.flush()
    if run_cli and not bad:
        out, code, err = S.run_program(argv + ["--report", "SNVDP"])
        chk.count("prior:cli-call-exact")
        if code != 0:
            chk.violation("mchap call-exact failed on a consistent dataset", {**pc, "error": err[:500]}, "C06/call-exact/spurious-error")
        else:
            check_cli_records(ctx, "prior", out, exp_samples, exp_pools, files, targets, o, pc)


def extra_streams(ctx, work, tier):
    substr_stream(ctx, C.rng("C06:wp3-substr"), work, tier)
    shapes_stream(ctx, C.rng("C06:wp3-shapes"), work, tier)
