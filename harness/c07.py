"""C07 — output VCF records are well-formed and internally consistent.

Correspondence / oracles:

* the four calling programs run in-process on synthetic datasets (loci without SNVs, a (sample, locus) pair without
  reads, a locus whose reference haplotype is absent, mixed ploidy through the ploidy file, zero-prior alleles through
  ``--prior-frequencies``) x random subsets of ``--report``; every emitted line goes through the Lean validator
  (`vcf.check`), through an independent Python evaluation of the property statement (`py_validate`) and through
  ``pysam.VariantFile``; the internal values handed to the record formatter are captured (patched
  ``LocusAssemblyData.format_vcf_record``) and every numeric field of the text must read back as the model's
  3-decimal rendering of the internal value;
* input shapes of the application glue (`extra_streams`): a fabricated haplotype VCF with 130-200 ALT haplotypes (true haplotypes
  listed last) through call / call-pedigree; assemble with --haplotype-posterior-threshold 1.0 / 0.01 on shallow noisy data
  (FILTER NOA records, 50-180 ALTs) fed to the three callers; --filter-input-haplotypes on a PF-annotated file (expected ALTs,
  SNVPOS / NVAR, REFMASKED derived from the retained alleles); ploidies 1 / 3 / 8 and --ploidy as an integer; --bam list files,
  --sample-pool (name / file), --read-group-field ID, a pedigree member without a BAM; BED3 (ID '.'), gzipped BED, --region
  with / without --region-id, a target starting at POS=1, two contigs;
* unit-level: the code's ``vcfstr``, GT formatting / sorting, ``sumarise_vcf_record``, the G-array producers and
  ``relabel`` against the model on generated inputs.

The signatures of the repaired defects F3 (`C07/assemble/GP-refmasked-crash`) and F4 (`C07/call/relabel-n-alleles`)
stay armed: the unit-level checks call `_genotype_posterior_as_array` / `relabel` the way the programs do and fall back
to the old signatures, the program level runs GP on REFMASKED loci and zero priors on the last allele.

A program that raises on a valid dataset violates C07 ("every line written ... is a valid record" presupposes that the
record is written); crashes are reported with the exception chain.
"""
from __future__ import annotations

import copy
import json
import math
import os
import pickle
import re
import shutil
import tempfile
from fractions import Fraction

import numpy as np

from . import common as C
from . import synth as S

PROP = "C07"
MODULE = "MCHap.Properties.C07"
THEOREMS = [
    "MCHap.C07.validRecord_sound",
    "MCHap.C07.gt_wellformed",
    "MCHap.C07.cardinality_ok",
    "MCHap.C07.alt_differs_only_at_snvs",
    "MCHap.C07.counts_recomputed",
    "MCHap.C07.float_sums_recomputed",
    "MCHap.C07.summarise_recompute",
    "MCHap.C07.summarise_total",
    "MCHap.C07.gArray_length",
    "MCHap.C07.callGArray_length",
    "MCHap.C07.assembleGP_length",
    "MCHap.C07.gpArraySize_default_partial",
    "MCHap.C07.assembleGP_no_IndexError",
    "MCHap.C07.relabel_nAllele",
    "MCHap.C07.relabel_default_nAllele_partial",
    "MCHap.C07.formatGT_sorted_dots_last",
    "MCHap.C07.genotypeAsAlleles_perm",
    "MCHap.C07.round3_error",
    "MCHap.C07.sum_round_tolerance",
]
RULE = ("cases: every record line printed by assemble / call / call-exact / call-pedigree on generated datasets x random "
        "--report subsets, plus the glue streams (large panels, NOA / many ALTs, allele filter, ploidy 1/3/8 and integer, bam lists, pools, "
        "read-group ID, BAM-less pedigree member, BED3 / gz / --region / POS=1 / two contigs) (+ generated inputs of vcfstr, GT formatting, sumarise_vcf_record, G-array producers). "
        "Non-trivial record: >= 2 ALT and an optional R- or G-length field present. Distinct by the record text "
        "without the command line.")

SIG_F3 = "C07/assemble/GP-refmasked-crash"
SIG_F4 = "C07/call/relabel-n-alleles"

INFO_OPT = ["AFPRIOR", "ACP", "AFP", "AOP", "AOPSUM", "SNVDP"]
FORMAT_OPT = ["ACP", "AFP", "AOP", "GP", "GL", "SNVDP"]
MCMC = ["--mcmc-steps", "300", "--mcmc-burn", "100"]


# --------------------------------------------------------------------------------------
# header / request encoding
# --------------------------------------------------------------------------------------

_DECL = re.compile(r"^##(INFO|FORMAT)=<ID=([^,]+),Number=([^,]+),Type=([^,]+),")
_FILT = re.compile(r"^##FILTER=<ID=([^,>]+)")


def parse_header(lines):
    H = {"INFO": {}, "FORMAT": {}, "FILTER": [], "samples": []}
    for l in lines:
        m = _DECL.match(l)
        if m:
            H[m.group(1)][m.group(2)] = (m.group(3), m.group(4))
            continue
        m = _FILT.match(l)
        if m:
            H["FILTER"].append(m.group(1))
        if l.startswith("#CHROM"):
            H["samples"] = l.split("\t")[9:]
    return H


def header_token(H):
    parts = [f"I:{k}:{n}:{t}" for k, (n, t) in H["INFO"].items()]
    parts += [f"F:{k}:{n}:{t}" for k, (n, t) in H["FORMAT"].items()]
    parts += [f"X:{f}" for f in H["FILTER"]]
    return ",".join(parts)


def snv_token(snvs):
    return ",".join(f"{p}:{''.join(a)}" for p, a in snvs) if snvs else "-"


def check_request(htok, ploidies, refwin, snvs, line):
    return " ".join(["vcf.check", htok, ",".join(str(p) for p in ploidies), refwin or "?", snv_token(snvs)]
                    + line.split("\t"))


def sendable(line):
    cols = line.split("\t")
    return len(cols) >= 10 and all(c != "" and " " not in c for c in cols)


# --------------------------------------------------------------------------------------
# independent evaluation of the property statement on one record (Python, Fractions)
# --------------------------------------------------------------------------------------

_INT = re.compile(r"^-?(0|[1-9][0-9]*)$")
_DEC = re.compile(r"^-?(0|[1-9][0-9]*)(\.[0-9]+)?$")
_NONFIN = re.compile(r"^-?(inf|infinity|nan)$", re.I)


def _ncr(n, k):
    return math.comb(n, k) if 0 <= k <= n else 0


def n_genotypes(n_alleles, ploidy):
    return _ncr(n_alleles + ploidy - 1, ploidy)


def expected_card(number, n_alt, ploidy):
    if number == "A":
        return n_alt
    if number == "R":
        return n_alt + 1
    if number == "G":
        return n_genotypes(n_alt + 1, ploidy)
    if number == ".":
        return None
    return int(number)


def _type_ok(t, v):
    if t == "Integer":
        return v == "." or bool(_INT.match(v))
    if t == "Float":
        return v == "." or bool(_DEC.match(v)) or bool(_NONFIN.match(v))
    if t == "Flag":
        return False
    return v != ""


def _num(v):
    """'.' -> None, decimal -> Fraction; raises on anything else"""
    if v == ".":
        return None
    if not _DEC.match(v):
        raise ValueError(v)
    return Fraction(v)


def _bcast(f, a, b):
    g = lambda x, y: None if (x is None or y is None) else f(x, y)
    if len(a) == len(b):
        return [g(x, y) for x, y in zip(a, b)]
    if len(a) == 1:
        return [g(a[0], y) for y in b]
    if len(b) == 1:
        return [g(x, b[0]) for x in a]
    raise ValueError("broadcast")


def _sum_rows(rows):
    acc = rows[0]
    for r in rows[1:]:
        acc = _bcast(lambda x, y: x + y, acc, r)
    return acc


def _null_if_all_nan(n, v):
    return [None] * n if all(x is None for x in v) else v


SLACK = Fraction(1, 10 ** 9)


def py_validate(H, rec, ploidies, refwin, snvs):
    """{conjunct: [messages]} of the failed conjuncts (same conjunct names as the Lean validator)"""
    bad = {}

    def fail(c, msg):
        bad.setdefault(c, []).append(msg)

    n_alt = len(rec["ALT"])
    fmt = rec["FORMAT"]
    # ---- FILTER
    fl = rec["FILTER"].split(";")
    if not all(f == "PASS" or f in H["FILTER"] for f in fl):
        fail("filter", rec["FILTER"])
    # ---- keys, cardinality, type
    for k, v in rec["INFO"].items():
        d = H["INFO"].get(k)
        if d is None:
            fail("keys-cardinality-type", f"INFO/{k} undeclared")
            continue
        num, typ = d
        if v is True:
            if not (typ == "Flag" and num == "0"):
                fail("keys-cardinality-type", f"INFO/{k} without value")
            continue
        vals = v.split(",")
        if typ == "Flag" or num == "G":
            fail("keys-cardinality-type", f"INFO/{k} flag/G with value")
        exp = expected_card(num, n_alt, 0) if num != "G" else None
        if vals != ["."] and ((exp is not None and len(vals) != exp) or len(vals) < 1):
            fail("keys-cardinality-type", f"INFO/{k} has {len(vals)} values, expected {exp}")
        if not all(_type_ok(typ, x) for x in vals):
            fail("keys-cardinality-type", f"INFO/{k} type {typ}: {v}")
    if len(rec["samples"]) != len(ploidies):
        fail("keys-cardinality-type", "number of sample columns")
        fail("gt", "number of sample columns")
    cols = rec["line"].split("\t")[9:]
    for i, (col, p) in enumerate(zip(cols, ploidies)):
        fields = col.split(":")
        if len(fields) != len(fmt):
            fail("keys-cardinality-type", f"sample {i}: {len(fields)} fields for {len(fmt)} keys")
        for k, v in zip(fmt, fields):
            d = H["FORMAT"].get(k)
            if d is None:
                fail("keys-cardinality-type", f"FORMAT/{k} undeclared")
                continue
            num, typ = d
            vals = v.split(",")
            exp = expected_card(num, n_alt, p)
            if vals != ["."] and ((exp is not None and len(vals) != exp) or len(vals) < 1):
                fail("keys-cardinality-type", f"sample {i} FORMAT/{k} has {len(vals)} values, expected {exp} (n_alt={n_alt}, ploidy={p})")
            if typ == "Flag" or not all(_type_ok(typ, x) for x in vals):
                fail("keys-cardinality-type", f"sample {i} FORMAT/{k} type {typ}: {v[:60]}")
    # ---- GT
    gts = []
    for i, (col, p) in enumerate(zip(cols, ploidies)):
        g = col.split(":")[0]
        ok = bool(fmt) and fmt[0] == "GT"
        ent = g.split("/")
        parsed = []
        for e in ent:
            if e == ".":
                parsed.append(None)
            elif _INT.match(e) and not e.startswith("-"):
                parsed.append(int(e))
            else:
                ok = False
        if ok:
            called = [a for a in parsed if a is not None]
            k = len(called)
            ok = (len(parsed) == p and all(a <= n_alt for a in called) and called == sorted(called)
                  and all(a is not None for a in parsed[:k]) and all(a is None for a in parsed[k:]))
        if not ok:
            fail("gt", f"sample {i}: GT {g} (ploidy {p}, n_alt {n_alt})")
            gts = None
        elif gts is not None:
            gts.append(parsed)
    # ---- REF / ALT / SNVPOS
    ref = rec["REF"]
    info = rec["INFO"]

    def info_nats(k):
        v = info.get(k)
        if v is None or v is True:
            return None
        if v == ".":
            return []
        xs = v.split(",")
        if not all(_INT.match(x) and not x.startswith("-") for x in xs):
            return None
        return [int(x) for x in xs]

    if ref != refwin or not ref:
        fail("ref-alt-snv", "REF is not the reference sequence of [POS, END]")
    if info_nats("END") != [rec["POS"] + len(ref) - 1]:
        fail("ref-alt-snv", f"END={info.get('END')}")
    if info_nats("NVAR") != [len(snvs)]:
        fail("ref-alt-snv", f"NVAR={info.get('NVAR')} for {len(snvs)} input variants")
    if info_nats("SNVPOS") != [p for p, _ in snvs]:
        fail("ref-alt-snv", f"SNVPOS={info.get('SNVPOS')} expected {[p for p, _ in snvs]}")
    for p, als in snvs:
        if not (1 <= p <= len(ref)) or not als or ref[p - 1] != als[0]:
            fail("ref-alt-snv", f"input variant at {p} not on its reference base")
    at = {p: als for p, als in snvs}
    for alt in rec["ALT"]:
        if len(alt) != len(ref):
            fail("ref-alt-snv", "ALT length")
            continue
        for j, (a, b) in enumerate(zip(ref, alt)):
            if a != b and not (j + 1 in at and b in at[j + 1]):
                fail("ref-alt-snv", f"ALT differs from REF at offset {j + 1} by {b}")
    if len(set([ref] + rec["ALT"])) != 1 + n_alt:
        fail("ref-alt-snv", "duplicate alleles")
    # ---- integer counts
    def info_ints(k):
        v = info.get(k)
        if v is None or v is True:
            return None
        out = []
        for x in v.split(","):
            if x == ".":
                out.append(None)
            elif _INT.match(x):
                out.append(int(x))
            else:
                return None
        return out

    def sample_ints(k):
        if k not in fmt:
            return None
        j = fmt.index(k)
        out = []
        for col in cols:
            f = col.split(":")
            x = f[j] if j < len(f) else ""
            if x == ".":
                out.append(None)
            elif _INT.match(x):
                out.append(int(x))
            else:
                return None
        return out

    if gts is None:
        fail("counts", "GT columns unusable")
    else:
        called = [a for g in gts for a in g if a is not None]
        ac = [called.count(a) for a in range(1, n_alt + 1)]
        exp = {"AC": ac if n_alt else [None], "AN": [len(called)], "UAN": [len(set(called))],
               "NS": [sum(1 for g in gts if any(a is not None for a in g))]}
        mci = sample_ints("MCI")
        exp["MCI"] = None if mci is None else [sum(1 for x in mci if x is not None and x > 0)]
        dp = sample_ints("DP")
        exp["DP"] = None if dp is None else ([None] if not snvs else [sum(x for x in dp if x is not None)])
        rc = sample_ints("RCOUNT")
        exp["RCOUNT"] = None if rc is None else [sum(x for x in rc if x is not None)]
        for k, e in exp.items():
            if e is None or info_ints(k) != e:
                fail("counts", f"{k}={info.get(k)} expected {e}")
    # ---- float sums
    def sample_rats(k):
        if k not in fmt:
            return None
        j = fmt.index(k)
        return [[_num(x) for x in col.split(":")[j].split(",")] for col in cols]

    def info_rats(k):
        return [_num(x) for x in info[k].split(",")]

    def close_row(k, expected, tol):
        try:
            got = info_rats(k)
        except (ValueError, AttributeError):
            fail("float-sums", f"{k} unparsable")
            return
        ok = len(got) == len(expected) and all(
            (x is None and y is None) or (x is not None and y is not None and abs(x - y) <= tol)
            for x, y in zip(got, expected))
        if not ok:
            fail("float-sums", f"INFO/{k}={info[k]} expected {[None if x is None else float(x) for x in expected]} tol {float(tol)}")

    try:
        n = len(cols)
        P = sum(ploidies)
        rows, W = None, None
        if "ACP" in fmt:
            rows, W = sample_rats("ACP"), Fraction(n)
        elif "AFP" in fmt:
            rows = [[None if x is None else x * p for x in r] for r, p in zip(sample_rats("AFP"), ploidies)]
            W = Fraction(P)
        if rows is not None and "ACP" in info:
            close_row("ACP", _null_if_all_nan(n_alt + 1, _sum_rows(rows)), (W + 1) / 2000 + SLACK)
        if rows is not None and "AFP" in info:
            s = [None if x is None else x / P for x in _sum_rows(rows)]
            close_row("AFP", _null_if_all_nan(n_alt + 1, s), (W / P + 1) / 2000 + SLACK)
        if "AOP" in fmt:
            aop = sample_rats("AOP")
            if "AOPSUM" in info:
                close_row("AOPSUM", _null_if_all_nan(n_alt + 1, _sum_rows(aop)), Fraction(n + 1, 2000) + SLACK)
            if "AOP" in info:
                acc = [Fraction(1)] * (n_alt + 1)
                for r in aop:
                    acc = _bcast(lambda x, y: x * (1 - y), acc, r)
                close_row("AOP", [None if x is None else 1 - x for x in acc], Fraction(n + 1, 2000) + SLACK)
        if "SNVDP" in fmt and "SNVDP" in info:
            if not snvs:
                if info["SNVDP"] != ".":
                    fail("float-sums", "INFO/SNVDP without variants")
            else:
                close_row("SNVDP", _sum_rows(sample_rats("SNVDP")), 0)
    except ValueError as e:
        fail("float-sums", f"unusable sample arrays: {e}")
    # ---- decimals
    def dec_ok(v):
        return not _DEC.match(v) or "." not in v or len(v.split(".")[1]) <= 3

    for k, v in info.items():
        if v is not True and not all(dec_ok(x) for x in v.split(",")):
            fail("decimals", f"INFO/{k}={v}")
    for col in cols:
        for k, v in zip(fmt, col.split(":")):
            if k != "GT" and not all(dec_ok(x) for x in v.split(",")):
                fail("decimals", f"FORMAT/{k}={v[:60]}")
    return bad


LEAN_ORDER = ["filter", "keys-cardinality-type", "gt", "ref-alt-snv", "counts", "float-sums", "decimals"]


def first_failure(bad):
    for c in LEAN_ORDER:
        if c in bad:
            return "err:" + c
    return "ok"


# --------------------------------------------------------------------------------------
# context (reference window, input variants) of a record
# --------------------------------------------------------------------------------------

def ref_window(ds, rec):
    end = rec["INFO"].get("END")
    seq = ds.contigs.get(rec["CHROM"])
    if seq is None or not isinstance(end, str) or not end.isdigit():
        return ""
    return seq[rec["POS"] - 1:int(end)]


def snvs_window(ds, contig, start, stop):
    """the input variants inside a target window, as (1-based offset, alleles)"""
    out = []
    for l in ds.loci:
        if l.contig != contig:
            continue
        for p, a in zip(l.snv_positions, l.snv_alleles):
            if start <= p < stop:
                out.append((p - start + 1, list(a)))
    return sorted(out)


def snvs_from_haplotypes(in_rec):
    haps = [in_rec["REF"]] + in_rec["ALT"]
    out = []
    for j in range(len(haps[0])):
        col = []
        for h in haps:
            if j < len(h) and h[j] not in col:
                col.append(h[j])
        if len(col) > 1:
            out.append((j + 1, col))
    return out


# --------------------------------------------------------------------------------------
# capture of the internal values handed to the formatter
# --------------------------------------------------------------------------------------

class Capture:
    def __init__(self):
        self.records = []
        self._orig = None

    def __enter__(self):
        from mchap.application import baseclass
        cap = self
        self._cls = baseclass.LocusAssemblyData
        self._orig = self._cls.format_vcf_record

        def wrapped(data):
            cap.records.append({
                "info": {f.id: copy.deepcopy(data.infodata[f]) for f in data.infofields},
                "format": {f.id: [copy.deepcopy(data.sampledata[f].get(s)) for s in data.samples]
                           for f in data.formatfields},
                "id": data.locus.name,
                "key": (data.locus.contig, int(data.locus.start) + 1),
            })
            return cap._orig(data)

        self._cls.format_vcf_record = wrapped
        return self

    def __exit__(self, *a):
        self._cls.format_vcf_record = self._orig


def near_tie(x, dtype_eps):
    """is x*1000 within float noise of a rounding tie? (the exact model and np.round may then differ)"""
    y = abs(float(x)) * 1000.0
    frac = y - math.floor(y)
    return abs(frac - 0.5) <= max(1e-9, 8 * dtype_eps * max(1.0, y))


def neg_zero(x):
    """-0.0 has no exact-rational counterpart (the model prints "-0" only for a negative value that rounds to zero)"""
    return x == 0 and math.copysign(1.0, x) < 0


def readback_plan(obj, text):
    """How to compare one internal value with its printed text.

    returns None (not a numeric object), or (oracle_ok, request or None, skip positions, expected text):
    `oracle_ok` is the property evaluated directly (text within 1/2000 of the internal value, nan <-> '.'),
    `request` asks the model for its rendering (tie positions are sent as nan and skipped in the comparison)."""
    if isinstance(obj, (bool, np.bool_, str, dict, list, tuple)) or obj is None:
        return None
    if isinstance(obj, np.ndarray) and obj.ndim == 1 and np.issubdtype(obj.dtype, np.integer):
        want = ",".join(str(int(v)) for v in obj) if len(obj) else "."
        return (want == text, None, (), want)
    if isinstance(obj, (int, np.integer)):
        return (str(int(obj)) == text, None, (), str(int(obj)))
    scalar = isinstance(obj, (float, np.floating)) or (isinstance(obj, np.ndarray) and obj.ndim == 0)
    if not scalar and not (isinstance(obj, np.ndarray) and obj.ndim == 1 and np.issubdtype(obj.dtype, np.floating)):
        return None
    vals = [float(obj)] if scalar else [float(v) for v in obj]
    eps = 2.3e-16 if scalar or obj.dtype == np.float64 else float(np.finfo(obj.dtype).eps)
    if not vals:
        return (text == ".", None, (), ".")
    texts = text.split(",")
    ok = len(texts) == len(vals)
    if ok:
        for t, x in zip(texts, vals):
            if math.isnan(x):
                ok = ok and t == "."
            elif math.isinf(x):
                ok = ok and bool(_NONFIN.match(t))
            else:
                ok = ok and bool(_DEC.match(t)) and abs(Fraction(t) - Fraction(x)) <= Fraction(1, 2000) + SLACK * max(1, int(abs(x)))
    if any(math.isinf(x) for x in vals):
        return (ok, None, (), text)
    skip = tuple(i for i, x in enumerate(vals) if not math.isnan(x) and (near_tie(x, eps) or neg_zero(x)))
    cells = ["nan" if i in skip else C.cell_str(x) for i, x in enumerate(vals)]
    req = ("vcf.str s " if scalar else "vcf.str a ") + " ".join(cells)
    return (ok, req, skip, text)


# --------------------------------------------------------------------------------------
# runs
# --------------------------------------------------------------------------------------

def report_subset(r, force=()):
    """random subset of the optional fields, written as bare / INFO/ / FORMAT/ names"""
    names = []
    for f in sorted(set(INFO_OPT) | set(FORMAT_OPT)):
        u = r.random()
        if f in force or u < 0.45:
            both = f in INFO_OPT and f in FORMAT_OPT
            if both and u < 0.1 and f not in force:
                names.append(r.choice([f"INFO/{f}", f"FORMAT/{f}"]))
            else:
                names.append(f)
    return names


def add_prior_field(r, text, mode):
    """add INFO/PF (Number=R) to every record of a haplotype VCF: the prior frequencies for --prior-frequencies PF.

    returns (new text, {record id: [values]}).  Patterns per record: all positive / last zero / a middle allele
    zero / reference zero / all zero (mode "mixed" cycles through them record by record)."""
    out = []
    pf = {}
    seen = {}
    for line in text.split("\n"):
        if line.startswith("##FORMAT") and not any(l.startswith("##INFO=<ID=PF,") for l in out):
            out.append('##INFO=<ID=PF,Number=R,Type=Float,Description="prior frequencies (harness)">')
        if not line or line.startswith("#"):
            out.append(line)
            continue
        f = line.split("\t")
        n = 1 if f[4] == "." else 1 + len(f[4].split(","))
        vals = [r.choice([1, 2, 3, 5]) for _ in range(n)]
        if mode == "mixed":
            # deterministic cycle so that every pattern is met: multi-allele and single-allele records separately
            cyc = ["last0", "all0!", "mid0", "ref0", "positive"] if n >= 2 else ["positive", "all0!"]
            key = "multi" if n >= 2 else "single"
            seen[key] = seen.get(key, 0) + 1
            pat = cyc[(seen[key] - 1) % len(cyc)]
        else:
            pat = mode if mode != "random" else r.choice(["positive", "last0", "last0", "mid0", "ref0", "all0"])
        if pat == "last0" and n >= 2:
            vals[-1] = 0
        elif pat == "mid0" and n >= 3:
            vals[r.randrange(1, n - 1)] = 0
        elif pat == "ref0" and n >= 2:
            vals[0] = 0
        elif pat == "all0!" or (pat == "all0" and r.random() < 0.5):
            vals = [0] * n
        tot = sum(vals)
        txt = [("0" if v == 0 else f"{v / tot:.3f}".rstrip("0").rstrip(".")) if tot else "0" for v in vals]
        pf[f[2]] = [float(x) for x in txt]
        f[7] = f[7] + ";PF=" + ",".join(txt)
        out.append("\t".join(f))
    return "\n".join(out), pf


def locus_of_error(err):
    m = re.search(r"at locus: '([^']*)'", err)
    return m.group(1) if m else None


class Runner:
    def __init__(self, chk, drv, r, work):
        self.chk, self.drv, self.r, self.work = chk, drv, r, work
        self.n_runs = 0
        self.requests = []      # (request line, callback(answer))
        self.pysam_checked = 0

    def ask_later(self, req, cb):
        self.requests.append((req, cb))

    def flush(self):
        if not self.requests:
            return
        ans = self.drv.ask([q for q, _ in self.requests])
        for (q, cb), a in zip(self.requests, ans):
            cb(a)
        self.requests = []

    # ---- one program run
    def run(self, ds, program, argv, ploidies, in_records=None, prior=None, refmasked_ids=(), targets=None, stream=None, samples=None):
        """returns (header lines, records, exit code, error text)

        `in_records` (callers): the records the program is expected to re-call (CHROM/POS/REF/ALT are compared; with
        ``--filter-input-haplotypes`` the caller passes the records with the retained ALTs only).  `targets`
        (assemble): [(contig, start, stop, expected ID text)], by default the dataset's loci.  Records are matched by
        (CHROM, POS), so targets / input records without a name (ID '.') are fine."""
        chk = self.chk
        self.n_runs += 1
        if self.n_runs % 2 == 0 and "--ploidy" in argv and argv[argv.index("--ploidy") + 1] == ds.ploidy_file:
            # every second run reads the ploidies from a cohort-wide file that also lists samples outside the run
            argv = with_ploidy(argv, cohort_ploidy_file(ds, self.work, f"{id(ds) % 100000}"))
            chk.count("run:cohort-wide-ploidy-file")
        with open(os.path.join(self.work, "current_run.json"), "w") as f:
            json.dump({"program": program, "argv": argv}, f)
        with Capture() as cap:
            out, code, err = S.run_program(argv)
        cap_records = cap.records
        report = argv[argv.index("--report") + 1:] if "--report" in argv else []
        report = [x for x in report if not x.startswith("--")]
        tag = {"program": program, "report": report, "argv": [os.path.basename(a) if a.startswith(self.work) else a for a in argv],
               "ploidy": ds.ploidy, "seed": C.seed()}
        if stream:
            tag["stream"] = stream
            chk.count(f"stream:{stream}")
        chk.count(f"run:{program}")
        try:
            header, recs = S.parse_vcf_text(out)
        except ValueError as e:
            chk.violation(f"{program}: unparsable output ({e})", tag, f"C07/{program}/unparsable")
            return [], [], code, err
        H = parse_header(header)
        if samples is not None and header and H["samples"] != list(samples):
            chk.violation(f"{program}: the sample columns of the header are {H['samples']}, expected {list(samples)}", tag, f"C07/{program}/sample-columns")
            return header, recs, code, err
        if code != 0:
            chk.count(f"crash:{program}")
            loc = locus_of_error(err)
            sig = f"C07/{program}/crash"
            want_gp = any(x in ("GP", "FORMAT/GP") for x in report)
            want_afp = any(x.split("/")[-1] in ("ACP", "AFP", "AOP", "AOPSUM") for x in report)
            if program == "assemble" and want_gp and "IndexError" in err and loc in refmasked_ids:
                sig = SIG_F3
            elif program in ("call", "call-pedigree") and want_afp and prior is not None and loc in prior \
                    and len(prior[loc]) >= 2 and prior[loc][-1] == 0 and any(v > 0 for v in prior[loc]):
                sig = SIG_F4
            chk.violation(f"mchap {program} raised on a valid dataset: {err[:400]}",
                          {**tag, "error": err, "locus": loc, "prior": (prior or {}).get(loc),
                           "records_written": len(recs)}, sig)
        # ---- every emitted line
        htok = header_token(H)
        by_pos = {(x["CHROM"], x["POS"]): x for x in (in_records or [])}
        captured = {c["key"]: c for c in cap_records}
        if targets is None:
            targets = [(l.contig, l.start, l.stop, l.name) for l in ds.loci]
        tg_by_pos = {(c, a + 1): (c, a, b, n) for c, a, b, n in targets}
        for rec in recs:
            line = rec["line"]
            canon = [program, line]
            opt_rg = any(H["FORMAT"].get(k, ("", ""))[0] in ("R", "G") for k in rec["FORMAT"] if k in FORMAT_OPT) or \
                any(k in rec["INFO"] for k in ("ACP", "AFP", "AOP", "AOPSUM", "AFPRIOR"))
            nontriv = len(rec["ALT"]) >= 2 and opt_rg
            refwin = ref_window(ds, rec)
            if program == "assemble":
                tg = tg_by_pos.get((rec["CHROM"], rec["POS"]))
                if tg is None:
                    chk.violation(f"assemble printed a record for an unknown target {rec['ID']}", {**tag, "line": line}, "C07/assemble/unknown-target")
                    continue
                snvs = snvs_window(ds, tg[0], tg[1], tg[2])
                if rec["ID"] != tg[3] or rec["INFO"].get("END") != str(tg[2]):
                    chk.violation(f"assemble printed ID {rec['ID']} / END {rec['INFO'].get('END')} for the target {tg}",
                                  {**tag, "line": line, "target": list(tg)}, "C07/assemble/target-window")
            else:
                src = by_pos.get((rec["CHROM"], rec["POS"]))
                if src is None:
                    chk.violation(f"{program} printed a record absent from its input ({rec['ID']})", {**tag, "line": line}, f"C07/{program}/unknown-record")
                    continue
                snvs = snvs_from_haplotypes(src)
                if (rec["CHROM"], rec["POS"], rec["ID"], rec["REF"], rec["ALT"]) != (src["CHROM"], src["POS"], src["ID"], src["REF"], src["ALT"]):
                    chk.violation(f"{program} changed CHROM/POS/ID/REF/ALT of an input record (after the allele filter, if any)",
                                  {**tag, "line": line[:2000], "input": src["line"][:2000], "expected_alt": src["ALT"][:50]}, f"C07/{program}/alleles-copied")
                if "expect_refmasked" in src and (("REFMASKED" in rec["INFO"]) != src["expect_refmasked"]):
                    chk.violation(f"{program}: REFMASKED flag {'missing' if src['expect_refmasked'] else 'unexpected'}",
                                  {**tag, "line": line[:2000], "input": src["line"][:2000]}, f"C07/{program}/refmasked-flag")
            chk.count(f"n_alt={min(len(rec['ALT']), 5)}")
            chk.count("refmasked" if "REFMASKED" in rec["INFO"] else "ref-called")
            chk.count(f"filter={rec['FILTER']}")
            chk.count("snvs=0" if not snvs else "snvs>0")
            bad = py_validate(H, rec, ploidies, refwin, snvs)
            py_status = first_failure(bad)
            case = {**tag, "line": line, "ref_window": refwin, "snvs": [[p, "".join(a)] for p, a in snvs],
                    "ploidies": ploidies, "failed": bad}
            if not sendable(line):
                chk.violation("record with an empty or blank-containing column", case, f"C07/{program}/columns")
                continue
            req = check_request(htok, ploidies, refwin, snvs, line)

            def cb(ans, rec=rec, bad=bad, py_status=py_status, case=case, nontriv=nontriv, canon=canon, req=req):
                chk.case(canon, nontriv, sample={"request": req[:400], "impl_line_valid_py": py_status, "model": ans})
                if ans != py_status:
                    chk.disagreement(f"Lean validator says {ans}, Python evaluation of the property says {py_status}", {**case, "lean": ans})
                if bad:
                    self.classify_invalid(program, rec, bad, case, prior)

            self.ask_later(req, cb)
            # ---- internal values
            c = captured.get((rec["CHROM"], rec["POS"]))
            if c is not None:
                self.compare_internal(program, rec, c, case)
        # ---- pysam
        self.pysam_read(program, out, recs, tag, crashed=(code != 0))
        self.flush()
        if getattr(self, "state", None):
            dump_state(self.chk, self.state)
        return header, recs, code, err

    def classify_invalid(self, program, rec, bad, case, prior):
        chk = self.chk
        msgs = "; ".join(f"{k}: {v[0]}" for k, v in bad.items())
        sig = f"C07/{program}/" + first_failure(bad).split(":", 1)[1]
        card = " ".join(bad.get("keys-cardinality-type", []))
        if program == "assemble" and "REFMASKED" in rec["INFO"] and "FORMAT/GP" in card and set(bad) <= {"keys-cardinality-type"}:
            sig = SIG_F3
        pv = (prior or {}).get(rec["ID"])
        if program in ("call", "call-pedigree") and pv and len(pv) >= 2 and pv[-1] == 0 and any(v > 0 for v in pv) \
                and set(bad) <= {"keys-cardinality-type", "float-sums"} and re.search(r"(ACP|AFP|AOP|AOPSUM) has", card):
            sig = SIG_F4
        chk.violation(f"mchap {program} printed an invalid record ({msgs[:300]})", {**case, "prior": pv}, sig)

    def compare_internal(self, program, rec, cap, case):
        """numeric fields read back as the internal values rounded to three decimals"""
        chk = self.chk
        pairs = []
        for k, obj in cap["info"].items():
            if k in rec["INFO"] and rec["INFO"][k] is not True:
                pairs.append((f"INFO/{k}", obj, rec["INFO"][k]))
        for k, objs in cap["format"].items():
            if k == "GT":
                for i, (g, s) in enumerate(zip(objs, rec["samples"])):
                    want = "/".join(str(int(a)) if a >= 0 else "." for a in g)
                    req = "vcf.gtfmt " + " ".join(str(int(a)) for a in g)

                    def cbg(ans, s=s, want=want, i=i, g=g):
                        chk.count("gt-readback")
                        if not (ans == s.get("GT") == want):
                            chk.disagreement("GT text != model formatGT of the internal alleles",
                                             {**case, "sample": i, "internal": [int(a) for a in g], "text": s.get("GT"), "model": ans})
                    self.ask_later(req, cbg)
                continue
            for i, (obj, s) in enumerate(zip(objs, rec["samples"])):
                if k in s:
                    pairs.append((f"FORMAT/{k}[{i}]", obj, s[k]))
        for name, obj, text in pairs:
            plan = readback_plan(obj, text)
            if plan is None:
                chk.count(f"readback-not-numeric({type(obj).__name__})")
                continue
            ok, req, skip, want = plan
            chk.count("readback")
            if skip:
                chk.count("readback-tie-elements", len(skip))
            if not ok:
                chk.violation(f"{name} does not read back as the internal value rounded to 3 decimals",
                              {**case, "field": name, "text": text[:200], "internal": repr(obj)[:300]}, f"C07/{program}/readback")
                continue
            if req is None:
                continue

            def cbr(ans, name=name, text=text, skip=skip):
                m, t = ans.split(","), text.split(",")
                if len(m) != len(t) or any(x != y for i, (x, y) in enumerate(zip(m, t)) if i not in skip):
                    chk.disagreement(f"{name}: text != model rendering of the internal value", {**case, "field": name, "text": text[:200], "model": ans[:200]})
            self.ask_later(req, cbr)

    def pysam_read(self, program, out, recs, tag, crashed):
        import pysam
        chk = self.chk
        p = os.path.join(self.work, f"out{self.n_runs}.vcf")
        S.write_text(p, out)
        old = pysam.set_verbosity(0)
        try:
            with pysam.VariantFile(p) as f:
                names = list(f.header.samples)
                n = 0
                for rec, mine in zip(f, recs):
                    n += 1
                    self.pysam_checked += 1
                    ok = (rec.contig == mine["CHROM"] and rec.pos == mine["POS"] and rec.ref == mine["REF"]
                          and list(rec.alts or []) == mine["ALT"] and rec.stop == int(mine["INFO"].get("END", -1)))
                    for s, col in zip(names, mine["samples"]):
                        g = rec.samples[s]["GT"]
                        want = tuple(None if a == "." else int(a) for a in col["GT"].split("/"))
                        ok = ok and tuple(g) == want
                        for k in mine["FORMAT"]:
                            if k != "GT":
                                rec.samples[s][k]   # forces the typed decoding of every field
                    for k in mine["INFO"]:
                        if k != "END":      # pysam exposes END as record.stop only
                            rec.info[k]
                    if not ok:
                        chk.violation(f"pysam reads {program}'s record differently from the text", {**tag, "line": mine["line"]}, f"C07/{program}/pysam-differs")
                if n != len(recs):
                    chk.violation(f"pysam read {n} of {len(recs)} records of {program}", tag, f"C07/{program}/pysam-count")
        except Exception as e:   # noqa: BLE001
            if not (crashed and not recs):
                chk.violation(f"pysam.VariantFile rejects the output of {program}: {e!r}", {**tag, "error": repr(e)}, f"C07/{program}/pysam-rejects")
        finally:
            pysam.set_verbosity(old)


def pedigree_file(r, ds, work, k):
    """sample<TAB>parent<TAB>parent lines for the dataset's samples; parents precede children; gamete ploidies via a
    --gamete-ploidy file when a sample's ploidy is odd or its parents' ploidies ask for it"""
    lines = []
    taus = []
    for i, s in enumerate(ds.samples):
        cands = ds.samples[:i]
        p = r.choice(cands) if cands and r.random() < 0.8 else "."
        q = r.choice(cands) if cands and r.random() < 0.6 else "."
        lines.append(f"{s}\t{p}\t{q}")
        pl = ds.ploidy[s]
        taus.append(f"{s}\t{pl // 2}\t{pl - pl // 2}")
    ped = S.write_text(os.path.join(work, f"ped{k}.txt"), "\n".join(lines) + "\n")
    tau = S.write_text(os.path.join(work, f"tau{k}.txt"), "\n".join(taus) + "\n")
    return ped, tau


def cohort_ploidy_file(ds, work, tag):
    """a ploidy file shared by a whole cohort: the run's samples plus two that are not part of the run"""
    path = os.path.join(work, f"ploidy_cohort_{tag}.tsv")
    with open(path, "w") as f:
        f.write("NOT_IN_RUN_A\t6\n" + open(ds.ploidy_file).read() + "NOT_IN_RUN_B\t2\n")
    return path


def with_ploidy(argv, path):
    argv = list(argv)
    argv[argv.index("--ploidy") + 1] = path
    return argv


def dataset_runs(rn, ds, k, tier, plan):
    """the program runs on one dataset; `plan` lists which of the optional runs to do"""
    chk, r, work = rn.chk, rn.r, rn.work
    ploidies = [ds.ploidy[s] for s in ds.samples]
    # 1. assemble without GP: complete output, source of the haplotype VCF
    rep = [x for x in report_subset(r, force=("AFP",)) if x.split("/")[-1] != "GP"]
    _, recs, code, _ = rn.run(ds, "assemble", ds.assemble_argv(*MCMC, "--report", *rep), ploidies)
    if code != 0 or not recs:
        return
    if len(recs) != len(ds.loci) or [x["ID"] for x in recs] != [l.name for l in ds.loci]:
        chk.violation("assemble did not print exactly one record per target, in target order",
                      {"ids": [x["ID"] for x in recs], "targets": [l.name for l in ds.loci]}, "C07/assemble/one-record-per-target")
    masked = {x["ID"] for x in recs if "REFMASKED" in x["INFO"]}
    chk.count(f"dataset-refmasked-loci={len(masked)}")
    hap_text = "\n".join(x for x in open(os.path.join(work, f"out{rn.n_runs}.vcf")).read().split("\n"))
    # 2. assemble with GP (a REFMASKED locus is where the repaired defect F3 aborted the run; its signature stays armed)
    if "asm-gp" in plan:
        rep = report_subset(r, force=("GP",))
        rn.run(ds, "assemble", ds.assemble_argv(*MCMC, "--report", *rep), ploidies, refmasked_ids=masked)
    # haplotype VCFs: plain and with prior frequencies
    hap_txt = S.write_text(os.path.join(work, f"hap{k}.vcf"), hap_text)
    hap_gz = S.bgzip_tabix_vcf(hap_txt)
    pf_text, pf = add_prior_field(r, hap_text, plan.get("prior-mode", "random"))
    pf_gz = S.bgzip_tabix_vcf(S.write_text(os.path.join(work, f"hap{k}.pf.vcf"), pf_text))
    _, in_recs = S.parse_vcf_text(hap_text)
    for program in ("call", "call-exact", "call-pedigree"):
        extra = MCMC if program != "call-exact" else []
        if program == "call-pedigree":
            ped, tau = pedigree_file(r, ds, work, k)
            extra = extra + ["--sample-parents", ped, "--gamete-ploidy", tau]
        base = ["mchap", program, "--bam", *ds.bams, "--ploidy", ds.ploidy_file]
        if f"{program}:flat" in plan:
            rep = report_subset(r)
            rn.run(ds, program, base + ["--haplotypes", hap_gz, *extra, "--report", *rep], ploidies, in_records=in_recs)
        if f"{program}:prior" in plan:
            # the repaired defect F4: without INFO/AOP short R-arrays were printed silently, with it the run aborted;
            # both variants stay exercised
            force = ("AFP", "ACP") if r.random() < 0.5 else ("AOP",)
            rep = [x for x in report_subset(r, force=force)]
            if "AOP" not in force:
                rep = [x for x in rep if x not in ("AOP", "INFO/AOP")] + (["FORMAT/AOP"] if r.random() < 0.5 else [])
            rn.run(ds, program, base + ["--haplotypes", pf_gz, *extra, "--prior-frequencies", "PF", "--report", *rep],
                   ploidies, in_records=in_recs, prior=pf)


# --------------------------------------------------------------------------------------
# unit-level correspondence
# --------------------------------------------------------------------------------------

def unit_vcfstr(chk, drv, r, n):
    from mchap.io.vcf.util import vcfstr
    reqs, wants = [], []
    specials = [0.0, -0.0, 1.0, -1.0, 0.001, 0.0004, -0.0004, 0.9996, 12.0, 100.0, 1e-9, 0.25, 0.125, 2.5, 1234.5678, 0.1 + 0.2]
    for i in range(n):
        if r.random() < 0.5:
            k = r.randint(1, 6)
            arr = []
            for _ in range(k):
                u = r.random()
                arr.append(float("nan") if u < 0.1 else (r.choice(specials) if u < 0.3 else
                                                         round(r.uniform(-100, 100), r.randint(0, 6)) if u < 0.6 else r.random()))
            dt = np.float32 if r.random() < 0.2 else np.float64
            a = np.array(arr, dtype=dt)
            if any(np.isfinite(v) and (near_tie(v, float(np.finfo(dt).eps)) or neg_zero(float(v))) for v in a):
                chk.count("vcfstr-skipped-tie")
                continue
            reqs.append("vcf.str a " + " ".join(C.cell_str(v) for v in a))
            wants.append((vcfstr(a), a.tolist()))
        else:
            u = r.random()
            v = float("nan") if u < 0.1 else (r.choice(specials) if u < 0.4 else r.uniform(-50, 50) if u < 0.7 else r.random())
            if math.isfinite(v) and (near_tie(v, 2.3e-16) or neg_zero(v)):
                chk.count("vcfstr-skipped-tie")
                continue
            reqs.append("vcf.str s " + C.cell_str(v))
            wants.append((vcfstr(v), v))
    for q, a, (w, src) in zip(reqs, drv.ask(reqs), wants):
        chk.count("unit:vcfstr")
        chk.case(q, "nan" in q and "," not in w and len(q) > 30)
        if a != w:
            # oracle: the property's reading — the text parses to the value rounded to 3 decimals
            vals = np.atleast_1d(np.asarray(src, dtype=float))
            texts = w.split(",")
            ok = len(texts) == len(vals) and all(
                (t == "." and math.isnan(x)) or (t != "." and _DEC.match(t) and abs(Fraction(t) - Fraction(float(x))) <= Fraction(1, 2000) + SLACK)
                for t, x in zip(texts, vals))
            if ok:
                chk.disagreement("vcfstr != model rendering", {"input": src, "impl": w, "model": a})
            else:
                chk.violation("vcfstr does not print the value rounded to three decimals", {"input": src, "impl": w, "model": a}, "C07/vcfstr/rounding")
    # non-float objects: spec by cases
    for obj, want in [(None, "."), ("", "."), ("abc", "abc"), ([], "."), ((), "."), (["a", "b"], "a,b"), (7, "7"),
                      (np.array([], dtype=float), "."), (np.array([3, 4]), "3,4"), ([1.0, None, 2.5], "1,.,2.5")]:
        got = vcfstr(obj)
        chk.count("unit:vcfstr-objects")
        chk.case(["vcfstr", repr(obj)], False)
        if got != want:
            chk.violation("vcfstr of a non-float object", {"input": repr(obj), "impl": got, "expected": want}, "C07/vcfstr/objects")


def unit_gt(chk, drv, r, n):
    from mchap.application.assemble import _genotype_as_alleles
    from mchap.io.vcf import format_sample_field
    reqs, meta = [], []
    for i in range(n):
        p = r.choice([1, 2, 2, 3, 4, 4, 6, 8])
        n_lab = r.randint(1, 6)
        labs = [r.choice([-1] * 2 + list(range(n_lab))) for _ in range(p)]
        # _genotype_as_alleles takes haplotype arrays and a dict bytes -> label
        haps = np.array([[x + 1] for x in labs], dtype=np.int8)
        labels = {np.array([x + 1], dtype=np.int8).tobytes(): x for x in set(labs) if x >= 0}
        impl = [int(a) for a in _genotype_as_alleles(haps, labels)]
        txt = format_sample_field(GT=[np.array(impl)]).split("\t")[1]
        reqs += ["vcf.gtsort " + " ".join(map(str, labs)), "vcf.gtfmt " + " ".join(map(str, impl)), f"vcf.gtparse {txt} {n_lab - 1}"]
        meta.append((labs, impl, txt, n_lab))
    ans = drv.ask(reqs)
    for j, (labs, impl, txt, n_lab) in enumerate(meta):
        a_sort, a_fmt, a_parse = ans[3 * j:3 * j + 3]
        chk.count("unit:gt")
        chk.case(reqs[3 * j], -1 in labs and len(set(labs)) > 2)
        case = {"labels": labs, "impl_alleles": impl, "impl_text": txt}
        if a_sort != " ".join(map(str, impl)):
            chk.disagreement("_genotype_as_alleles != model genotypeAsAlleles", {**case, "model": a_sort})
        if a_fmt != txt:
            chk.disagreement("GT text != model formatGT", {**case, "model": a_fmt})
        called = sorted(x for x in labs if x >= 0)
        want = "/".join([str(x) for x in called] + ["."] * (len(labs) - len(called)))
        if txt != want:
            chk.violation("GT not 'sorted with . last'", {**case, "expected": want}, "C07/gt/sorted-dots-last")
        if a_parse != f"ok:1:{want}":
            chk.disagreement("model parseGT / sortedness of the code's GT text", {**case, "model": a_parse})


class _FakeLocus:
    def __init__(self, n_var):
        self.contig, self.start, self.stop, self.name = "chr1", 10, 10 + max(1, n_var) + 5, "x"
        self.variants = tuple(range(n_var))
        self.positions = [self.start + 1 + i for i in range(n_var)]


def unit_summarise(chk, drv, r, n):
    from mchap.application import baseclass
    import mchap.io.vcf.infofields as INFO
    import mchap.io.vcf.formatfields as FORMAT
    import mchap.io.vcf.columns as COLUMN
    reqs, meta = [], []
    for i in range(n):
        n_alt = r.choice([0, 0, 1, 2, 3, 5])
        n_s = r.randint(1, 5)
        samples = [f"s{j}" for j in range(n_s)]
        ploidy = {s: r.choice([1, 2, 2, 4, 4, 6]) for s in samples}
        n_var = r.choice([0, 1, 3])
        invalid = r.random() < 0.12
        gt, acp, aop, dp, rc, mci, snvdp = {}, {}, {}, {}, {}, {}, {}
        for s in samples:
            p = ploidy[s]
            if invalid:
                g = [-1] * p
            else:
                called = sorted(r.randint(0, n_alt) for _ in range(p))
                k = r.choice([0, 0, 0, 1, p])
                g = called[:p - k] + [-1] * k
            gt[s] = np.array(g, dtype=int)
            if invalid:
                acp[s] = np.array([np.nan]); aop[s] = np.array([np.nan])
            else:
                w = np.array([r.random() for _ in range(n_alt + 1)])
                acp[s] = w / w.sum() * p
                aop[s] = np.array([r.random() for _ in range(n_alt + 1)])
            dp[s] = float("nan") if n_var == 0 else float(r.randint(0, 40))
            rc[s] = r.randint(0, 60)
            mci[s] = float("nan") if r.random() < 0.2 else r.choice([0, 0, 1, 2])
            snvdp[s] = np.array(np.nan) if n_var == 0 else np.array([float(r.randint(0, 30)) for _ in range(n_var)])
        infofields = [f for f in INFO.DEFAULT_FIELDS] + [INFO.ACP, INFO.AFP, INFO.AOP, INFO.AOPSUM, INFO.SNVDP]
        data = baseclass.LocusAssemblyData(
            locus=_FakeLocus(n_var), samples=samples, sample_bams={}, sample_ploidy=ploidy, sample_inbreeding={},
            read_calls={}, read_dists={}, read_counts={}, infofields=infofields, formatfields=[],
            columndata={"FILTER": [], COLUMN.ALT: ["A"] * n_alt},
            infodata={f: {} for f in INFO.ALL_FIELDS}, sampledata={f: {} for f in FORMAT.ALL_FIELDS})
        data.sampledata[FORMAT.GT] = gt
        data.sampledata[FORMAT.ACP] = acp
        data.sampledata[FORMAT.AOP] = aop
        data.sampledata[FORMAT.DP] = dp
        data.sampledata[FORMAT.RCOUNT] = rc
        data.sampledata[FORMAT.MCI] = mci
        data.sampledata[FORMAT.SNVDP] = snvdp
        try:
            baseclass.program.sumarise_vcf_record(None, data)
        except Exception as e:   # noqa: BLE001
            chk.violation(f"sumarise_vcf_record raised {e!r}", {"gt": {s: g.tolist() for s, g in gt.items()}, "n_alt": n_alt}, "C07/summarise/raises")
            continue
        gt_tok = ["/".join("." if a < 0 else str(int(a)) for a in gt[s]) for s in samples]
        rows = lambda d: [",".join(C.cell_str(v) for v in np.atleast_1d(d[s])) for s in samples]
        P = sum(ploidy.values())
        reqs += [f"vcf.sum {n_alt} " + " ".join(gt_tok),
                 f"vcf.rsum ACP {n_alt} {P} " + " ".join(rows(acp)),
                 f"vcf.rsum AFP {n_alt} {P} " + " ".join(rows(acp)),
                 f"vcf.rsum AOP {n_alt} {P} " + " ".join(rows(aop)),
                 f"vcf.rsum SUM {n_alt} {P} " + " ".join(rows(aop))]
        meta.append((n_alt, samples, gt, data, invalid, n_var, dp, rc, mci))
    ans = drv.ask(reqs)
    for j, (n_alt, samples, gt, data, invalid, n_var, dp, rc, mci) in enumerate(meta):
        a = ans[5 * j:5 * j + 5]
        I = data.infodata
        chk.count("unit:summarise"); chk.count(f"unit:summarise n_alt={n_alt}")
        chk.case(reqs[5 * j], n_alt >= 2 and any((g < 0).any() and (g >= 0).any() for g in gt.values()))
        impl = "{} {} {} {}".format(",".join(str(int(x)) for x in I[INFO.AC]), int(I[INFO.AN]), int(I[INFO.UAN]), int(I[INFO.NS]))
        case = {"n_alt": n_alt, "gt": {s: g.tolist() for s, g in gt.items()}}
        if a[0] != impl:
            chk.disagreement("sumarise_vcf_record AC/AN/UAN/NS != model", {**case, "impl": impl, "model": a[0]})
        # oracle: the recount itself
        called = [int(x) for g in gt.values() for x in g if x >= 0]
        want = "{} {} {} {}".format(",".join(str(called.count(k)) for k in range(1, n_alt + 1)), len(called), len(set(called)),
                                    sum(1 for g in gt.values() if (g >= 0).any()))
        if impl != want:
            chk.violation("AC/AN/UAN/NS differ from the recount of the GT columns", {**case, "impl": impl, "expected": want}, "C07/summarise/recount")
        # DP / RCOUNT / MCI
        w_dp = float("nan") if n_var == 0 else float(sum(v for v in dp.values() if not math.isnan(v)))
        w_rc = sum(rc.values())
        w_mci = sum(1 for v in mci.values() if not (isinstance(v, float) and math.isnan(v)) and v > 0)
        got = (float(I[INFO.DP]), int(I[INFO.RCOUNT]), int(I[INFO.MCI]))
        if not (C.close(got[0], w_dp) and got[1] == w_rc and got[2] == w_mci):
            chk.violation("INFO DP/RCOUNT/MCI differ from the recomputation", {**case, "impl": got, "expected": (w_dp, w_rc, w_mci)}, "C07/summarise/dp-rcount-mci")
        for key, mod in ((INFO.ACP, a[1]), (INFO.AFP, a[2]), (INFO.AOP, a[3]), (INFO.AOPSUM, a[4])):
            iv = [float(x) for x in np.atleast_1d(I[key])]
            if key is INFO.AOPSUM and mod.startswith("error") is False:
                # SUM is the raw sum; the code then applies null_length_R
                mv = [float("nan") if t == "nan" else float(C.parse_rat(t)) for t in mod.split(",")]
                if all(math.isnan(x) for x in mv):
                    mv = [float("nan")] * (n_alt + 1)
            elif mod.startswith("error"):
                mv = None
            else:
                mv = [float("nan") if t == "nan" else float(C.parse_rat(t)) for t in mod.split(",")]
            if mv is None or len(mv) != len(iv) or not all(C.close(x, y) for x, y in zip(iv, mv)):
                chk.disagreement(f"sumarise_vcf_record INFO/{key.id} != model", {**case, "impl": iv, "model": mod})
            if len(iv) != n_alt + 1:
                chk.violation(f"INFO/{key.id} computed with {len(iv)} values for {n_alt + 1} alleles", {**case, "impl": iv}, "C07/summarise/r-length")


def unit_garrays(chk, drv, r, n):
    from mchap.application.assemble import _genotype_posterior_as_array
    from mchap.calling.classes import GenotypeAllelesMultiTrace, PosteriorGenotypeAllelesDistribution
    from mchap.calling.exact import genotype_likelihoods

    class Post:   # what _genotype_posterior_as_array reads
        pass

    reqs, meta = [], []
    for i in range(n):
        n_alt = r.randint(0, 4)
        p = r.choice([1, 2, 2, 3, 4, 4, 6])
        ref_called = r.random() < 0.6
        haps = np.arange(n_alt + 1, dtype=np.int8).reshape(-1, 1)
        labels = {h.tobytes(): k for k, h in enumerate(haps)}
        if not ref_called:
            labels.pop(haps[0].tobytes())
        avail = sorted(labels.values())
        gens = []
        if avail:
            for _ in range(r.randint(1, 4)):
                gens.append(sorted(r.choice(avail + [avail[-1]]) for _ in range(p)))
        post = Post()
        post.genotypes = np.array([[[a] for a in g] for g in gens], dtype=np.int8).reshape(len(gens), p, 1)
        post.probabilities = np.full(len(gens), 1.0 / max(1, len(gens)))
        # the way the program calls it (n_alleles = len(haplotypes)); an older signature without the parameter is
        # called the old way so that the oracle below judges what the program would print
        def gp(**kw):
            try:
                return str(len(_genotype_posterior_as_array(post, labels, **kw)))
            except IndexError:
                return "error:IndexError"
        try:
            impl = gp(n_alleles=n_alt + 1)
        except TypeError:
            impl = gp()
        impl_default = gp()
        reqs += [f"vcf.gsize {n_alt} {p} {int(ref_called)}",
                 f"vcf.gparr prog {n_alt} {p} {int(ref_called)} " + " ".join("/".join(map(str, g)) for g in gens),
                 f"vcf.gparr default {n_alt} {p} {int(ref_called)} " + " ".join("/".join(map(str, g)) for g in gens)]
        # the call-side producers
        dist = PosteriorGenotypeAllelesDistribution(np.array(gens if gens else [[0] * p]), np.full(max(1, len(gens)), 0.5))
        n_call = len(dist.as_array(n_alt + 1))
        reads = np.zeros((0, 1, max(2, n_alt + 1)))
        n_gl = len(genotype_likelihoods(reads=reads, ploidy=p, haplotypes=haps.astype(np.int8), read_counts=np.zeros(0, dtype=np.int64)))
        meta.append((n_alt, p, ref_called, gens, impl, impl_default, n_call, n_gl))
    ans = drv.ask(reqs)
    for j, (n_alt, p, ref_called, gens, impl, impl_default, n_call, n_gl) in enumerate(meta):
        size, arr, arr_default = ans[3 * j], ans[3 * j + 1], ans[3 * j + 2]
        m_call, m_asm, m_default = size.split()
        want = n_genotypes(n_alt + 1, p)
        chk.count("unit:garray"); chk.count("unit:garray refmasked" if not ref_called else "unit:garray ref-called")
        chk.case(reqs[3 * j + 1], not ref_called and n_alt >= 1)
        case = {"n_alt": n_alt, "ploidy": p, "ref_called": ref_called, "genotypes": gens}
        if int(m_call) != want:
            chk.disagreement("model callGArraySize != C(n+p-1, p)", {**case, "model": m_call, "expected": want})
        if n_call != want or n_gl != want:
            chk.violation("call-side G array not sized with the record's allele count", {**case, "as_array": n_call, "GL": n_gl, "expected": want}, "C07/call/g-length")
        if int(m_asm) != want:
            chk.disagreement("model assembleGPSize != C(n+p-1, p)", {**case, "model": m_asm, "expected": want})
        if impl != arr:
            chk.disagreement("_genotype_posterior_as_array as the program calls it (length / IndexError) != model", {**case, "impl": impl, "model": arr})
        if impl_default != arr_default:
            chk.disagreement("_genotype_posterior_as_array with the default n_alleles (length / IndexError) != model", {**case, "impl": impl_default, "model": arr_default})
        if impl != str(want):
            chk.violation(f"assemble GP array for a record with {n_alt + 1} alleles, ploidy {p}: {impl}, expected length {want}",
                          {**case, "impl": impl, "expected": want}, SIG_F3 if not ref_called else "C07/assemble/gp-length")
    # relabel
    reqs, meta = [], []
    for i in range(n):
        n_all = r.randint(1, 6)
        mask = [r.random() < 0.35 for _ in range(n_all)]
        if all(mask):
            mask[r.randrange(n_all)] = False
        labels = np.where(~np.array(mask))[0]
        p = r.choice([2, 4])
        tr = GenotypeAllelesMultiTrace(np.zeros((1, 3, p), dtype=np.int64), np.zeros((1, 3)), len(labels))
        try:
            new = tr.relabel(labels, n_allele=n_all)      # the way call / call-pedigree call it
        except TypeError:
            new = tr.relabel(labels)                      # older signature: what the programs would get
        freqs, counts, occ = new.posterior_frequencies()
        dflt = tr.relabel(labels)
        reqs += ["vcf.relabel prog " + "".join("1" if m else "0" for m in mask),
                 "vcf.relabel default " + "".join("1" if m else "0" for m in mask)]
        meta.append((mask, int(new.n_allele), len(freqs), int(dflt.n_allele)))
    ans = drv.ask(reqs)
    for j, (mask, impl, n_freq, impl_default) in enumerate(meta):
        q, a, a_default = reqs[2 * j], ans[2 * j], ans[2 * j + 1]
        if int(a_default) != impl_default:
            chk.disagreement("relabel default n_allele != model", {"mask": mask, "impl": impl_default, "model": a_default})
        chk.count("unit:relabel"); chk.count("unit:relabel last-masked" if mask[-1] else "unit:relabel last-kept")
        chk.case(q, mask[-1])
        if int(a) != impl:
            chk.disagreement("relabel n_allele != model", {"mask": mask, "impl": impl, "model": a})
        if n_freq != len(mask):
            chk.violation(f"relabel: posterior_frequencies has {n_freq} entries for a record with {len(mask)} alleles",
                          {"mask": mask, "impl": n_freq}, SIG_F4 if mask[-1] else "C07/call/r-length")


def unit_validator(chk, drv, r):
    """the validator rejects each kind of broken record (so that 'ok' on the programs' output means something)"""
    hdr = ['##INFO=<ID=AN,Number=1,Type=Integer,D>', '##INFO=<ID=UAN,Number=1,Type=Integer,D>', '##INFO=<ID=AC,Number=A,Type=Integer,D>',
           '##INFO=<ID=REFMASKED,Number=0,Type=Flag,D>', '##INFO=<ID=NS,Number=1,Type=Integer,D>', '##INFO=<ID=MCI,Number=1,Type=Integer,D>',
           '##INFO=<ID=DP,Number=1,Type=Integer,D>', '##INFO=<ID=RCOUNT,Number=1,Type=Integer,D>', '##INFO=<ID=END,Number=1,Type=Integer,D>',
           '##INFO=<ID=NVAR,Number=1,Type=Integer,D>', '##INFO=<ID=SNVPOS,Number=.,Type=Integer,D>', '##INFO=<ID=ACP,Number=R,Type=Float,D>',
           '##FILTER=<ID=PASS,D>', '##FILTER=<ID=NOA,D>',
           '##FORMAT=<ID=GT,Number=1,Type=String,D>', '##FORMAT=<ID=DP,Number=1,Type=Integer,D>', '##FORMAT=<ID=RCOUNT,Number=1,Type=Integer,D>',
           '##FORMAT=<ID=MCI,Number=1,Type=Integer,D>', '##FORMAT=<ID=ACP,Number=R,Type=Float,D>', '##FORMAT=<ID=GP,Number=G,Type=Float,D>']
    H = parse_header(hdr)
    htok = header_token(H)
    good = ("chr1\t11\tx\tACGT\tAGGT,ACGA\t.\tPASS\tAN=5;UAN=3;AC=2,1;NS=2;MCI=1;DP=9;RCOUNT=12;END=14;NVAR=2;SNVPOS=2,4;ACP=2.6,2.2,1.2\t"
            "GT:DP:RCOUNT:MCI:ACP:GP\t0/0/1/2:5:7:1:2,1,1:" + ",".join(["0"] * 15) + "\t1/.:4:5:0:0.6,1.2,0.2:0,0,0,1,0,0")
    ploidies, refwin, snvs = [4, 2], "ACGT", [(2, ["C", "G"]), (4, ["T", "A"])]
    muts = [
        ("ok", lambda s: s),
        ("err:gt", lambda s: s.replace("0/0/1/2", "0/1/0/2")),
        ("err:gt", lambda s: s.replace("1/.:4", "./1:4")),
        ("err:gt", lambda s: s.replace("1/.:4", "1/./.:4")),
        ("err:gt", lambda s: s.replace("0/0/1/2", "0/0/1/3")),
        ("err:keys-cardinality-type", lambda s: s.replace("ACP=2.6,2.2,1.2", "ACP=2.6,2.2")),
        ("err:keys-cardinality-type", lambda s: s.replace(":0,0,0,1,0,0", ":0,0,1")),
        ("err:keys-cardinality-type", lambda s: s.replace("NS=2", "NS=2;XX=1")),
        ("err:keys-cardinality-type", lambda s: s.replace("GT:DP", "GT:ZZ")),
        ("err:keys-cardinality-type", lambda s: s.replace("DP=9", "DP=9.5")),
        ("err:ref-alt-snv", lambda s: s.replace("AGGT,ACGA", "AGGT,ACCT")),
        ("err:ref-alt-snv", lambda s: s.replace("AGGT,ACGA", "AGGT,ACGC")),
        ("err:ref-alt-snv", lambda s: s.replace("\tACGT\t", "\tACGA\t")),
        ("err:ref-alt-snv", lambda s: s.replace("END=14", "END=15")),
        ("err:ref-alt-snv", lambda s: s.replace("SNVPOS=2,4", "SNVPOS=2,3")),
        ("err:ref-alt-snv", lambda s: s.replace("AGGT,ACGA", "AGGT,AGGT")),
        ("err:counts", lambda s: s.replace("AC=2,1", "AC=2,2")),
        ("err:counts", lambda s: s.replace("AN=5", "AN=6")),
        ("err:counts", lambda s: s.replace("UAN=3", "UAN=2")),
        ("err:counts", lambda s: s.replace("NS=2", "NS=1")),
        ("err:counts", lambda s: s.replace("DP=9", "DP=10")),
        ("err:counts", lambda s: s.replace("RCOUNT=12", "RCOUNT=11")),
        ("err:float-sums", lambda s: s.replace("ACP=2.6,2.2,1.2", "ACP=2.6,2.2,1.21")),
        ("ok", lambda s: s.replace("ACP=2.6,2.2,1.2", "ACP=2.601,2.2,1.2")),
        ("err:decimals", lambda s: s.replace("ACP=2.6,2.2,1.2", "ACP=2.6001,2.2,1.2")),
        ("err:filter", lambda s: s.replace("\tPASS\t", "\tFOO\t")),
    ]
    reqs, meta = [], []
    for want, f in muts:
        line = f(good)
        _, recs = S.parse_vcf_text("\n".join(hdr) + "\n" + line + "\n")
        py = first_failure(py_validate(H, recs[0], ploidies, refwin, snvs))
        reqs.append(check_request(htok, ploidies, refwin, snvs, line))
        meta.append((want, py, line))
    for q, a, (want, py, line) in zip(reqs, drv.ask(reqs), meta):
        chk.count("unit:validator-mutants")
        chk.case(q, want != "ok")
        if not (a == want == py):
            chk.disagreement("validator self-test: a broken record is not rejected with the expected conjunct",
                             {"line": line, "expected": want, "lean": a, "python": py})


# --------------------------------------------------------------------------------------

def run(tier, replay=None):
    chk = C.Check(PROP, tier, MODULE, THEOREMS, RULE, exe="driver_vcf", assumptions=[
        "numpy float printing (astype('U16'), repr of float32/float64) and np.round's binary half-even rounding are compared "
        "against the exact-rational model away from rounding ties, not proved",
        "INFO sums are compared with the recomputation from the printed (rounded) sample values within the derived bound "
        "(W + 1)/2000 + 1e-9 (theorem sum_round_tolerance; 1e-9 covers float64 arithmetic)",
        "htslib/pysam parsing of the inputs and tab/colon/comma splitting of the text are outside the model",
        "MCMC output is whatever the seeded samplers return on this run; the validator judges each printed line",
    ])
    chk.prove()
    drv = C.Driver("driver_vcf")
    r = C.rng(PROP)
    work = tempfile.mkdtemp(prefix="c07-")
    try:
        n_unit = {"warm": 5, "quick": 150, "thorough": 1500}[tier]
        unit_validator(chk, drv, r)
        unit_vcfstr(chk, drv, r, n_unit * 2)
        unit_gt(chk, drv, r, n_unit)
        unit_summarise(chk, drv, r, n_unit)
        program_phase_isolated(chk, drv, r, work, tier, n_unit)
    finally:
        if os.environ.get("VERIF_KEEP_WORK"):
            print(f"[C07] work directory kept: {work}")
        else:
            shutil.rmtree(work, ignore_errors=True)
    return chk.finish()


_STATE = ("evaluations", "nontrivial", "samples", "hist", "disagreements", "violations", "known_hits", "notes", "extra")


def program_phase_isolated(chk, drv, r, work, tier, n_unit):
    """Run the program phase in a forked child and merge its bookkeeping back.

    The jitted code does no bounds checking: an array sized with the wrong allele count can corrupt the heap and
    abort the interpreter.  The child dumps the check's state after every program run, so a death by signal is
    reported as a violation naming the run that was in progress, together with everything found before it."""
    import sys
    state = os.path.join(work, "state.pkl")
    sys.stdout.flush()
    sys.stderr.flush()
    pid = os.fork()
    if pid == 0:
        status = 3
        try:
            program_phase(chk, drv, r, work, tier, state, n_unit)
            status = 0
        except C.Infra as e:
            try:
                with open(os.path.join(work, "infra.txt"), "w") as f:
                    f.write(str(e))
            except OSError:
                pass
            status = 4
        except BaseException:   # noqa: BLE001
            import traceback
            try:
                with open(os.path.join(work, "infra.txt"), "w") as f:
                    f.write(traceback.format_exc())
            except OSError:
                pass
            status = 3
        finally:
            os._exit(status)
    _, st = os.waitpid(pid, 0)
    if os.path.exists(state):
        with open(state, "rb") as f:
            saved = pickle.load(f)
        for k in _STATE:
            setattr(chk, k, saved[k])
    if os.WIFSIGNALED(st):
        cur = {}
        try:
            cur = json.load(open(os.path.join(work, "current_run.json")))
        except (OSError, ValueError):
            pass
        prog = cur.get("program", "?")
        chk.violation(f"mchap {prog} killed the interpreter (signal {os.WTERMSIG(st)}; heap corruption by this or an earlier run of the phase) on a valid dataset",
                      {"argv": [os.path.basename(a) if str(a).startswith(work) else a for a in cur.get("argv", [])],
                       "signal": os.WTERMSIG(st), "seed": C.seed()}, f"C07/{prog}/process-died")
    elif os.WEXITSTATUS(st) != 0:
        msg = ""
        try:
            msg = open(os.path.join(work, "infra.txt")).read()
        except OSError:
            pass
        raise C.ProgramAbort(f"program phase failed in the child process (status {os.WEXITSTATUS(st)}): {msg[-1500:]}")


def dump_state(chk, path):
    tmp = path + ".tmp"
    with open(tmp, "wb") as f:
        pickle.dump({k: getattr(chk, k) for k in _STATE}, f)
    os.replace(tmp, path)


def program_phase(chk, drv, r, work, tier, state, n_unit):
    with open(os.path.join(work, "current_run.json"), "w") as f:
        json.dump({"program": "G-array producers (unit level)", "argv": []}, f)
    unit_garrays(chk, drv, r, n_unit)
    dump_state(chk, state)
    if True:
        rn = Runner(chk, drv, r, work)
        rn.state = state
        if tier == "warm":
            plans = [{"asm-gp": 1, "call:prior": 1, "call-exact:flat": 1, "call-pedigree:flat": 1}]
        elif tier == "quick":
            plans = [
                {"asm-gp": 1, "call:flat": 1, "call:prior": 1, "call-exact:prior": 1, "call-pedigree:prior": 1, "prior-mode": "mixed"},
                {"asm-gp": 1, "call:prior": 1, "call-exact:flat": 1, "call-pedigree:flat": 1},
            ]
        else:
            plans = [{"asm-gp": 1, "call:flat": 1, "call:prior": 1, "call-exact:flat": 1, "call-exact:prior": 1,
                      "call-pedigree:flat": 1, "call-pedigree:prior": 1, "prior-mode": m} for m in ("mixed", "last0", "random", "random", "random", "random")]
        for k, plan in enumerate(plans):
            sub = C.rng(f"{PROP}:ds{k}")
            # every second data set: a locus (with SNVs) over which NO sample has a read - FORMAT/DP = 0 everywhere, INFO/DP = 0
            feats = {"nodepth"} | ({"mates"} if k % 2 else set()) | ({"nodepth_all"} if k % 2 == 0 else set())
            ds = S.make_dataset(sub, os.path.join(work, f"ds{k}"), n_samples=3 if k % 2 == 0 else 4, n_loci=4 if k % 2 == 0 else 3,
                                ploidies=(2, 4) if k % 3 != 2 else (2, 4, 6), max_snvs=4, features=feats, depth=(6, 20))
            chk.count(f"dataset ploidies={sorted(ds.ploidy.values())}")
            dataset_runs(rn, ds, k, tier, plan)
        single_report_sweep(rn, tier)
        extra_streams(rn, tier)
        chk.extra["program_runs"] = rn.n_runs
        chk.extra["pysam_records_read"] = rn.pysam_checked
        dump_state(chk, state)


# every optional field requested on its own (and the INFO-only ones next to a G-length field): the fields are
# computed from shared intermediate arrays whose computation is switched on by *other* entries of --report, so a
# field must also be right when it is the only one asked for
SINGLE_REPORTS = [["AOPSUM"], ["INFO/AOPSUM", "GP"], ["AFP"], ["ACP"], ["AOP"], ["INFO/AFP"], ["FORMAT/AFP"], ["INFO/ACP"],
                  ["FORMAT/ACP"], ["INFO/AOP"], ["FORMAT/AOP"], ["AFPRIOR"], ["SNVDP"], ["GP"], ["GL"], ["INFO/AOPSUM", "GL"],
                  ["AOPSUM", "FORMAT/AOP"], []]


def single_report_sweep(rn, tier):
    chk, r, work = rn.chk, rn.r, rn.work
    sub = C.rng(f"{PROP}:single")
    ds = S.make_dataset(sub, os.path.join(work, "dsS"), n_samples=2, n_loci=2, ploidies=(2, 4), max_snvs=3,
                        features={"nodepth"}, depth=(8, 14))
    ploidies = [ds.ploidy[s] for s in ds.samples]
    fast = ["--mcmc-steps", "120", "--mcmc-burn", "40"]
    _, recs, code, _ = rn.run(ds, "assemble", ds.assemble_argv(*fast, "--report", "AFP"), ploidies)
    if code != 0 or not recs:
        return
    hap_text = open(os.path.join(work, f"out{rn.n_runs}.vcf")).read()
    hap_gz = S.bgzip_tabix_vcf(S.write_text(os.path.join(work, "hapS.vcf"), hap_text))
    _, in_recs = S.parse_vcf_text(hap_text)
    ped, tau = pedigree_file(r, ds, work, "S")
    programs = ["assemble", "call", "call-exact", "call-pedigree"]
    sels = SINGLE_REPORTS if tier != "warm" else SINGLE_REPORTS[:2]
    for i, sel in enumerate(sels):
        # quick: each selection with two of the four programs (rotating with the seed); thorough: with all four
        progs = programs if tier == "thorough" else [programs[(i + C.seed()) % 4], programs[(i + C.seed() + 2) % 4]]
        for program in progs:
            rep = (["--report", *sel] if sel else [])
            if program == "assemble":
                rn.run(ds, "assemble", ds.assemble_argv(*fast, *rep), ploidies)
                continue
            extra = fast if program != "call-exact" else []
            if program == "call-pedigree":
                extra = extra + ["--sample-parents", ped, "--gamete-ploidy", tau]
            rn.run(ds, program, ["mchap", program, "--bam", *ds.bams, "--ploidy", ds.ploidy_file, "--haplotypes", hap_gz,
                                 *extra, *rep], ploidies, in_records=in_recs)
        chk.count("single-report-selection")


# --------------------------------------------------------------------------------------
# input shapes that only the application glue sees (round 5)
# --------------------------------------------------------------------------------------

NO_G = ("GP", "GL", "FORMAT/GP", "FORMAT/GL")


def plain_header(ds, extra=()):
    lines = ["##fileformat=VCFv4.3", '##FILTER=<ID=PASS,Description="All filters passed">']
    lines += [f"##contig=<ID={c},length={len(s)}>" for c, s in ds.contigs.items()]
    lines += ['##INFO=<ID=END,Number=1,Type=Integer,Description="End position">', *extra,
              '##FORMAT=<ID=GT,Number=1,Type=String,Description="Genotype">']      # add_prior_field declares PF in front of the first FORMAT line
    lines.append("#CHROM\tPOS\tID\tREF\tALT\tQUAL\tFILTER\tINFO")
    return lines


def fabricate_panel(r, ds, locus, n_decoys):
    """A haplotype VCF record for `locus` listing `n_decoys` haplotypes that no sample carries (reference or a true
    haplotype changed at 1..4 of >= 8 positions that are not SNVs of the data set) followed by the true non-reference
    haplotypes of the samples, which therefore get allele numbers > n_decoys.  Returns (VCF text, #true ALTs)."""
    ref = ds.contigs[locus.contig][locus.start:locus.stop]
    snv_off = {p - locus.start for p in locus.snv_positions}
    free = [j for j in range(len(ref)) if j not in snv_off]
    offs = sorted(r.sample(free, min(len(free), r.randint(8, 10))))
    truths = []
    for s in ds.samples:
        for h in ds.truth[s][locus.name]:
            if h != ref and h not in truths:
                truths.append(h)
    seen = set(truths) | {ref}
    decoys = []
    for _ in range(n_decoys * 30):
        if len(decoys) >= n_decoys or not offs:
            break
        base = list(r.choice(truths)) if truths and r.random() < 0.3 else list(ref)
        for j in r.sample(offs, r.randint(1, min(4, len(offs)))):
            base[j] = r.choice([b for b in S.BASES if b != ref[j]])
        h = "".join(base)
        if h not in seen:
            seen.add(h)
            decoys.append(h)
    alts = decoys + truths
    rec = f"{locus.contig}\t{locus.start + 1}\t{locus.name}\t{ref}\t{','.join(alts) if alts else '.'}\t.\tPASS\tEND={locus.stop}"
    return "\n".join(plain_header(ds) + [rec]) + "\n", len(truths)


def no_g(rep):
    return [x for x in rep if x not in NO_G]


def caller_argv(ds, program, hap_gz, extra, ped=None, tau=None, ploidy=None, bam=None):
    argv = ["mchap", program, "--bam", *(bam or ds.bams), "--ploidy", str(ploidy or ds.ploidy_file), "--haplotypes", hap_gz]
    if program == "call-pedigree":
        argv += ["--sample-parents", ped] + (["--gamete-ploidy", tau] if tau else [])
    return argv + list(extra)


def large_panel_stream(rn, tier):
    """call and call-pedigree on a haplotype VCF with 130-200 ALT haplotypes: allele numbers above 127 must survive
    every integer buffer between the sampler and the GT / ACP columns (no G-length field: too many genotypes)"""
    chk, r, work = rn.chk, rn.r, rn.work
    n_ds = {"warm": 1, "quick": 1, "thorough": 4}[tier]
    for k in range(n_ds):
        ds, locus = None, None
        for attempt in range(6):     # bounded search for a data set in which some sample carries a non-reference haplotype
            sub = C.rng(f"{PROP}:panel{k}:{attempt}")
            cand = S.make_dataset(sub, os.path.join(work, f"dsP{k}_{attempt}"), n_samples=3, n_loci=1, ploidies=(2, 4),
                                  max_snvs=3, features=set(), depth=(10, 16))
            l = cand.loci[0]
            ref = cand.contigs[l.contig][l.start:l.stop]
            carriers = sum(1 for s in cand.samples if any(h != ref for h in cand.truth[s][l.name]))
            if carriers >= 2 and l.stop - l.start - len(l.snv_positions) >= 8:
                ds, locus = cand, l
                break
        if ds is None:
            chk.count("large-panel:no-suitable-dataset")
            continue
        ploidies = [ds.ploidy[s] for s in ds.samples]
        n_decoys = r.choice([130, 150, 170, 200])
        text, n_true = fabricate_panel(r, ds, locus, n_decoys)
        hap_gz = S.bgzip_tabix_vcf(S.write_text(os.path.join(work, f"panel{k}.vcf"), text))
        _, in_recs = S.parse_vcf_text(text)
        n_alt = len(in_recs[0]["ALT"])
        chk.count("large-panel:ALT>=128" if n_alt >= 128 else "large-panel:ALT<128")
        ped, tau = pedigree_file(r, ds, work, f"P{k}")
        fast = ["--mcmc-steps", "150", "--mcmc-burn", "50"]
        for program in ("call", "call-pedigree"):
            rep = no_g(report_subset(r, force=("ACP",)))
            _, recs, code, _ = rn.run(ds, program, caller_argv(ds, program, hap_gz, [*fast, "--report", *rep], ped, tau),
                                      ploidies, in_records=in_recs, stream="large-panel")
            for rec in recs:
                hi = [a for col in rec["samples"] for a in col.get("GT", "").split("/") if a.isdigit() and int(a) >= 128]
                chk.count(f"large-panel:{program}:GT-allele>=128", len(hi))
                # oracle: deep clean reads of carriers of a true haplotype -> every sample is called completely and at
                # least one called allele is one of the true haplotypes listed last (the decoys have no support)
                if code == 0 and n_true and n_alt >= 128 and not hi:
                    chk.count(f"large-panel:{program}:no-high-allele-called")
        if tier == "thorough":
            pf_text, pf = add_prior_field(r, text, "random")
            pf_gz = S.bgzip_tabix_vcf(S.write_text(os.path.join(work, f"panel{k}.pf.vcf"), pf_text))
            for program in ("call", "call-pedigree"):
                rep = no_g(report_subset(r, force=("AFP",)))
                rn.run(ds, program, caller_argv(ds, program, pf_gz, [*fast, "--prior-frequencies", "PF", "--report", *rep], ped, tau),
                       ploidies, in_records=in_recs, prior=pf, stream="large-panel-prior")




def hap_inputs(rn, ds, name, out_text):
    """(bgzipped haplotype VCF, parsed records) of an assemble output"""
    gz = S.bgzip_tabix_vcf(S.write_text(os.path.join(rn.work, f"{name}.vcf"), out_text))
    _, recs = S.parse_vcf_text(out_text)
    return gz, recs


def last_output(rn):
    return open(os.path.join(rn.work, f"out{rn.n_runs}.vcf")).read()


def three_callers(rn, ds, hap_gz, in_recs, ploidies, fast, stream, k, exact_limit=40, rep_force=(), prior=None, extra=()):
    """the three callers on one haplotype VCF (call-exact only when no record lists more than `exact_limit` ALTs)"""
    r = rn.r
    ped, tau = pedigree_file(r, ds, rn.work, f"{stream}{k}")
    max_alt = max([len(x["ALT"]) for x in in_recs] + [0])
    for program in ("call", "call-exact", "call-pedigree"):
        if program == "call-exact" and max_alt > exact_limit:
            rn.chk.count(f"{stream}:call-exact-skipped(too many genotypes)")
            continue
        rep = report_subset(r, force=rep_force)
        if max_alt > 12:
            rep = no_g(rep)
        mc = fast if program != "call-exact" else []
        rn.run(ds, program, caller_argv(ds, program, hap_gz, [*mc, *extra, "--report", *rep], ped, tau), ploidies,
               in_records=in_recs, prior=prior, stream=stream)


def noa_stream(rn, tier):
    """records without any called allele (FILTER NOA, no ALT, REFMASKED) and records with very many ALTs: assemble with
    --haplotype-posterior-threshold 1.0 on shallow noisy data / 0.01 on noisy data; both outputs go to the callers"""
    chk, r, work = rn.chk, rn.r, rn.work
    fast = ["--mcmc-steps", "150", "--mcmc-burn", "50"]
    n_ds = {"warm": 1, "quick": 1, "thorough": 3}[tier]
    for k in range(n_ds):
        sub = C.rng(f"{PROP}:noa{k}")
        ds = S.make_dataset(sub, os.path.join(work, f"dsN{k}"), n_samples=2, n_loci=3, ploidies=(2, 4), max_snvs=6,
                            features={"nodepth"}, depth=(1, 3), error_rate=0.08)
        ploidies = [ds.ploidy[s] for s in ds.samples]
        for thr, name in (("1.0", "noa"), ("0.01", "many-alts")):
            if tier == "warm" and name == "many-alts":
                continue
            rep = no_g(report_subset(r, force=("AFP",)))
            _, recs, code, _ = rn.run(ds, "assemble", ds.assemble_argv(*fast, "--haplotype-posterior-threshold", thr, "--report", *rep),
                                      ploidies, stream=name)
            if code != 0 or not recs:
                continue
            chk.count(f"{name}:records-with-FILTER-NOA", sum(1 for x in recs if "NOA" in x["FILTER"].split(";")))
            chk.count(f"{name}:max-ALT={min(50, max(len(x['ALT']) for x in recs)) // 10 * 10}+")
            hap_gz, in_recs = hap_inputs(rn, ds, f"hapN{k}{name}", last_output(rn))
            three_callers(rn, ds, hap_gz, in_recs, ploidies, fast, name, k, exact_limit=24)




_FILTER_OPS = {">": lambda x, v: x > v, ">=": lambda x, v: x >= v, "<": lambda x, v: x < v, "<=": lambda x, v: x <= v,
               "!=": lambda x, v: x != v, "=": lambda x, v: x == v}


def filtered_records(in_recs, pf, op, value):
    """the records a caller is expected to print under --filter-input-haplotypes PF<op><value>: ALTs whose PF value fails
    the comparison are dropped; a failing reference allele stays listed and is flagged REFMASKED instead"""
    out = []
    for x in in_recs:
        vals = pf[x["ID"]]
        keep = [_FILTER_OPS[op](v, value) for v in vals]
        y = dict(x)
        y["ALT"] = [a for a, k in zip(x["ALT"], keep[1:]) if k]
        y["expect_refmasked"] = ("REFMASKED" in x["INFO"]) or not keep[0]
        y["dropped"] = len(x["ALT"]) - len(y["ALT"])
        out.append(y)
    return out


def filter_stream(rn, tier):
    """--filter-input-haplotypes on a PF-annotated haplotype VCF: CHROM/POS/ID/REF and the retained ALTs are expected in
    the output, SNVPOS / NVAR are derived from the retained alleles, a filtered reference is REFMASKED"""
    chk, r, work = rn.chk, rn.r, rn.work
    fast = ["--mcmc-steps", "150", "--mcmc-burn", "50"]
    n_ds = {"warm": 1, "quick": 1, "thorough": 3}[tier]
    for k in range(n_ds):
        sub = C.rng(f"{PROP}:filter{k}")
        ds = S.make_dataset(sub, os.path.join(work, f"dsF{k}"), n_samples=3, n_loci=4, ploidies=(2, 4), max_snvs=4,
                            features={"nodepth"}, depth=(4, 12), error_rate=0.03)
        ploidies = [ds.ploidy[s] for s in ds.samples]
        _, recs, code, _ = rn.run(ds, "assemble", ds.assemble_argv(*fast, "--haplotype-posterior-threshold", "0.05"), ploidies, stream="filter")
        if code != 0 or not recs:
            continue
        pf_text, pf = add_prior_field(r, last_output(rn), "mixed")
        pf_gz = S.bgzip_tabix_vcf(S.write_text(os.path.join(work, f"hapF{k}.pf.vcf"), pf_text))
        _, in_recs = S.parse_vcf_text(pf_text)
        ped, tau = pedigree_file(r, ds, work, f"F{k}")
        exprs = [(">", 0)] + ([(r.choice([">=", ">", "<", "!=", "<="]), r.choice([0, 0.137, 0.263, 0.411]))] if tier != "warm" else [])
        if tier == "thorough":
            exprs += [("<", 0.263), ("!=", 0), (">=", 0.137)]
        for j, (op, value) in enumerate(exprs):
            if any(abs(v - value) < 1e-6 and value != 0 for vs in pf.values() for v in vs):
                chk.count("filter:value-on-threshold(skipped)")
                continue
            exp = filtered_records(in_recs, pf, op, value)
            chk.count("filter:records-with-dropped-ALT", sum(1 for y in exp if y["dropped"]))
            chk.count("filter:records-with-filtered-REF", sum(1 for x, y in zip(in_recs, exp) if y["expect_refmasked"] and "REFMASKED" not in x["INFO"]))
            for program in ("call", "call-exact", "call-pedigree"):
                if tier != "thorough" and (j + ("call", "call-exact", "call-pedigree").index(program)) % 2 and j > 0:
                    continue
                with_prior = ["--prior-frequencies", "PF"] if r.random() < 0.5 else []
                rep = report_subset(r, force=("AFP",) if r.random() < 0.5 else ())
                mc = fast if program != "call-exact" else []
                rn.run(ds, program, caller_argv(ds, program, pf_gz, [*mc, "--filter-input-haplotypes", f"PF{op}{value}", *with_prior,
                                                                     "--report", *rep], ped, tau),
                       ploidies, in_records=exp, stream="filter")




def ploidy_stream(rn, tier):
    """ploidies 1, 3 and 8 through all four programs; --ploidy given as an integer"""
    chk, r, work = rn.chk, rn.r, rn.work
    fast = ["--mcmc-steps", "150", "--mcmc-burn", "50"]
    n_ds = {"warm": 1, "quick": 1, "thorough": 3}[tier]
    for k in range(n_ds):
        sub = C.rng(f"{PROP}:ploidy{k}")
        ds = S.make_dataset(sub, os.path.join(work, f"dsQ{k}"), n_samples=3, n_loci=3, ploidies=(1, 3, 8), max_snvs=3,
                            features={"nodepth"}, depth=(8, 16))
        chk.count(f"dataset ploidies={sorted(ds.ploidy.values())}")
        ploidies = [ds.ploidy[s] for s in ds.samples]
        rep = report_subset(r, force=("GP",) if k % 2 == 0 else ("AFP",))
        _, recs, code, _ = rn.run(ds, "assemble", ds.assemble_argv(*fast, "--report", *rep), ploidies, stream="ploidy-1-3-8")
        if code != 0 or not recs:
            continue
        hap_gz, in_recs = hap_inputs(rn, ds, f"hapQ{k}", last_output(rn))
        three_callers(rn, ds, hap_gz, in_recs, ploidies, fast, "ploidy-1-3-8", k, exact_limit=8)
        # --ploidy as an integer (every sample is analysed with that ploidy, whatever it was simulated with)
        p = r.choice([1, 3, 5]) if k % 2 == 0 else r.choice([2, 4, 6])
        same = [p] * len(ds.samples)
        ped, _ = pedigree_file(r, ds, work, f"I{k}")
        tau = S.write_text(os.path.join(work, f"tau_int{k}.txt"), "".join(f"{s}\t{p // 2}\t{p - p // 2}\n" for s in ds.samples))
        progs = ["assemble", "call", "call-exact", "call-pedigree"]
        for program in (progs if tier == "thorough" else [progs[(k + C.seed()) % 4], progs[(k + C.seed() + 1) % 4], "call-pedigree"]):
            rep = report_subset(r)
            if program == "assemble":
                argv = with_ploidy(ds.assemble_argv(*fast, "--report", *rep), str(p))
                rn.run(ds, "assemble", argv, same, stream="ploidy-integer")
            else:
                mc = fast if program != "call-exact" else []
                rn.run(ds, program, caller_argv(ds, program, hap_gz, [*mc, "--report", *rep], ped, tau, ploidy=p), same,
                       in_records=in_recs, stream="ploidy-integer")


def sample_order(ds, field="SM"):
    """sample names in the order the programs derive them from the @RG lines of the --bam files"""
    out = []
    for p in ds.bams:
        for rg in ds.read_groups[p]:
            if rg[field] not in out:
                out.append(rg[field])
    return out


def glue_stream(rn, tier):
    """argument glue: --bam as a list file (paths / sample<TAB>path), --sample-pool (one pool / pool file), --read-group-field ID,
    a pedigree member that has no BAM (listed in --sample-parents only)"""
    chk, r, work = rn.chk, rn.r, rn.work
    fast = ["--mcmc-steps", "150", "--mcmc-burn", "50"]
    n_ds = {"warm": 1, "quick": 1, "thorough": 3}[tier]
    for k in range(n_ds):
        sub = C.rng(f"{PROP}:glue{k}")
        ds = S.make_dataset(sub, os.path.join(work, f"dsG{k}"), n_samples=3, n_loci=3, ploidies=(2, 4), max_snvs=3,
                            features={"multi_rg"} if (k + C.seed()) % 2 == 0 else set(), depth=(6, 12))
        names = sample_order(ds)
        pl = [ds.ploidy[s] for s in names]
        W = lambda name, text: S.write_text(os.path.join(work, f"{name}{k}.txt"), text)
        # ---- assemble, --bam <file of paths>
        bam_list = W("bam_paths", "".join(p + "\n" for p in ds.bams))
        argv = ["mchap", "assemble", "--bam", bam_list, "--ploidy", ds.ploidy_file, "--targets", ds.bed, "--variants", ds.snv_vcf,
                "--reference", ds.fasta, *fast, "--report", *report_subset(r)]
        _, recs, code, _ = rn.run(ds, "assemble", argv, pl, stream="bam-list-file", samples=names)
        if code != 0 or not recs:
            continue
        hap_gz, in_recs = hap_inputs(rn, ds, f"hapG{k}", last_output(rn))
        # ---- call, --bam <file of sample TAB path> in a shuffled order
        order = list(names)
        r.shuffle(order)
        pairs = W("bam_pairs", "".join(f"{s}\t{ds.sample_bam[s]}\n" for s in order))
        rn.run(ds, "call", ["mchap", "call", "--bam", pairs, "--ploidy", ds.ploidy_file, "--haplotypes", hap_gz, *fast, "--report", *report_subset(r)],
               [ds.ploidy[s] for s in order], in_records=in_recs, stream="bam-sample-path-file", samples=order)
        # ---- one pool of all samples (call-exact and assemble), ploidy as an integer
        p_pool = r.choice([2, 4, 6])
        rn.run(ds, "call-exact", ["mchap", "call-exact", "--bam", *ds.bams, "--sample-pool", "POOL", "--ploidy", str(p_pool), "--haplotypes", hap_gz,
                                  "--report", *report_subset(r)], [p_pool], in_records=in_recs, stream="sample-pool-all", samples=["POOL"])
        if tier != "warm":
            rn.run(ds, "assemble", with_ploidy(ds.assemble_argv(*fast, "--sample-pool", "POOL", "--report", *report_subset(r)), str(p_pool)),
                   [p_pool], stream="sample-pool-all", samples=["POOL"])
            # ---- pool file: the first two samples form one pool; pool order = first appearance in the file
            lines = [(names[2], "P_b"), (names[0], "P_a"), (names[1], "P_a")] if r.random() < 0.5 else [(names[0], "P_a"), (names[2], "P_b"), (names[1], "P_a")]
            pools = []
            for _, q in lines:
                if q not in pools:
                    pools.append(q)
            pool_file = W("pools", "".join(f"{s}\t{q}\n" for s, q in lines))
            pool_pl = {"P_a": r.choice([4, 6]), "P_b": ds.ploidy[names[2]]}
            pool_ploidy = W("pool_ploidy", "".join(f"{q}\t{v}\n" for q, v in pool_pl.items()))
            program = ["call", "assemble", "call-exact"][(k + C.seed()) % 3]
            if program == "assemble":
                argv = with_ploidy(ds.assemble_argv(*fast, "--sample-pool", pool_file, "--report", *report_subset(r)), pool_ploidy)
                rn.run(ds, "assemble", argv, [pool_pl[q] for q in pools], stream="sample-pool-file", samples=pools)
            else:
                mc = fast if program == "call" else []
                rn.run(ds, program, ["mchap", program, "--bam", *ds.bams, "--sample-pool", pool_file, "--ploidy", pool_ploidy, "--haplotypes", hap_gz,
                                     *mc, "--report", *report_subset(r)], [pool_pl[q] for q in pools], in_records=in_recs,
                       stream="sample-pool-file", samples=pools)
        # ---- --read-group-field ID: every read group is a sample
        ids = sample_order(ds, "ID")
        sm_of = {rg["ID"]: rg["SM"] for p in ds.bams for rg in ds.read_groups[p]}
        id_ploidy = W("id_ploidy", "".join(f"{i}\t{ds.ploidy[sm_of[i]]}\n" for i in reversed(ids)))
        id_pl = [ds.ploidy[sm_of[i]] for i in ids]
        chk.count(f"read-group-field-ID:samples={len(ids)}")
        program = ["assemble", "call"][(k + C.seed()) % 2] if tier != "thorough" else None
        if program in (None, "assemble"):
            rn.run(ds, "assemble", with_ploidy(ds.assemble_argv(*fast, "--read-group-field", "ID", "--report", *report_subset(r)), id_ploidy),
                   id_pl, stream="read-group-field-ID", samples=ids)
        if program in (None, "call"):
            rn.run(ds, "call", ["mchap", "call", "--bam", *ds.bams, "--read-group-field", "ID", "--ploidy", id_ploidy, "--haplotypes", hap_gz, *fast,
                                "--report", *report_subset(r)], id_pl, in_records=in_recs, stream="read-group-field-ID", samples=ids)
        # ---- a pedigree member without a BAM: appended after the samples of the BAM files, no reads at any locus
        for role in (("founder", "child") if tier != "warm" else ("founder",)):
            ped, _ = pedigree_file(r, ds, work, f"H{k}{role}")
            plines = open(ped).read().rstrip("\n").split("\n")
            gp = r.choice([2, 4])
            if role == "founder":
                f = plines[-1].split("\t")
                f[r.choice([1, 2])] = "GHOST"
                plines[-1] = "\t".join(f)
                plines.append("GHOST\t.\t.")
            else:
                a, b = r.choice(names), r.choice(names)
                plines.append(f"GHOST\t{a}\t{b if r.random() < 0.7 else '.'}")
            # pedigree_file lists the samples in Dataset order; the programs use the order of the BAM headers
            ped = W(f"ped_ghost_{role}", "\n".join(plines) + "\n")
            allp = {**ds.ploidy, "GHOST": gp}
            g_ploidy = W(f"ghost_ploidy_{role}", "".join(f"{s}\t{v}\n" for s, v in allp.items()))
            g_tau = W(f"ghost_tau_{role}", "".join(f"{s}\t{v // 2}\t{v - v // 2}\n" for s, v in allp.items()))
            rep = report_subset(r, force=("AFP",) if role == "child" else ())
            rn.run(ds, "call-pedigree", ["mchap", "call-pedigree", "--bam", *ds.bams, "--ploidy", g_ploidy, "--haplotypes", hap_gz,
                                         "--sample-parents", ped, "--gamete-ploidy", g_tau, *fast, "--report", *rep],
                   pl + [gp], in_records=in_recs, stream=f"pedigree-member-without-bam:{role}", samples=names + ["GHOST"])


def targets_stream(rn, tier):
    """target specifications: BED3 (no name -> ID '.'), gzipped BED4, --region with and without --region-id, a window starting
    at the first base of a contig (POS=1), loci on two contigs; the nameless output is re-called by the callers"""
    import gzip
    chk, r, work = rn.chk, rn.r, rn.work
    fast = ["--mcmc-steps", "150", "--mcmc-burn", "50"]
    n_ds = {"warm": 1, "quick": 1, "thorough": 3}[tier]
    for k in range(n_ds):
        sub = C.rng(f"{PROP}:targets{k}")
        ds = S.make_dataset(sub, os.path.join(work, f"dsT{k}"), n_samples=2, n_loci=4, ploidies=(2, 4), max_snvs=3,
                            features=set(), depth=(6, 12), n_contigs=2, contig_len=400)
        ploidies = [ds.ploidy[s] for s in ds.samples]
        chk.count(f"targets:contigs-with-loci={len({l.contig for l in ds.loci})}")
        # windows: the first locus of every contig is widened to start at base 1 of the contig
        wins, firsts = [], set()
        for l in ds.loci:
            if l.contig not in firsts:
                firsts.add(l.contig)
                wins.append((l.contig, 0, l.stop, l.name))
            else:
                wins.append((l.contig, l.start, l.stop, l.name))
        base = ["mchap", "assemble", "--bam", *ds.bams, "--ploidy", ds.ploidy_file, "--variants", ds.snv_vcf, "--reference", ds.fasta, *fast]
        # ---- BED3
        bed3 = S.write_text(os.path.join(work, f"t{k}.bed3"), "".join(f"{c}\t{a}\t{b}\n" for c, a, b, _ in wins))
        t3 = [(c, a, b, ".") for c, a, b, _ in wins]
        _, recs, code, _ = rn.run(ds, "assemble", base + ["--targets", bed3, "--report", *report_subset(r)], ploidies, targets=t3, stream="targets-BED3")
        if code == 0 and len(recs) != len(t3):
            chk.violation("assemble did not print one record per BED3 target", {"records": len(recs), "targets": t3}, "C07/assemble/one-record-per-target")
        chk.count("targets:records-at-POS=1", sum(1 for x in recs if x["POS"] == 1))
        if code == 0 and recs:
            hap_gz, in_recs = hap_inputs(rn, ds, f"hapT{k}", last_output(rn))
            three_callers(rn, ds, hap_gz, in_recs, ploidies, fast, "targets-nameless-input", k, exact_limit=12)
        # ---- gzipped BED4 (with a comment line)
        bedgz = os.path.join(work, f"t{k}.bed.gz")
        with gzip.open(bedgz, "wt") as f:
            f.write("#contig\tstart\tstop\tname\n" + "".join(f"{c}\t{a}\t{b}\t{n}\n" for c, a, b, n in wins))
        rn.run(ds, "assemble", base + ["--targets", bedgz, "--report", *report_subset(r)], ploidies, targets=wins, stream="targets-BED4-gz")
        # ---- --region (half-open 0-based interval like a BED line), without and with --region-id
        picks = [wins[0], r.choice(wins[1:])] if tier != "warm" else [wins[0]]
        for j, (c, a, b, n) in enumerate(picks):
            with_id = (j + k + C.seed()) % 2 == 1
            argv = base + ["--region", f"{c}:{a}-{b}"] + (["--region-id", f"reg_{n}"] if with_id else []) + ["--report", *report_subset(r)]
            rn.run(ds, "assemble", argv, ploidies, targets=[(c, a, b, f"reg_{n}" if with_id else ".")],
                   stream="region-with-id" if with_id else "region-without-id")


def extra_streams(rn, tier):
    large_panel_stream(rn, tier)
    noa_stream(rn, tier)
    filter_stream(rn, tier)
    ploidy_stream(rn, tier)
    glue_stream(rn, tier)
    targets_stream(rn, tier)
