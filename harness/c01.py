"""C01 — every move of the assemble sampler leaves the tempered posterior invariant.

Correspondence: the probability vector handed to `random_choice` inside `base_step` /
`interval_step` (observed by running the dispatcher's `.py_func` with the module-level
`random_choice` replaced by a recorder that forces each index in turn) and the genotype each index
leads to, as the map {unordered resulting genotype -> probability}, against the kernel of the Lean
model (`MCHap/Model/AssembleMoves.lean`); `haplotype_segment_labels`, the option enumerators and
`chain_swap_acceptance` likewise.  Implementation oracle: detailed balance of the kernel extracted
from the real code on completely enumerated small instances, and independence of the kernel from
the row order.
"""
from __future__ import annotations

import itertools
import math
import zlib

import numpy as np

from . import common as C
from . import gen as G

PROP = "C01"
MODULE = "MCHap.Properties.C01"
THEOREMS = [
    "MCHap.C01.factProd_swap",
    "MCHap.C01.mh_core",
    "MCHap.C01.base_step_db",
    "MCHap.C01.pathwise_db",
    "MCHap.C01.copies_eq_count",
    "MCHap.C01.base_step_kernel_db",
    "MCHap.C01.dosage_db",
    "MCHap.C01.recomb_db",
    "MCHap.C01.dosage_return_pos",
    "MCHap.C01.recomb_return_pos",
    "MCHap.C01.dosageNOptions_eq_card",
    "MCHap.C01.recombNOptions_double_eq_card",
    "MCHap.C01.dosagePairs_sound",
    "MCHap.C01.dosagePairs_injective",
    "MCHap.C01.recombPairs_sound",
    "MCHap.C01.base_step_literal_db",
    "MCHap.C01.baseStepOptions_length",
    "MCHap.C01.kernelMass_dosage",
    "MCHap.C01.kernelMass_recomb",
    "MCHap.C01.dosage_step_kernel_db",
    "MCHap.C01.recomb_step_kernel_db",
    "MCHap.C01.dosage_mass_order_independent",
    "MCHap.C01.exchange_db",
    "MCHap.C01.exchangeStep_spec",
    "MCHap.C01.exchangeStep_involutive",
    "MCHap.C01.assemblePrior_dosage_perm",
    "MCHap.C01.asmW_perm",
    "MCHap.C01.stationary_of_db",
    "MCHap.C01.invariant_comp",
    "MCHap.C01.invariant_sweep",
    "MCHap.C01.invariant_mix",
]
RULE = ("cases: random instances (ploidy 1..6, 1..5 SNVs with 2..4 alleles, reads with gaps / counts / hard calls, inbreeding in "
        "{0,.01,.25,.5,.9}, inverse temperature in {1,.5,.1}) x current genotype (excess of duplicated haplotypes) x move "
        "(mutation at (h,j); recombination / dosage on an interval or the full length; exchange). Non-trivial: the move has >= 2 options "
        "(>= 1 for interval moves) and the genotype has a duplicated haplotype or the site is multi-allelic or T < 1. Distinct by request line.")

TEMPS = [1.0, 1.0, 0.5, 0.1]
INBREEDING = [0.0, 0.0, 0.01, 0.25, 0.5, 0.9]


class Recorder:
    def __init__(self):
        self.probs = None
        self.force = 0

    def __call__(self, probabilities):
        self.probs = np.array(probabilities, dtype=float)
        return self.force


def opt_prob(R, Q, T, n):
    """min(1, R^T Q) / n (the code's exp(min(0, (llr + lpr) * T + lq)) / n_options)"""
    if R == 0:
        return 0.0
    if T == 1.0:
        x = R * Q
        return float(min(1, x) / n)
    lr = C.frac_log(R) * T + C.frac_log(Q)
    return math.exp(min(0.0, lr)) / n


def model_kernel(ans, T, current, with_labels=False):
    """parse a `kern.*` reply into ({canonical genotype: prob}, n_options, labels)"""
    parts = ans.split(";")
    labels = None
    if with_labels:
        labels = parts[0]
        parts = parts[1:]
    n = int(parts[0])
    out = {}
    total = 0.0
    for o in parts[1:]:
        gs, Rs, Qs = o.split(",")
        g = tuple(sorted(tuple(int(a) for a in row.split()) for row in gs.split("|")))
        p = opt_prob(C.parse_rat(Rs), C.parse_rat(Qs), T, n)
        out[g] = out.get(g, 0.0) + p
        total += p
    out[current] = out.get(current, 0.0) + (1.0 - total)
    return out, n, labels


def same_kernel(a, b, tol=1e-9):
    keys = set(a) | set(b)
    for k in keys:
        x, y = a.get(k, 0.0), b.get(k, 0.0)
        if not (math.isfinite(x) and math.isfinite(y)) or abs(x - y) > tol * max(abs(x), abs(y)) + 1e-12:
            return False, k       # a NaN / infinite probability never agrees with anything
    return True, None


def wiring(chk, r, n):
    """The elementary moves are proved / compared in isolation; the sampler reaches them through
    `mutation.compound_step`, `structural.compound_step` and `_denovo_assembler`.  Here those callers run as plain
    Python with the callee replaced by a recorder, and every call must carry the chain's own parameters: the
    inbreeding coefficient, the inverse temperature of that chain, the read counts, log(#haplotypes), the number of
    alleles of the site / the interval, the move type, and the exchange must pair chain t with chain t-1."""
    from mchap.assemble import mutation, structural, mcmc as amcmc
    for it in range(n):
        ploidy = r.choice([2, 3, 4]); n_base = r.randint(2, 5)
        n_alleles = [r.choice([2, 2, 3, 4]) for _ in range(n_base)]
        g = np.array(G.gen_genotype(r, ploidy, n_alleles), dtype=np.int8)
        reads, counts = G.gen_reads(r, n_alleles, r.randint(2, 5), haps=g.tolist(), style="encoded")
        counts = counts + r.randint(0, 2)
        F = r.choice([0.05, 0.3, 0.6]); T = r.choice([0.2, 0.5, 1.0])
        logU = float(np.log(np.array(n_alleles)).sum())
        case = {"ploidy": ploidy, "n_alleles": n_alleles, "inbreeding": F}
        calls = []

        # ---- mutation sweep -> base_step
        def rec_base(genotype, reads, llk, h, j, n_alleles, log_unique_haplotypes, inbreeding=0, temp=1, read_counts=None, cache=None):
            calls.append(dict(h=int(h), j=int(j), n_alleles=int(n_alleles), logU=float(log_unique_haplotypes), F=inbreeding, T=temp,
                              counts=None if read_counts is None else np.array(read_counts).tolist()))
            return llk, cache
        orig = mutation.base_step
        mutation.base_step = rec_base
        try:
            mutation.compound_step.py_func(g.copy(), reads, -1.0, np.array(n_alleles, dtype=np.int8), logU, inbreeding=F, temp=T,
                                           read_counts=counts, cache=None)
        finally:
            mutation.base_step = orig
        chk.count("wiring:mutation-sweep")
        chk.case(("wiring", "mutation", it, ploidy, tuple(n_alleles), F, T), True)
        bad = [c for c in calls if not (c["F"] == F and c["T"] == T and abs(c["logU"] - logU) < 1e-12 and c["counts"] == counts.tolist()
                                        and c["n_alleles"] == n_alleles[c["j"]])]
        if bad or sorted((c["h"], c["j"]) for c in calls) != [(h, j) for h in range(ploidy) for j in range(n_base)]:
            chk.violation("the mutation sweep does not hand the chain's parameters (inbreeding, temperature, read counts, allele number "
                          "of the site) to every single-site move, once per (haplotype, site)",
                          {**case, "temp": T, "first_bad_call": (bad or calls)[:1]}, "C01/wiring/mutation-sweep")

        # ---- structural sweep -> interval_step
        calls = []

        def rec_int(genotype, reads, llk, log_unique_haplotypes, inbreeding=0, interval=None, step_type=0, temp=1, read_counts=None, cache=None):
            calls.append(dict(interval=None if interval is None else [int(interval[0]), int(interval[1])], st=int(step_type),
                              logU=float(log_unique_haplotypes), F=inbreeding, T=temp,
                              counts=None if read_counts is None else np.array(read_counts).tolist()))
            return llk, cache
        st = r.choice([0, 1])
        intervals = structural.random_breaks(r.randint(0, n_base - 1), n_base)
        orig = structural.interval_step
        structural.interval_step = rec_int
        try:
            structural.compound_step.py_func(g.copy(), reads, -1.0, intervals, logU, inbreeding=F, step_type=st, randomize=True, temp=T,
                                             read_counts=counts, cache=None)
        finally:
            structural.interval_step = orig
        chk.count("wiring:structural-sweep")
        bad = [c for c in calls if not (c["F"] == F and c["T"] == T and c["st"] == st and abs(c["logU"] - logU) < 1e-12
                                        and c["counts"] == counts.tolist())]
        if bad or sorted(c["interval"] for c in calls) != sorted([int(a), int(b)] for a, b in intervals):
            chk.violation("the structural sweep does not hand the chain's parameters (inbreeding, temperature, read counts, move type) "
                          "to every interval move, once per interval",
                          {**case, "temp": T, "step_type": st, "intervals": np.array(intervals).tolist(), "first_bad_call": (bad or calls)[:1]},
                          "C01/wiring/structural-sweep")

        # ---- inside a sweep: the likelihood a move is handed is the likelihood of the genotype at that moment, and the one it
        # returns is that of the genotype it leaves (real moves, wrapped; sweeps as plain Python; cache on and off)
        from mchap.assemble.likelihood import log_likelihood as _ll, new_log_likelihood_cache as _newc
        stale = []

        def wrap(real, kind):
            import inspect
            sig_ = inspect.signature(real.py_func)

            def f_(*a_, **kw_):
                b_ = sig_.bind(*a_, **kw_)
                b_.apply_defaults()
                return g_(b_.arguments["genotype"], b_.arguments["reads"], b_.arguments["llk"], b_.arguments.get("read_counts"), a_, kw_)

            def g_(genotype, reads_, llk, rc_, a_, kw_):
                kw = {"read_counts": rc_}
                before = float(_ll(reads_, genotype, read_counts=kw.get("read_counts")))
                if math.isfinite(before) and not (abs(float(llk) - before) <= 1e-9 * max(1.0, abs(before))):
                    stale.append({"move": kind, "when": "handed", "carried": float(llk), "of_the_current_genotype": before,
                                  "genotype": np.array(genotype).tolist()})
                out = real(*a_, **kw_)
                after = float(_ll(reads_, genotype, read_counts=kw.get("read_counts")))
                if math.isfinite(after) and not (abs(float(out[0]) - after) <= 1e-9 * max(1.0, abs(after))):
                    stale.append({"move": kind, "when": "returned", "carried": float(out[0]), "of_the_current_genotype": after,
                                  "genotype": np.array(genotype).tolist()})
                return out
            return f_
        g2 = g.copy()
        llk2 = float(_ll(reads, g2, read_counts=counts))
        if math.isfinite(llk2):
            cache2 = _newc(ploidy, n_base, max(n_alleles)) if it % 2 else None
            o_b, o_i = mutation.base_step, structural.interval_step
            mutation.base_step, structural.interval_step = wrap(o_b, "base_step"), wrap(o_i, "interval_step")
            try:
                np.random.seed(r.randrange(2 ** 31))
                for _ in range(3):
                    llk2, cache2 = mutation.compound_step.py_func(g2, reads, llk2, np.array(n_alleles, dtype=np.int8), logU, inbreeding=F,
                                                                  temp=T, read_counts=counts, cache=cache2)
                    for st2 in (0, 1):
                        iv = structural.random_breaks(r.randint(0, n_base - 1), n_base)
                        llk2, cache2 = structural.compound_step.py_func(g2, reads, llk2, iv, logU, inbreeding=F, step_type=st2,
                                                                        randomize=True, temp=T, read_counts=counts, cache=cache2)
            finally:
                mutation.base_step, structural.interval_step = o_b, o_i
            chk.count("wiring:likelihood-carried-inside-sweeps")
            fin = float(_ll(reads, g2, read_counts=counts))
            if math.isfinite(fin) and not (abs(llk2 - fin) <= 1e-9 * max(1.0, abs(fin))):
                stale.append({"move": "sweep", "when": "returned", "carried": llk2, "of_the_current_genotype": fin, "genotype": g2.tolist()})
            if stale:
                chk.violation("inside a sweep a move is handed / returns a likelihood that is not the likelihood of the genotype at that moment",
                              {**case, "temp": T, **stale[0], "n_affected": len(stale)}, "C01/wiring/stale-likelihood")

        # ---- the assembler loop -> sweeps and exchange
        temps = np.array(sorted(r.sample([0.1, 0.25, 0.4, 0.6, 0.8], r.choice([1, 2])) + [1.0]))
        log = []

        def rec_mut(genotype, reads, llk, n_alleles, log_unique_haplotypes, inbreeding=0, temp=1, read_counts=None, cache=None):
            log.append(("mut", dict(F=inbreeding, T=float(temp), counts=np.array(read_counts).tolist(),
                                    logU=float(log_unique_haplotypes), reads_ok=reads.shape == reads0.shape and bool(np.array_equal(reads, reads0, equal_nan=True)),
                                    nall=np.array(n_alleles).tolist())))
            return carry(float(temp), llk, 1.0), cache

        def rec_str(genotype, reads, llk, intervals, log_unique_haplotypes, inbreeding=0, step_type=0, randomize=True, temp=1,
                    read_counts=None, cache=None):
            log.append(("str", dict(F=inbreeding, T=float(temp), st=int(step_type), counts=np.array(read_counts).tolist(),
                                    logU=float(log_unique_haplotypes), reads_ok=reads.shape == reads0.shape and bool(np.array_equal(reads, reads0, equal_nan=True)),
                                    intervals=np.array(intervals).tolist())))
            return carry(float(temp), llk, 0.5), cache

        def rec_swap(genotype_i, llk_i, temp_i, genotype_j, llk_j, temp_j, log_unique_haplotypes, inbreeding=0):
            log.append(("swap", dict(F=inbreeding, Ti=float(temp_i), Tj=float(temp_j), logU=float(log_unique_haplotypes))))
            # an "accepted exchange": the two chains leave with each other's (perturbed) value
            for T_, v_ in ((float(temp_i), llk_i), (float(temp_j), llk_j)):
                if T_ in ledger and not (float(v_) == ledger[T_]):
                    ledger_bad.append({"move": "exchange", "chain_inverse_temperature": T_, "handed": float(v_), "carried_by_that_chain": ledger[T_]})
            ledger[float(temp_i)], ledger[float(temp_j)] = float(llk_j) + 0.25, float(llk_i) + 0.125
            return ledger[float(temp_i)], ledger[float(temp_j)]
        # a ledger of the likelihood each chain carries: every recorded move returns a value different from the one it was handed,
        # and must later be handed exactly what the last move of that chain (or the exchange) returned
        ledger, ledger_bad = {}, []

        def carry(T_, llk_, inc):
            if T_ in ledger and not (float(llk_) == ledger[T_]):
                ledger_bad.append({"move": "sweep", "chain_inverse_temperature": T_, "handed": float(llk_), "carried_by_that_chain": ledger[T_]})
            ledger[T_] = float(llk_) + inc
            return ledger[T_]
        o1, o2, o3 = mutation.compound_step, structural.compound_step, amcmc.chain_swap_step
        mutation.compound_step, structural.compound_step, amcmc.chain_swap_step = rec_mut, rec_str, rec_swap
        reads0 = reads
        steps = 3
        try:
            amcmc._denovo_assembler.py_func(genotype=g.copy(), inbreeding=F, reads=reads, read_counts=counts,
                                            n_alleles=np.array(n_alleles, dtype=np.int8), steps=steps,
                                            break_dist=np.array([0.6, 0.4]), recombination_step_probability=1.0,
                                            partial_dosage_step_probability=1.0, dosage_step_probability=1.0,
                                            temperatures=temps, return_heated_trace=False, llk_cache_threshold=-1)
        finally:
            mutation.compound_step, structural.compound_step, amcmc.chain_swap_step = o1, o2, o3
        chk.count("wiring:assembler")
        chk.case(("wiring", "assembler", it, tuple(temps.tolist()), F), len(temps) > 1)
        if ledger_bad:
            chk.violation("the assembler loop hands a move a likelihood that is not the one its chain carries (what the chain's last "
                          "move or exchange returned)", {**case, "temperatures": temps.tolist(), **ledger_bad[0], "n_affected": len(ledger_bad)},
                          "C01/wiring/assembler-ledger")
        expect = []
        for _ in range(steps):
            for t in range(len(temps)):
                expect += [("mut", temps[t]), ("str0", temps[t]), ("str1", temps[t]), ("str1full", temps[t])]
                if t > 0:
                    expect.append(("swap", temps[t], temps[t - 1]))
        got = []
        okp = True
        for kind, d in log:
            okp &= d["F"] == F and (kind == "swap" or d["counts"] == counts.tolist())
            # (run as plain Python, np.log of the int8 allele numbers is a float16: 1e-2 still separates any two allele-number vectors)
            okp &= abs(d["logU"] - logU) <= 1e-2 and d.get("reads_ok", True) and d.get("nall", n_alleles) == n_alleles
            if kind == "mut":
                got.append(("mut", d["T"]))
            elif kind == "str":
                full = d["intervals"] == [[0, n_base]]
                parts = sorted(d["intervals"])
                okp &= parts[0][0] == 0 and parts[-1][1] == n_base and all(a[1] == b[0] for a, b in zip(parts, parts[1:]))
                got.append((("str1full" if (full and d["st"] == 1 and got and got[-1][0] == "str1") else f"str{d['st']}"), d["T"]))
            else:
                got.append(("swap", d["Ti"], d["Tj"]))
        if not okp or got != [tuple(float(x) if not isinstance(x, str) else x for x in e) for e in expect]:
            chk.violation("the assembler loop does not run, for every step and every chain, mutation sweep / recombination sweep / "
                          "interval dosage sweep / full-length dosage sweep with that chain's temperature and the sample's inbreeding, "
                          "followed by an exchange with the next hotter chain (each with the sample's reads, counts, allele numbers and log(#haplotypes))",
                          {**case, "temperatures": temps.tolist(), "observed": got[:12], "expected": [list(e) for e in expect[:12]]},
                          "C01/wiring/assembler")

        # ---- DenovoMCMC.fit -> _denovo_assembler (no position screened out: fix_homozygous above 1)
        import inspect
        seen = []
        sig_a = inspect.signature(amcmc._denovo_assembler.py_func)

        def rec_asm(*a, **kw):
            d = dict(sig_a.bind(*a, **kw).arguments)
            seen.append(d)
            k = len(seen)
            n_t = 1
            return (np.full((n_t, int(d["steps"]), ploidy, n_base), k % 2, dtype=np.int8), np.full((n_t, int(d["steps"])), -float(k)))
        o4 = amcmc._denovo_assembler
        temps_u = [float(x) for x in temps[::-1]]              # given unsorted; the sampler wants them ascending
        probs = (r.choice([0.25, 0.5]), r.choice([0.3, 0.6]), r.choice([0.1, 0.9]))
        n_ch = r.choice([1, 2, 3])
        amcmc._denovo_assembler = rec_asm
        try:
            model = amcmc.DenovoMCMC(ploidy=ploidy, n_alleles=n_alleles, inbreeding=F, steps=7, chains=n_ch, fix_homozygous=2.0,
                                     recombination_step_probability=probs[0], partial_dosage_step_probability=probs[1],
                                     dosage_step_probability=probs[2], temperatures=temps_u, random_seed=5, llk_cache_threshold=13)
            tr = model.fit(reads, read_counts=counts)
        finally:
            amcmc._denovo_assembler = o4
        chk.count("wiring:DenovoMCMC.fit")
        chk.case(("wiring", "fit", it, n_ch), True)
        bad = None
        if len(seen) != n_ch:
            bad = "not one sampler run per chain"
        for k, d in enumerate(seen):
            if float(d["inbreeding"]) != F:
                bad = "inbreeding"
            elif not np.array_equal(np.asarray(d["read_counts"]), counts):
                bad = "read_counts"
            elif not (np.asarray(d["reads"]).shape == reads.shape and np.array_equal(np.asarray(d["reads"]), reads, equal_nan=True)):
                bad = "reads"
            elif np.asarray(d["n_alleles"]).tolist() != n_alleles:
                bad = "n_alleles"
            elif [float(x) for x in np.asarray(d["temperatures"])] != sorted(temps_u):
                bad = "temperatures (ascending, ending in 1)"
            elif int(d["steps"]) != 7 or int(d["llk_cache_threshold"]) != 13:
                bad = "steps / llk_cache_threshold"
            elif (float(d["recombination_step_probability"]), float(d["partial_dosage_step_probability"]),
                  float(d["dosage_step_probability"])) != probs:
                bad = "step probabilities"
            elif np.asarray(d["genotype"]).shape != (ploidy, n_base):
                # (only the shape: at a site that no read covers the code draws the initial allele uniformly over the padded allele
                # axis, so the start state can hold an allele number the site does not have - it is replaced by the first mutation
                # sweep; the property is about the moves, see DESIGN section 5, observation O1)
                bad = "initial genotype (shape)"
            elif not (np.asarray(tr.genotypes[k]) == (k + 1) % 2).all() or not (np.asarray(tr.llks[k]) == -float(k + 1)).all():
                bad = "trace (not what the chains returned, chain by chain)"
        if bad:
            chk.violation(f"DenovoMCMC.fit hands _denovo_assembler the wrong {bad}" if bad != "not one sampler run per chain" else
                          "DenovoMCMC.fit: " + bad, {**case, "chains": n_ch, "temperatures_given": temps_u}, "C01/wiring/fit")


def run(tier, replay=None):
    from mchap.assemble import mutation, structural, tempering
    from mchap.assemble.likelihood import log_likelihood
    from mchap.assemble.prior import log_genotype_prior
    from mchap.jitutils import get_haplotype_dosage

    chk = C.Check(PROP, tier, MODULE, THEOREMS, RULE, assumptions=[
        "the kernel is observed on the dispatcher's .py_func (same source as the jitted code); numba compilation is trusted",
        "tempering min(1, R^T Q) is evaluated in float64 on both sides (R, Q exact rationals from the model)",
        "ergodicity / convergence is not claimed; the theorems are detailed balance and stationarity",
    ])
    chk.prove()
    drv = C.Driver()
    r = C.rng(PROP)
    n_cases = {"warm": 4, "quick": 450, "thorough": 4000}[tier]

    rec_m, rec_s = Recorder(), Recorder()
    orig_m, orig_s = mutation.random_choice, structural.random_choice
    mutation.random_choice = rec_m
    structural.random_choice = rec_s

    def lprior_of(g, logU, F):
        d = np.zeros(len(g), dtype=np.int8)
        get_haplotype_dosage(d, g)
        return log_genotype_prior(d, logU, inbreeding=F)

    def impl_base(garr, reads, counts, h, j, na, logU, F, T):
        llk = log_likelihood(reads, garr, read_counts=counts)
        out = {}
        probs = None
        for idx in range(na):
            g2 = garr.copy()
            rec_m.force = idx
            mutation.base_step.py_func(g2, reads, llk, h, j, na, logU, inbreeding=F, temp=T, read_counts=counts, cache=None)
            probs = rec_m.probs
            key = G.canon_genotype(g2)
            out[key] = out.get(key, 0.0) + float(probs[idx])
        return out, probs

    def call_interval(g2, reads, llk, logU, F, lo, hi, st, T, counts, via_compound):
        if via_compound:
            # the sweep function the sampler actually calls, with this one interval: the option kernel must be the same
            jitted = structural.interval_step
            structural.interval_step = jitted.py_func      # plain Python all the way down (the recorder replaces random_choice)
            try:
                structural.compound_step.py_func(g2, reads, llk, np.array([[lo, hi]]), logU, inbreeding=F, step_type=st,
                                                 randomize=False, temp=T, read_counts=counts, cache=None)
            finally:
                structural.interval_step = jitted
        else:
            structural.interval_step.py_func(g2, reads, llk, logU, inbreeding=F, interval=(lo, hi), step_type=st, temp=T,
                                             read_counts=counts, cache=None)

    def impl_interval(garr, reads, counts, lo, hi, st, logU, F, T, via_compound=False):
        llk = log_likelihood(reads, garr, read_counts=counts)
        rec_s.probs = None
        rec_s.force = 0
        g2 = garr.copy()
        call_interval(g2, reads, llk, logU, F, lo, hi, st, T, counts, via_compound)
        if rec_s.probs is None:
            return {G.canon_genotype(garr): 1.0}, 0
        probs = rec_s.probs
        n = len(probs) - 1
        out = {}
        for idx in range(n + 1):
            g2 = garr.copy()
            rec_s.force = idx
            call_interval(g2, reads, llk, logU, F, lo, hi, st, T, counts, via_compound)
            key = G.canon_genotype(g2)
            out[key] = out.get(key, 0.0) + float(rec_s.probs[idx])
        return out, n

    try:
        # ------------------------------------------------------------------ correspondence on random cases
        cases, lines = [], []
        for i in range(n_cases):
            ploidy = r.choice([1, 2, 3, 3, 4, 4, 5, 6])
            n_base = r.randint(1, 5)
            n_alleles = G.gen_n_alleles(r, n_base)
            g = G.gen_genotype(r, ploidy, n_alleles, dup=0.6)
            if i % 10 == 7:
                # pooled samples: many copies, mostly duplicated haplotypes
                ploidy = r.choice([8, 12, 20])
                g = G.gen_genotype(r, ploidy, n_alleles, dup=0.9)
            big = (i % 40 == 13)
            if big:
                # a large pool that is almost fixed for one haplotype: more than 127 copies of it
                ploidy = r.choice([130, 140, 160]); n_base = 2; n_alleles = [2, 2]
                major = [r.randrange(2), r.randrange(2)]
                g = [list(major) for _ in range(ploidy - 2)] + [[r.randrange(2), r.randrange(2)] for _ in range(2)]
                r.shuffle(g)
            reads, counts = G.gen_reads(r, n_alleles, r.randint(0, 6), haps=g if r.random() < 0.8 else None,
                                        gap=r.choice([0.0, 0.2, 0.5]), style=r.choice(["encoded", "encoded", "free", "hard"]))
            if len(counts) == 0:
                reads = np.full((1, n_base, max(n_alleles)), np.nan); counts = np.array([1], dtype=np.int64)
            F = r.choice(INBREEDING)
            T = r.choice(TEMPS) if r.random() < 0.6 else float(10 ** -r.uniform(0, 4))     # any ladder value in (1e-4, 1]
            U = int(np.prod(n_alleles)); logU = float(np.log(np.array(n_alleles)).sum())
            move = r.choice(["base", "base", "recomb", "dosage", "dosage_full"])
            if big:
                move = r.choice(["base", "dosage"])
            common = G.reads_tokens(reads, counts) + G.genotype_tokens(g) + [str(U), C.rat_str(F)]
            if move == "base":
                h = r.randrange(ploidy); j = r.randrange(n_base)
                line = " ".join(["kern.base"] + common + [str(h), str(j), str(n_alleles[j])])
                extra = (h, j)
            else:
                if move == "dosage_full":
                    lo, hi = 0, n_base
                else:
                    lo = r.randint(0, n_base - 1); hi = r.randint(lo + 1, n_base)
                st = 0 if move == "recomb" else 1
                if r.random() < 0.7 and ploidy >= 2 and not big:
                    # genotype assembled from small pools of inside / outside segments, so that segments are shared
                    ins = [[r.randrange(a) for a in n_alleles[lo:hi]] for _ in range(r.randint(2, 3))]
                    outs = [[r.randrange(a) for a in n_alleles[:lo] + n_alleles[hi:]] for _ in range(r.randint(2, 3))]
                    g = []
                    for _ in range(ploidy):
                        a_, b_ = r.choice(ins), r.choice(outs)
                        g.append(b_[:lo] + a_ + b_[lo:])
                    common = G.reads_tokens(reads, counts) + G.genotype_tokens(g) + [str(U), C.rat_str(F)]
                line = " ".join(["kern.interval"] + common + [str(lo), str(hi), str(st)])
                extra = (lo, hi, st)
            cases.append((move, ploidy, n_base, n_alleles, g, reads, counts, F, T, U, logU, extra))
            lines.append(line)
        ans = drv.ask(lines)
        for (move, ploidy, n_base, n_alleles, g, reads, counts, F, T, U, logU, extra), a, line in zip(cases, ans, lines):
            garr = np.array(g, dtype=np.int8)
            cur = G.canon_genotype(g)
            dup = len(set(map(tuple, g))) < ploidy
            case = {"move": move, "ploidy": ploidy, "n_alleles": n_alleles, "genotype": g, "inbreeding": F, "temp": T,
                    "counts": counts.tolist(), "reads": [[[None if math.isnan(x) else x for x in row] for row in rd] for rd in reads.tolist()]}
            chk.count(f"move={move}"); chk.count(f"T={T}" if T in TEMPS else "T=other(1e-4..1)"); chk.count(f"F={F}"); chk.count(f"ploidy={ploidy}")
            if math.isinf(float(log_likelihood(reads, garr, read_counts=counts))):
                chk.count("skipped:current-likelihood-zero")
                continue
            if move == "base":
                h, j = extra
                mk, n, _ = model_kernel(a, T, cur)
                try:
                    ik, probs = impl_base(garr, reads, counts, h, j, n_alleles[j], logU, F, T)
                except Exception as e:   # noqa: BLE001
                    chk.violation(f"base_step raises on a valid state: {type(e).__name__}: {e}", {**case, "h": h, "j": j},
                                  "C01/base_step/raises" + ("-ploidy>128" if ploidy > 128 else ""))
                    continue
                nontriv = n >= 2 and (dup or n_alleles[j] > 2 or T < 1)
                case.update({"h": h, "j": j})
            else:
                lo, hi, st = extra
                mk, n, mlabels = model_kernel(a, T, cur, with_labels=True)
                via = (zlib.crc32(line.encode()) % 2 == 0)
                chk.count("interval-via-compound_step" if via else "interval-direct")
                try:
                    ik, n_impl = impl_interval(garr, reads, counts, lo, hi, st, logU, F, T, via_compound=via)
                except Exception as e:   # noqa: BLE001
                    chk.violation(f"interval_step raises on a valid state: {type(e).__name__}: {e}",
                                  {**case, "interval": [lo, hi], "step_type": st},
                                  "C01/interval_step/raises" + ("-ploidy>128" if ploidy > 128 else ""))
                    continue
                ilabels = " ".join(f"{int(x)}:{int(y)}" for x, y in structural.haplotype_segment_labels(garr, (lo, hi)))
                case.update({"interval": [lo, hi], "step_type": st})
                if ilabels != mlabels:
                    chk.disagreement("haplotype_segment_labels != model segmentLabels", {**case, "impl": ilabels, "model": mlabels})
                if n_impl != n:
                    chk.disagreement("number of interval-move options differs", {**case, "impl": n_impl, "model": n})
                chk.count(f"interval-options={min(n, 6)}")
                nontriv = n >= 1 and (dup or T < 1 or max(n_alleles) > 2)
            chk.case(line, nontriv, sample={"request": line[:240], "impl_kernel": {str(k): v for k, v in ik.items()},
                                            "model_kernel": {str(k): v for k, v in mk.items()}})
            ok, key = same_kernel(ik, mk)
            if not ok:
                chk.disagreement(f"{move} kernel impl != model", {**case, "at": str(key), "impl": ik.get(key, 0.0), "model": mk.get(key, 0.0)})
            # the compiled move where its outcome does not depend on the draw (a single outcome of probability one)
            sure = [k for k, v in ik.items() if v >= 1 - 1e-12]
            if ok and len(sure) == 1 and ploidy <= 20:
                g2 = garr.copy()
                llk0 = float(log_likelihood(reads, garr, read_counts=counts))
                mutation.random_choice, structural.random_choice = orig_m, orig_s      # the compiled code must see the real function
                try:
                    if move == "base":
                        out = mutation.base_step(g2, reads, llk0, extra[0], extra[1], n_alleles[extra[1]], logU, inbreeding=F, temp=T,
                                                 read_counts=counts, cache=None)
                    else:
                        out = structural.interval_step(g2, reads, llk0, logU, inbreeding=F, interval=np.array([extra[0], extra[1]]),
                                                       step_type=extra[2], temp=T, read_counts=counts, cache=None)
                    chk.count("compiled-move:deterministic-outcome")
                    want_llk = float(log_likelihood(reads, g2, read_counts=counts))
                    if G.canon_genotype(g2.tolist()) != sure[0] or not C.close_log(float(out[0]), want_llk):
                        chk.violation(f"the compiled {move} move does not produce the only possible outcome / returns a likelihood that is "
                                      "not the likelihood of the state it left", {**case, "after": g2.tolist(), "returned_llk": float(out[0]),
                                                                                 "llk_of_state": want_llk, "expected_state": str(sure[0])},
                                      f"C01/{move}/compiled")
                except Exception as e:   # noqa: BLE001
                    chk.violation(f"the compiled {move} move raises on a valid state: {type(e).__name__}: {e}", case, f"C01/{move}/compiled-raises")
                finally:
                    mutation.random_choice, structural.random_choice = rec_m, rec_s

        # ------------------------------------------------------------------ exchange move
        n_ex = max(3, n_cases // 5)
        lines, meta = [], []
        for i in range(n_ex):
            ploidy = r.choice([2, 3, 4, 4, 6]); n_base = r.randint(1, 4)
            n_alleles = G.gen_n_alleles(r, n_base)
            # (duplicated haplotypes are frequent: same number of distinct haplotypes, different dosage partitions - 2:2 vs 3:1)
            gi = G.gen_genotype(r, ploidy, n_alleles, dup=0.5); gj = G.gen_genotype(r, ploidy, n_alleles, dup=0.5)
            reads, counts = G.gen_reads(r, n_alleles, r.randint(1, 5), haps=gi, style="encoded")
            F = r.choice(INBREEDING)
            Ti = r.choice([1.0, 0.7, 0.4]); Tj = Ti * r.choice([0.1, 0.5, 0.9])
            U = int(np.prod(n_alleles)); logU = float(np.log(np.array(n_alleles)).sum())
            lines.append(" ".join(["kern.exchange"] + G.reads_tokens(reads, counts) + G.genotype_tokens(gi) + [str(U), C.rat_str(F)]
                                  + G.genotype_tokens(gj)))
            meta.append((gi, gj, reads, counts, F, Ti, Tj, logU))
        ans = drv.ask(lines)
        for (gi, gj, reads, counts, F, Ti, Tj, logU), a, line in zip(meta, ans, lines):
            ratio = C.parse_rat(a.split()[0])
            ai, aj = np.array(gi, dtype=np.int8), np.array(gj, dtype=np.int8)
            li, lj = (float(log_likelihood(reads, x, read_counts=counts)) for x in (ai, aj))
            pi, pj = (float(lprior_of(x, logU, F)) for x in (ai, aj))
            acc = float(tempering.chain_swap_acceptance(li, pi, Ti, lj, pj, Tj))
            acc_rev = float(tempering.chain_swap_acceptance(lj, pj, Ti, li, pi, Tj))
            macc = 0.0 if ratio == 0 else math.exp(min(0.0, C.frac_log(ratio) * (Ti - Tj)))
            chk.count("move=exchange")
            chk.case(line, G.canon_genotype(gi) != G.canon_genotype(gj))
            case = {"gi": gi, "gj": gj, "Ti": Ti, "Tj": Tj, "inbreeding": F}
            if not C.close(acc, macc):
                chk.disagreement("chain_swap_acceptance impl != model", {**case, "impl": acc, "model": macc})
            # oracle: pair-state detailed balance  w_i^Ti w_j^Tj A = w_j^Ti w_i^Tj A'
            ui, uj = li + pi, lj + pj
            if math.isfinite(ui) and math.isfinite(uj):
                lhs = ui * Ti + uj * Tj + (math.log(acc) if acc > 0 else -math.inf)
                rhs = uj * Ti + ui * Tj + (math.log(acc_rev) if acc_rev > 0 else -math.inf)
                if not C.close_log(lhs, rhs, rel=1e-9):
                    chk.violation("exchange move violates detailed balance for the pair of tempered chains",
                                  {**case, "lhs": lhs, "rhs": rhs}, "C01/exchange/db")

            # the step itself: with the uniform draw forced below / above the acceptance probability the pair of
            # chain states must be exactly exchanged / exactly unchanged, and the returned likelihoods follow the states
            step = getattr(tempering.chain_swap_step, "py_func", tempering.chain_swap_step)
            saved_rand = np.random.rand
            # ... and just below / just above the acceptance probability computed from the states' own priors: the step's
            # decision threshold IS that probability (it evaluates the two priors itself)
            near = []
            if 1e-6 < acc < 1.0 - 1e-6:
                near = [(acc * (1.0 - 1e-7), True), (acc * (1.0 + 1e-7), False)]
                chk.count("exchange-step:threshold-pinned")
            # (an acceptance within rounding of 1 - equal unordered genotypes - is not probed from above)
            for u, expect_swap in [(0.0, acc > 0.0), (1.0 - 1e-12 if acc < 1.0 - 1e-9 else None, False)] + near:
                if u is None:
                    continue
                bi, bj = ai.copy(), aj.copy()
                np.random.rand = lambda *a_, _u=u: _u
                try:
                    ri, rj = step(bi, li, Ti, bj, lj, Tj, logU, F)
                finally:
                    np.random.rand = saved_rand
                chk.count("exchange-step:" + ("accept" if expect_swap else "reject"))
                want_i, want_j = (aj, ai) if expect_swap else (ai, aj)
                want_l = (lj, li) if expect_swap else (li, lj)
                if not (np.array_equal(bi, want_i) and np.array_equal(bj, want_j)):
                    chk.violation("the temperature exchange does not exchange the two chain states (the pair of states after an accepted "
                                  "exchange is not the swapped pair / a rejected one changes a state)",
                                  {**case, "uniform": u, "acceptance": acc, "after_i": bi.tolist(), "after_j": bj.tolist(),
                                   "expected_i": want_i.tolist(), "expected_j": want_j.tolist()}, "C01/exchange/state-swap")
                elif not (C.close_log(float(ri), want_l[0]) and C.close_log(float(rj), want_l[1])):
                    chk.violation("the temperature exchange returns likelihoods that do not belong to the states the chains now hold",
                                  {**case, "uniform": u, "returned": [float(ri), float(rj)], "expected": list(want_l)}, "C01/exchange/llk-follows-state")

            # the compiled step where its outcome does not depend on the draw (acceptance exactly 1)
            if acc == 1.0:
                bi, bj = ai.copy(), aj.copy()
                ri, rj = tempering.chain_swap_step(bi, li, Ti, bj, lj, Tj, logU, F)
                chk.count("exchange-step:compiled-accept")
                if not (np.array_equal(bi, aj) and np.array_equal(bj, ai) and C.close_log(float(ri), lj) and C.close_log(float(rj), li)):
                    chk.violation("the compiled temperature exchange does not exchange the two chain states and their likelihoods",
                                  {**case, "acceptance": acc, "after_i": bi.tolist(), "after_j": bj.tolist(), "returned": [float(ri), float(rj)]},
                                  "C01/exchange/state-swap")

        # ------------------------------------------------------------------ wiring of the sweeps: what the sampler hands to the moves
        mutation.random_choice, structural.random_choice = orig_m, orig_s          # the compiled moves run inside the wiring stream
        try:
            wiring(chk, r, {"warm": 1, "quick": 6, "thorough": 40}[tier])
        finally:
            mutation.random_choice, structural.random_choice = rec_m, rec_s

        # ------------------------------------------------------------------ implementation oracle: exact DB on enumerated instances
        n_inst = {"warm": 1, "quick": 3, "thorough": 14}[tier]
        for inst in range(n_inst):
            ploidy = r.choice([2, 3]) if tier != "thorough" else r.choice([2, 3, 3, 4])
            n_base = 2 if ploidy >= 3 else r.choice([2, 3])
            n_alleles = [r.choice([2, 3]) for _ in range(n_base)]
            if ploidy == 4:
                n_alleles = [2] * n_base
            haps = list(itertools.product(*[range(a) for a in n_alleles]))
            truth = [list(r.choice(haps)) for _ in range(ploidy)]
            reads, counts = G.gen_reads(r, n_alleles, r.randint(2, 5), haps=truth, style="encoded", gap=0.2)
            F = r.choice([0.0, 0.1, 0.3]); T = r.choice([1.0, 0.5, 0.25])
            logU = float(np.log(np.array(n_alleles)).sum())
            states = list(itertools.combinations_with_replacement(haps, ploidy))

            def logpi(G_):
                arr = np.array(G_, dtype=np.int8)
                return (float(log_likelihood(reads, arr, read_counts=counts)) + float(lprior_of(arr, logU, F))) * T

            lp = {G.canon_genotype(s): logpi(s) for s in states}
            inst_case = {"ploidy": ploidy, "n_alleles": n_alleles, "inbreeding": F, "temp": T, "counts": counts.tolist(),
                         "reads": [[[None if math.isnan(x) else x for x in row] for row in rd] for rd in reads.tolist()]}
            worst = 0.0
            # interval moves at the multiset level (+ independence from row order)
            for st, (lo, hi) in itertools.product((0, 1), [(0, n_base), (0, 1), (1, n_base)]):
                K = {}
                for s in states:
                    arr = np.array(s, dtype=np.int8)
                    # the kernel as the sampler runs it: through the sweep function (structural.compound_step)
                    k1, _ = impl_interval(arr, reads, counts, lo, hi, st, logU, F, T, via_compound=True)
                    K[G.canon_genotype(s)] = k1
                    perm = list(range(ploidy)); r.shuffle(perm)
                    k2, _ = impl_interval(arr[perm], reads, counts, lo, hi, st, logU, F, T)
                    ok, key = same_kernel(k1, k2, tol=1e-9)
                    chk.count("oracle:row-order")
                    if not ok:
                        chk.violation("interval move distribution depends on the order of haplotypes in the current genotype",
                                      {**inst_case, "genotype": [list(h) for h in s], "perm": perm, "interval": [lo, hi], "step_type": st,
                                       "target": str(key), "a": k1.get(key, 0.0), "b": k2.get(key, 0.0)}, "C01/interval/row-order")
                for a_, ka in K.items():
                    for b_, pab in ka.items():
                        if a_ >= b_:
                            continue
                        pba = K[b_].get(a_, 0.0)
                        flow_ab = math.exp(lp[a_]) * pab
                        flow_ba = math.exp(lp[b_]) * pba
                        chk.count("oracle:db-pairs")
                        res = abs(flow_ab - flow_ba) / max(flow_ab, flow_ba, 1e-300)
                        worst = max(worst, res if max(flow_ab, flow_ba) > 1e-200 else 0.0)
                        if max(flow_ab, flow_ba) > 1e-200 and res > 1e-8:
                            chk.violation("interval move violates detailed balance w.r.t. the tempered posterior over unordered genotypes",
                                          {**inst_case, "from": str(a_), "to": str(b_), "interval": [lo, hi], "step_type": st,
                                           "pi_a*K_ab": flow_ab, "pi_b*K_ba": flow_ba}, f"C01/{'recombination' if st == 0 else 'dosage'}/db")
            # mutation move on ordered genotypes: pi_o(g) = pi(G) / perms(G)
            ordered = list(itertools.product(haps, repeat=ploidy))
            if len(ordered) <= 600:
                def lpo(g_):
                    c = G.canon_genotype(g_)
                    perms = math.factorial(ploidy)
                    for hh in set(c):
                        perms //= math.factorial(c.count(hh))
                    return lp[c] - math.log(perms)
                for g_ in ordered:
                    arr = np.array(g_, dtype=np.int8)
                    for h in range(ploidy):
                        for j in range(n_base):
                            rec_m.force = 0
                            mutation.base_step.py_func(arr.copy(), reads, float(log_likelihood(reads, arr, read_counts=counts)), h, j,
                                                       n_alleles[j], logU, inbreeding=F, temp=T, read_counts=counts, cache=None)
                            probs = rec_m.probs
                            for b in range(n_alleles[j]):
                                if b == g_[h][j]:
                                    continue
                                g2 = [list(x) for x in g_]; g2[h][j] = b
                                arr2 = np.array(g2, dtype=np.int8)
                                rec_m.force = 0
                                mutation.base_step.py_func(arr2.copy(), reads, float(log_likelihood(reads, arr2, read_counts=counts)), h, j,
                                                           n_alleles[j], logU, inbreeding=F, temp=T, read_counts=counts, cache=None)
                                back = rec_m.probs[g_[h][j]]
                                fa = math.exp(lpo(g_)) * probs[b]
                                fb = math.exp(lpo(g2)) * back
                                chk.count("oracle:db-pairs")
                                if max(fa, fb) > 1e-200 and abs(fa - fb) / max(fa, fb) > 1e-8:
                                    chk.violation("mutation move violates detailed balance w.r.t. the tempered posterior",
                                                  {**inst_case, "genotype": [list(x) for x in g_], "h": h, "j": j, "to_allele": b,
                                                   "pi*K_forward": fa, "pi*K_backward": fb}, "C01/mutation/db")
            chk.case(("enumerated-instance", ploidy, tuple(n_alleles), F, T, inst), True)
            chk.extra.setdefault("oracle_instances", []).append({"ploidy": ploidy, "n_alleles": n_alleles, "states": len(states),
                                                                  "worst_interval_db_residual": worst})
    finally:
        mutation.random_choice = orig_m
        structural.random_choice = orig_s
    return chk.finish()
