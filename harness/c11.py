"""C11 — genotype <-> G-field index mapping is the VCF order and a bijection.

Correspondence: jitted `comb`, `comb_with_replacement`, `genotype_alleles_as_index`,
`index_as_genotype_alleles`, `increment_genotype`, `posterior_as_array` against the Lean model
(`MCHap/Model/Comb.lean`); implementation oracles: `math.comb`, an independent colex enumeration,
round trips.
"""
from __future__ import annotations

import itertools
import math

import numpy as np

from . import common as C

PROP = "C11"
MODULE = "MCHap.Properties.C11"
THEOREMS = [
    "MCHap.C11.comb_exact",
    "MCHap.C11.comb_no_overflow",
    "MCHap.C11.cwr_exact",
    "MCHap.C11.cwr_no_overflow",
    "MCHap.C11.genotype_count",
    "MCHap.C11.index_lt",
    "MCHap.C11.index_injective",
    "MCHap.C11.index_is_vcf_order",
    "MCHap.C11.vcf_order_length",
    "MCHap.C11.index_surjective",
    "MCHap.C11.decode_spec",
    "MCHap.C11.decode_encode",
    "MCHap.C11.increment_spec",
    "MCHap.C11.enumeration_is_vcf_order",
]
RULE = ("cases: (n,k) pairs for comb / comb_with_replacement inside, across and beyond the 100x12 tables "
        "(incl. k > n/2 and results just below 2^53); random ascending genotypes (ploidy 1..40, up to 10^6 alleles) "
        "for encode / decode / increment; complete enumerations for small (n_alleles, ploidy). "
        "Non-trivial: outside the lookup table, or a genotype with a repeated allele and >= 3 distinct alleles, "
        "or a complete enumeration with >= 10 genotypes. Distinctness by canonical request line.")
LIMIT = 2 ** 53


def colex_enumeration(n, p):
    """independent VCF order: sort ascending tuples by (last, ..., first)"""
    gs = list(itertools.combinations_with_replacement(range(n), p))
    gs.sort(key=lambda g: tuple(reversed(g)))
    return gs


def gen_comb_cases(r, count):
    cases = set()
    # table edges
    for n in (0, 1, 2, 11, 12, 98, 99, 100, 101):
        for k in (0, 1, 2, 10, 11, 12, 13):
            cases.add((n, k))
    for _attempt in range(count * 3):
        if len(cases) >= count:
            break
        mode = r.random()
        if mode < 0.3:
            n = r.randint(0, 300); k = r.randint(0, 30)
        elif mode < 0.6:
            # k > n / 2 region with representable result
            n = r.randint(20, 400); k = n - r.randint(0, 8)
        elif mode < 0.9:
            # result close to but below 2^53
            k = r.randint(2, 27)
            lo, hi = k, 10 ** 9
            while lo < hi:
                mid = (lo + hi + 1) // 2
                if math.comb(mid, k) < LIMIT:
                    lo = mid
                else:
                    hi = mid - 1
            n = max(k, lo - r.randint(0, 3))
            if r.random() < 0.5:
                k = n - k
        else:
            n = r.randint(0, 60); k = n + r.randint(1, 5)
        if k >= 0 and n >= 0:
            cases.add((n, k))
    return sorted(cases)


def gen_genotype(r):
    ploidy = r.choice([1, 2, 2, 3, 4, 4, 6, 8, 12, 20, 40])
    # choose n_alleles with cwr < 2^53
    while True:
        n = r.choice([1, 2, 3, 4, 5, 8, 16, 100, 1000, 10 ** 4, 10 ** 6])
        if math.comb(n + ploidy - 1, ploidy) < LIMIT:
            break
    style = r.random()
    if style < 0.4:
        pool = [r.randrange(n) for _ in range(max(1, ploidy // 2))]
        g = sorted(r.choice(pool) for _ in range(ploidy))
    elif style < 0.5:
        g = [n - 1] * ploidy
    elif style < 0.6:
        g = [0] * ploidy
    else:
        g = sorted(r.randrange(n) for _ in range(ploidy))
    return n, ploidy, g


def run(tier, replay=None):
    from mchap import jitutils as J
    from mchap import combinatorics as CB
    from mchap.calling.utils import posterior_as_array

    chk = C.Check(PROP, tier, MODULE, THEOREMS, RULE, assumptions=[
        "lookup tables are filled by the same `_comb` at import time; compared on both sides of the table edge",
        "int64 wrap-around is modelled as `overflow` (unspecified result) and only compared when N < 2^53",
    ])
    chk.prove()
    drv = C.Driver()
    r = C.rng(PROP)
    scale = {"warm": 0.05, "quick": 1, "thorough": 12}[tier]

    # ---------------- comb / cwr
    combs = gen_comb_cases(r, int(600 * scale) + 70)
    # comb_with_replacement cases: the same binomials re-expressed as multiset coefficients
    cwrs = sorted({(n - k + 1, k) for n, k in combs if n >= k} | {(0, 0), (0, 1), (1, 0), (0, 5), (99, 11), (100, 11), (99, 12)}
                  # multiset coefficients whose float evaluation is off by one although far below 2^53
                  | {(18, 14), (15, 17), (20, 15), (66, 10), (99, 9), (178, 8), (2361, 5), (45, 11), (39, 12)})
    lines = [f"comb {n} {k}" for n, k in combs] + [f"cwr {n} {k}" for n, k in cwrs]
    ans = drv.ask(lines)
    for idx, ((n, k), a) in enumerate(zip(combs + cwrs, ans)):
        is_cwr = idx >= len(combs)
        name = "comb_with_replacement" if is_cwr else "comb"
        fn = J.comb_with_replacement if is_cwr else J.comb
        exact_s, checked_s = a.split()
        try:
            impl = int(fn(n, k))
        except Exception as e:  # noqa
            impl = f"error:{type(e).__name__}"
        truth = math.comb(n + k - 1, k) if is_cwr and not (n == 0 and k == 0) else (0 if is_cwr else math.comb(n, k))
        in_table = n < 100 and k < 12
        chk.count(f"{name}:{'table' if in_table else 'beyond'}")
        chk.case(lines[idx], not in_table, sample={"request": lines[idx], "impl": impl, "model": a})
        if int(exact_s) != truth:
            chk.disagreement(f"model {name} differs from math.comb", {"n": n, "k": k, "model": a, "truth": truth})
        if truth < LIMIT:
            if checked_s == "overflow":
                chk.disagreement(f"model reports int64 overflow for representable {name}", {"n": n, "k": k})
            if impl != truth:
                chk.disagreement(f"{name}({n},{k}) impl != model", {"n": n, "k": k, "impl": impl, "model": a})
                chk.violation(f"{name}({n},{k}) returned {impl}, exact value {truth} < 2^53",
                              {"fn": name, "n": n, "k": k, "impl": impl, "expected": truth},
                              signature=f"C11/{name}/wrong-value")
        else:
            chk.count(f"{name}:beyond-2^53")
        # the Python-level multiset coefficient that sizes every G-length array (GP / GL / posterior arrays)
        if is_cwr and truth < LIMIT and not (n == 0 and k == 0):
            try:
                cu = int(CB.count_unique_genotypes(n, k))
            except Exception as e:  # noqa
                cu = f"error:{type(e).__name__}"
            chk.count("count_unique_genotypes")
            if cu != truth:
                chk.violation(f"count_unique_genotypes({n},{k}) returned {cu}, exact value {truth} < 2^53 (it sizes the G-length arrays)",
                              {"fn": "count_unique_genotypes", "n": n, "k": k, "impl": cu, "expected": truth},
                              signature="C11/count_unique_genotypes/wrong-value")

    # ---------------- encode / decode / increment on random genotypes
    gcases = [gen_genotype(r) for _ in range(int(500 * scale) + 20)]
    lines = []
    for n, p, g in gcases:
        gs = " ".join(map(str, g))
        lines += [f"idx.enc {gs}", f"idx.inc {gs}"]
    ans = drv.ask(lines)
    dec_lines = []
    for i, (n, p, g) in enumerate(gcases):
        m_idx = int(ans[2 * i])
        m_inc = ans[2 * i + 1]
        arr = np.array(g, dtype=np.int64)
        chk.breadcrumb("encode/increment/decode", {"n_alleles": n, "ploidy": p, "genotype": g})
        try:
            i_idx = int(J.genotype_alleles_as_index(arr))
        except Exception as e:
            chk.violation(f"genotype_alleles_as_index raised {type(e).__name__} on a valid ascending genotype",
                          {"n_alleles": n, "ploidy": p, "genotype": g}, "C11/index/exception")
            continue
        nxt = arr.copy()
        try:
            J.increment_genotype(nxt)
            i_inc = " ".join(map(str, nxt.tolist()))
        except Exception as e:
            i_inc = f"error:{type(e).__name__}"
        N_ = math.comb(n + p - 1, p)
        if not (0 <= i_idx < N_):
            chk.violation(f"index {i_idx} of genotype outside 0..N-1 (N={N_})", {"n_alleles": n, "ploidy": p, "genotype": g}, "C11/index/range")
            continue
        try:
            i_dec = J.index_as_genotype_alleles(i_idx, p).tolist()
        except Exception as e:
            chk.violation(f"index_as_genotype_alleles raised {type(e).__name__}", {"index": i_idx, "ploidy": p}, "C11/decode/exception")
            continue
        nontriv = len(set(g)) >= 3 and len(set(g)) < len(g)
        chk.count(f"genotype:ploidy={p}")
        chk.case(lines[2 * i], nontriv, sample={"request": lines[2 * i], "impl": i_idx, "model": m_idx})
        case = {"n_alleles": n, "ploidy": p, "genotype": g}
        if i_idx != m_idx:
            chk.disagreement("genotype_alleles_as_index impl != model", {**case, "impl": i_idx, "model": m_idx})
        if i_inc != m_inc:
            chk.disagreement("increment_genotype impl != model", {**case, "impl": i_inc, "model": m_inc})
        # implementation oracles: range, round trip, successor
        N = math.comb(n + p - 1, p)
        if not (0 <= i_idx < N):
            chk.violation(f"index {i_idx} of genotype outside 0..N-1 (N={N})", case, "C11/index/range")
        if i_dec != g:
            chk.violation("index_as_genotype_alleles(genotype_alleles_as_index(g)) != g",
                          {**case, "index": i_idx, "decoded": i_dec}, "C11/index/roundtrip")
        if not i_inc.startswith("error"):
            try:
                j = int(J.genotype_alleles_as_index(nxt))
            except Exception:
                j = None
            if j != i_idx + 1:
                chk.violation("increment_genotype does not advance the index by one",
                              {**case, "next": nxt.tolist(), "index": i_idx, "next_index": j}, "C11/increment/step")
        dec_lines.append(f"idx.dec {m_idx} {p}")
    ans = drv.ask(dec_lines)
    for (n, p, g), a in zip(gcases, ans):
        if a != " ".join(map(str, g)):
            chk.disagreement("model decode(encode g) != g", {"genotype": g, "model": a})

    # random indices decoded
    lines, meta = [], []
    for _ in range(int(300 * scale) + 10):
        n, p, _g = gen_genotype(r)
        N = math.comb(n + p - 1, p)
        idx = r.choice([0, N - 1, r.randrange(N), r.randrange(N)])
        lines.append(f"idx.dec {idx} {p}")
        meta.append((n, p, idx))
    ans = drv.ask(lines)
    for (n, p, idx), a, line in zip(meta, ans, lines):
        chk.breadcrumb("decode", {"index": idx, "ploidy": p, "n_alleles": n})
        impl = J.index_as_genotype_alleles(idx, p).tolist()
        chk.case(line, len(set(impl)) >= 2)
        chk.count("decode")
        if " ".join(map(str, impl)) != a:
            chk.disagreement("index_as_genotype_alleles impl != model", {"index": idx, "ploidy": p, "impl": impl, "model": a})
        try:
            back = int(J.genotype_alleles_as_index(np.array(impl, dtype=np.int64)))
        except Exception:
            back = None
        ok = back == idx and impl == sorted(impl) and all(0 <= x < n for x in impl)
        if not ok:
            chk.violation("decoded genotype is not the ascending genotype of that index",
                          {"n_alleles": n, "ploidy": p, "index": idx, "decoded": impl, "re-encoded": back}, "C11/decode/spec")

    # ---------------- complete enumerations
    spaces = [(n, p) for n in range(1, 7) for p in range(1, 6)]
    if tier == "thorough":
        spaces += [(n, p) for n in range(7, 12) for p in range(1, 7)] + [(3, 20), (2, 60), (30, 3)]
    if tier == "warm":
        spaces = spaces[:4]
    lines = [f"idx.enum {n} {p}" for n, p in spaces] + [f"idx.vcf {n} {p}" for n, p in spaces]
    ans = drv.ask(lines)
    for i, (n, p) in enumerate(spaces):
        truth = colex_enumeration(n, p)
        m_enum = [tuple(map(int, x.split())) for x in ans[i].split(";")]
        m_vcf = [tuple(map(int, x.split())) for x in ans[len(spaces) + i].split(";")]
        g = np.zeros(p, dtype=np.int64)
        impl = []
        chk.breadcrumb("enumeration", {"n_alleles": n, "ploidy": p})
        for _ in range(len(truth)):
            impl.append(tuple(g.tolist()))
            try:
                J.increment_genotype(g)
            except Exception:
                break
        chk.count("enumeration")
        chk.case(lines[i], len(truth) >= 10, sample=None)
        case = {"n_alleles": n, "ploidy": p}
        if m_enum != truth or m_vcf != truth:
            chk.disagreement("model enumeration differs from the independent colex enumeration", case)
        if impl != m_enum:
            chk.disagreement("increment_genotype walk impl != model", case)
        if impl != truth:
            k = next((j for j in range(min(len(truth), len(impl))) if impl[j] != truth[j]), min(len(truth), len(impl)) - 1)
            chk.violation("enumerator does not visit genotypes in VCF order",
                          {**case, "position": k, "impl": impl[k], "vcf": truth[k]}, "C11/enumeration/order")
        try:
            idxs = [int(J.genotype_alleles_as_index(np.array(t, dtype=np.int64))) for t in truth]
        except Exception:
            idxs = [-1] * len(truth)
        if idxs != list(range(len(truth))):
            k = next(j for j in range(len(truth)) if idxs[j] != j)
            chk.violation("genotype_alleles_as_index is not the VCF position",
                          {**case, "genotype": truth[k], "vcf_position": k, "impl": idxs[k]}, "C11/index/order")
        # posterior_as_array places each probability at its VCF position
        probs = np.arange(1, len(truth) + 1, dtype=float)
        if idxs != list(range(len(truth))):
            continue   # posterior_as_array would write out of bounds; already reported above
        arr = posterior_as_array(np.array(truth, dtype=np.int64).reshape(len(truth), p), probs, len(truth))
        if arr.tolist() != probs.tolist():
            chk.violation("posterior_as_array does not follow the VCF order", case, "C11/posterior_as_array/order")
    chk.extra["exhaustive_spaces"] = len(spaces)
    return chk.finish()
