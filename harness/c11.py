"""C11 — genotype <-> G-field index mapping is the VCF order and a bijection.

Correspondence: jitted `comb`, `comb_with_replacement`, `genotype_alleles_as_index`,
`index_as_genotype_alleles`, `increment_genotype`, `posterior_as_array` against the Lean model
(`MCHap/Model/Comb.lean`); implementation oracles: `math.comb`, an independent colex enumeration,
round trips.
"""
from __future__ import annotations

import itertools
import math

import numpy as np

from . import common as C

PROP = "C11"
MODULE = "MCHap.Properties.C11"
THEOREMS = [
    "MCHap.C11.comb_exact",
    "MCHap.C11.comb_no_overflow",
    "MCHap.C11.cwr_exact",
    "MCHap.C11.cwr_no_overflow",
    "MCHap.C11.genotype_count",
    "MCHap.C11.index_lt",
    "MCHap.C11.index_injective",
    "MCHap.C11.index_is_vcf_order",
    "MCHap.C11.vcf_order_length",
    "MCHap.C11.index_surjective",
    "MCHap.C11.decode_spec",
    "MCHap.C11.decode_encode",
    "MCHap.C11.increment_spec",
    "MCHap.C11.enumeration_is_vcf_order",
    "MCHap.C11.combTable_exact",
    "MCHap.C11.combCached_exact",
    "MCHap.C11.cwrTable_exact",
    "MCHap.C11.cwrCached_exact",
    "MCHap.C11.combTable_small",
]
RULE = ("cases: (n,k) pairs for comb / comb_with_replacement inside, across and beyond the 100x12 tables "
        "(incl. k > n/2 and results just below 2^53); random ascending genotypes (ploidy 1..40, up to 10^6 alleles) "
        "for encode / decode / increment, the same genotypes as int8 / int16 / int32 arrays, pooled-sample genotypes of ploidy 10..13 over "
        "46..110 alleles (table edge) against an independent VCF rank; every entry of the two 100x12 lookup tables; negative arguments / indices; "
        "complete enumerations for small (n_alleles, ploidy) and across the table edges ((101,2), (2,13), (3,11), (3,13)). "
        "Non-trivial: outside the lookup table, or a genotype with a repeated allele and >= 3 distinct alleles, "
        "or a complete enumeration with >= 10 genotypes. Distinctness by canonical request line.")
LIMIT = 2 ** 53


def colex_enumeration(n, p):
    """independent VCF order: sort ascending tuples by (last, ..., first)"""
    gs = list(itertools.combinations_with_replacement(range(n), p))
    gs.sort(key=lambda g: tuple(reversed(g)))
    return gs


def gen_comb_cases(r, count):
    cases = set()
    # table edges
    for n in (0, 1, 2, 11, 12, 98, 99, 100, 101):
        for k in (0, 1, 2, 10, 11, 12, 13):
            cases.add((n, k))
    # the k = 9, 10, 11 columns of the table over their whole height plus the first columns beyond it
    for _ in range(60):
        cases.add((r.randint(40, 115), r.choice([9, 10, 10, 11, 11, 12, 13])))
    for _attempt in range(count * 3):
        if len(cases) >= count:
            break
        mode = r.random()
        if mode < 0.3:
            n = r.randint(0, 300); k = r.randint(0, 30)
        elif mode < 0.6:
            # k > n / 2 region with representable result
            n = r.randint(20, 400); k = n - r.randint(0, 8)
        elif mode < 0.9:
            # result close to but below 2^53
            k = r.randint(2, 27)
            lo, hi = k, 10 ** 9
            while lo < hi:
                mid = (lo + hi + 1) // 2
                if math.comb(mid, k) < LIMIT:
                    lo = mid
                else:
                    hi = mid - 1
            n = max(k, lo - r.randint(0, 3))
            if r.random() < 0.5:
                k = n - k
        else:
            n = r.randint(0, 60); k = n + r.randint(1, 5)
        if k >= 0 and n >= 0:
            cases.add((n, k))
    return sorted(cases)


def vcf_rank(g):
    """independent VCF rank of an ascending genotype (combinatorial number system, exact Python integers)"""
    return sum(math.comb(int(a) + i, i + 1) for i, a in enumerate(sorted(g)))


def gen_genotype(r, table_edge=False):
    ploidy = r.choice([1, 2, 2, 3, 4, 4, 6, 8, 12, 20, 40]) if not table_edge else r.choice([10, 11, 12, 13])
    # choose n_alleles with cwr < 2^53
    for _ in range(200):
        n = r.choice([1, 2, 3, 4, 5, 8, 16, 100, 1000, 10 ** 4, 10 ** 6]) if not table_edge else r.choice([46, 60, 70, 80, 90, 100, 101, 110])
        if math.comb(n + ploidy - 1, ploidy) < LIMIT:
            break
    else:
        n = 2
    if table_edge:
        # pooled samples: ploidy 10..13 over up to ~100 haplotypes, i.e. the k = 10, 11 columns and the n = 99 / 100 row edge of the 100 x 12 tables
        g = sorted(r.randrange(n) for _ in range(ploidy))
        if r.random() < 0.5:
            top = r.randint(2, 4)
            g = sorted(g[:ploidy - top] + [r.randrange(max(0, n - 50), n) for _ in range(top)])
        return n, ploidy, g
    style = r.random()
    if style < 0.4:
        pool = [r.randrange(n) for _ in range(max(1, ploidy // 2))]
        g = sorted(r.choice(pool) for _ in range(ploidy))
    elif style < 0.5:
        g = [n - 1] * ploidy
    elif style < 0.6:
        g = [0] * ploidy
    else:
        g = sorted(r.randrange(n) for _ in range(ploidy))
    return n, ploidy, g


def run(tier, replay=None):
    from mchap import jitutils as J
    from mchap import combinatorics as CB
    from mchap.calling.utils import posterior_as_array

    chk = C.Check(PROP, tier, MODULE, THEOREMS, RULE, assumptions=[
        "lookup tables are filled by the same `_comb` at import time; compared on both sides of the table edge",
        "int64 wrap-around is modelled as `overflow` (unspecified result) and only compared when N < 2^53",
    ])
    chk.prove()
    drv = C.Driver()
    r = C.rng(PROP)
    scale = {"warm": 0.05, "quick": 1, "thorough": 12}[tier]

    # ---------------- comb / cwr
    combs = gen_comb_cases(r, int(600 * scale) + 70)
    # comb_with_replacement cases: the same binomials re-expressed as multiset coefficients
    cwrs = sorted({(n - k + 1, k) for n, k in combs if n >= k} | {(0, 0), (0, 1), (1, 0), (0, 5), (99, 11), (100, 11), (99, 12)}
                  # multiset coefficients whose float evaluation is off by one although far below 2^53
                  | {(18, 14), (15, 17), (20, 15), (66, 10), (99, 9), (178, 8), (2361, 5), (45, 11), (39, 12)})
    lines = [f"comb {n} {k}" for n, k in combs] + [f"cwr {n} {k}" for n, k in cwrs]
    ans = drv.ask(lines)
    for idx, ((n, k), a) in enumerate(zip(combs + cwrs, ans)):
        is_cwr = idx >= len(combs)
        name = "comb_with_replacement" if is_cwr else "comb"
        fn = J.comb_with_replacement if is_cwr else J.comb
        exact_s, checked_s = a.split()
        try:
            impl = int(fn(n, k))
        except Exception as e:  # noqa
            impl = f"error:{type(e).__name__}"
        truth = math.comb(n + k - 1, k) if is_cwr and not (n == 0 and k == 0) else (0 if is_cwr else math.comb(n, k))
        in_table = n < 100 and k < 12
        chk.count(f"{name}:{'table' if in_table else 'beyond'}")
        chk.case(lines[idx], not in_table, sample={"request": lines[idx], "impl": impl, "model": a})
        if int(exact_s) != truth:
            chk.disagreement(f"model {name} differs from math.comb", {"n": n, "k": k, "model": a, "truth": truth})
        if truth < LIMIT:
            if checked_s == "overflow":
                chk.disagreement(f"model reports int64 overflow for representable {name}", {"n": n, "k": k})
            if impl != truth:
                chk.disagreement(f"{name}({n},{k}) impl != model", {"n": n, "k": k, "impl": impl, "model": a})
                chk.violation(f"{name}({n},{k}) returned {impl}, exact value {truth} < 2^53",
                              {"fn": name, "n": n, "k": k, "impl": impl, "expected": truth},
                              signature=f"C11/{name}/wrong-value")
        else:
            chk.count(f"{name}:beyond-2^53")
        # the Python-level multiset coefficient that sizes every G-length array (GP / GL / posterior arrays)
        if is_cwr and truth < LIMIT and not (n == 0 and k == 0):
            try:
                cu = int(CB.count_unique_genotypes(n, k))
            except Exception as e:  # noqa
                cu = f"error:{type(e).__name__}"
            chk.count("count_unique_genotypes")
            if cu != truth:
                chk.violation(f"count_unique_genotypes({n},{k}) returned {cu}, exact value {truth} < 2^53 (it sizes the G-length arrays)",
                              {"fn": "count_unique_genotypes", "n": n, "k": k, "impl": cu, "expected": truth},
                              signature="C11/count_unique_genotypes/wrong-value")

    # ---------------- every entry of the two lookup tables (what the jitted functions read) against exact integers
    for tname, exact in (("_COMB_CACHE", lambda n, k: math.comb(n, k)),
                         ("_COMB_WITH_REPLACEMENT_CACHE", lambda n, k: 0 if (n == 0 and k == 0) else math.comb(n + k - 1, k))):
        table = getattr(J, tname, None)
        if table is None:
            chk.count(f"table:{tname}:absent")
            continue
        table = np.asarray(table)
        wrong = [(n, k, int(table[n, k]), exact(n, k)) for n in range(table.shape[0]) for k in range(table.shape[1])
                 if exact(n, k) < LIMIT and int(table[n, k]) != exact(n, k)]
        chk.count(f"table:{tname}:entries", int(table.size))
        chk.case(("table", tname, table.shape), True)
        if wrong:
            n, k, got, want = wrong[0]
            fname = "comb" if tname == "_COMB_CACHE" else "comb_with_replacement"
            chk.violation(f"lookup table {tname}[{n},{k}] = {got}, exact value {want} ({len(wrong)} wrong entries)",
                          {"fn": fname, "n": n, "k": k, "impl": got, "expected": want, "n_wrong": len(wrong),
                           "wrong": [list(w) for w in wrong[:12]]}, signature=f"C11/{fname}/wrong-value")
    # ---------------- error branches
    for (n, k) in [(-1, 0), (-1, 3), (5, -1), (-3, -2), (-1, 20), (200, -1)]:
        for fname in ("_comb", "comb", "comb_with_replacement"):
            fn = getattr(J, fname)
            try:
                res = int(fn(n, k))
            except ValueError:
                res = "ValueError"
            except Exception as e:  # noqa
                res = f"error:{type(e).__name__}"
            chk.count(f"negative-argument:{fname}:{'raises' if not isinstance(res, int) else 'returns-zero' if res == 0 else 'returns-nonzero'}")
            chk.case(("negative", fname, n, k), True)
            if fname == "_comb" and res != "ValueError":
                # the exact routine documents its domain by raising; a number here means the guard is gone
                chk.violation(f"_comb({n},{k}) does not raise ValueError for a negative argument (returned {res})",
                              {"fn": "_comb", "n": n, "k": k, "impl": res}, signature="C11/_comb/negative-argument")
            if isinstance(res, int) and res != 0:
                chk.extra.setdefault("negative_argument_returns_a_count", []).append({"fn": fname, "n": n, "k": k, "returned": res})
    for p_ in (1, 2, 4, 12):
        for idx_ in (-1, -5):
            try:
                res = J.index_as_genotype_alleles(idx_, p_)
                shown = None if res is None else np.asarray(res).tolist()
            except Exception as e:  # noqa
                shown = f"error:{type(e).__name__}"
            chk.count("negative-index:" + ("None" if shown is None else "raises" if isinstance(shown, str) else "array"))
            chk.case(("negative-index", idx_, p_), True)
            if isinstance(shown, list) and (len(shown) != p_ or any(a >= 0 for a in shown)):
                chk.violation("index_as_genotype_alleles of a negative index returns called alleles (an invalid index must give an uncalled genotype)",
                              {"index": idx_, "ploidy": p_, "impl": shown}, "C11/decode/negative-index")

    # ---------------- encode / decode / increment on random genotypes
    gcases = [gen_genotype(r) for _ in range(int(500 * scale) + 20)] + [gen_genotype(r, table_edge=True) for _ in range(int(250 * scale) + 10)]
    lines = []
    for n, p, g in gcases:
        gs = " ".join(map(str, g))
        lines += [f"idx.enc {gs}", f"idx.inc {gs}"]
    ans = drv.ask(lines)
    dec_lines = []
    for i, (n, p, g) in enumerate(gcases):
        m_idx = int(ans[2 * i])
        m_inc = ans[2 * i + 1]
        arr = np.array(g, dtype=np.int64)
        chk.breadcrumb("encode/increment/decode", {"n_alleles": n, "ploidy": p, "genotype": g})
        try:
            i_idx = int(J.genotype_alleles_as_index(arr))
        except Exception as e:
            chk.violation(f"genotype_alleles_as_index raised {type(e).__name__} on a valid ascending genotype",
                          {"n_alleles": n, "ploidy": p, "genotype": g}, "C11/index/exception")
            continue
        nxt = arr.copy()
        try:
            J.increment_genotype(nxt)
            i_inc = " ".join(map(str, nxt.tolist()))
        except Exception as e:
            i_inc = f"error:{type(e).__name__}"
        N_ = math.comb(n + p - 1, p)
        if not (0 <= i_idx < N_):
            chk.violation(f"index {i_idx} of genotype outside 0..N-1 (N={N_})", {"n_alleles": n, "ploidy": p, "genotype": g}, "C11/index/range")
            continue
        try:
            i_dec = J.index_as_genotype_alleles(i_idx, p).tolist()
        except Exception as e:
            chk.violation(f"index_as_genotype_alleles raised {type(e).__name__}", {"index": i_idx, "ploidy": p}, "C11/decode/exception")
            continue
        nontriv = len(set(g)) >= 3 and len(set(g)) < len(g)
        chk.count(f"genotype:ploidy={p}")
        chk.case(lines[2 * i], nontriv, sample={"request": lines[2 * i], "impl": i_idx, "model": m_idx})
        case = {"n_alleles": n, "ploidy": p, "genotype": g}
        if i_idx != m_idx:
            chk.disagreement("genotype_alleles_as_index impl != model", {**case, "impl": i_idx, "model": m_idx})
        if i_inc != m_inc:
            chk.disagreement("increment_genotype impl != model", {**case, "impl": i_inc, "model": m_inc})
        # implementation oracles: range, round trip, successor
        N = math.comb(n + p - 1, p)
        if not (0 <= i_idx < N):
            chk.violation(f"index {i_idx} of genotype outside 0..N-1 (N={N})", case, "C11/index/range")
        if i_dec != g:
            chk.violation("index_as_genotype_alleles(genotype_alleles_as_index(g)) != g",
                          {**case, "index": i_idx, "decoded": i_dec}, "C11/index/roundtrip")
        if i_idx != vcf_rank(g):
            chk.violation("genotype_alleles_as_index is not the VCF position (independent combinatorial rank)",
                          {**case, "genotype": g, "vcf_position": vcf_rank(g), "impl": i_idx}, "C11/index/order")
        if p in (10, 11, 12, 13):
            chk.count("genotype:table-edge-ploidy")
        # the same genotype in the integer widths the callers really use (int8 haplotype labels, int16 / int32 allele arrays)
        for dt in (np.int8, np.int16, np.int32):
            if max(g) + 1 > np.iinfo(dt).max:
                continue
            small = np.array(g, dtype=dt)
            chk.count(f"dtype:{np.dtype(dt).name}")
            try:
                j_small = int(J.genotype_alleles_as_index(small))
                nxt_s = small.copy()
                J.increment_genotype(nxt_s)
                inc_s = " ".join(map(str, nxt_s.tolist()))
            except Exception as e:
                chk.violation(f"genotype_alleles_as_index / increment_genotype raised {type(e).__name__} on a {np.dtype(dt).name} genotype",
                              {**case, "dtype": np.dtype(dt).name}, "C11/index/dtype")
                continue
            if j_small != vcf_rank(g) or (not i_inc.startswith("error") and inc_s != i_inc) or nxt_s.dtype != np.dtype(dt):
                chk.violation(f"index / successor of a {np.dtype(dt).name} genotype differ from those of the same int64 genotype",
                              {**case, "dtype": np.dtype(dt).name, "index": j_small, "vcf_position": vcf_rank(g), "next": inc_s, "next_int64": i_inc},
                              "C11/index/dtype")
        if not i_inc.startswith("error"):
            try:
                j = int(J.genotype_alleles_as_index(nxt))
            except Exception:
                j = None
            if j != i_idx + 1:
                chk.violation("increment_genotype does not advance the index by one",
                              {**case, "next": nxt.tolist(), "index": i_idx, "next_index": j}, "C11/increment/step")
        dec_lines.append(f"idx.dec {m_idx} {p}")
    ans = drv.ask(dec_lines)
    for (n, p, g), a in zip(gcases, ans):
        if a != " ".join(map(str, g)):
            chk.disagreement("model decode(encode g) != g", {"genotype": g, "model": a})

    # random indices decoded
    lines, meta = [], []
    for _ in range(int(300 * scale) + 10):
        n, p, _g = gen_genotype(r)
        N = math.comb(n + p - 1, p)
        idx = r.choice([0, N - 1, r.randrange(N), r.randrange(N)])
        lines.append(f"idx.dec {idx} {p}")
        meta.append((n, p, idx))
    ans = drv.ask(lines)
    for (n, p, idx), a, line in zip(meta, ans, lines):
        chk.breadcrumb("decode", {"index": idx, "ploidy": p, "n_alleles": n})
        impl = J.index_as_genotype_alleles(idx, p).tolist()
        chk.case(line, len(set(impl)) >= 2)
        chk.count("decode")
        if " ".join(map(str, impl)) != a:
            chk.disagreement("index_as_genotype_alleles impl != model", {"index": idx, "ploidy": p, "impl": impl, "model": a})
        try:
            back = int(J.genotype_alleles_as_index(np.array(impl, dtype=np.int64)))
        except Exception:
            back = None
        ok = back == idx and impl == sorted(impl) and all(0 <= x < n for x in impl)
        if not ok:
            chk.violation("decoded genotype is not the ascending genotype of that index",
                          {"n_alleles": n, "ploidy": p, "index": idx, "decoded": impl, "re-encoded": back}, "C11/decode/spec")

    # ---------------- complete enumerations
    # (101, 2) and (2, 13) leave the 100 x 12 tables through the row and the column edge; (3, 11) / (3, 13): ploidies around the column edge
    spaces = [(n, p) for n in range(1, 7) for p in range(1, 6)] + [(101, 2), (2, 13), (3, 11), (3, 13), (2, 12)]
    if tier == "thorough":
        spaces += [(n, p) for n in range(7, 12) for p in range(1, 7)] + [(3, 20), (2, 60), (30, 3)]
    if tier == "warm":
        spaces = spaces[:4]
    lines = [f"idx.enum {n} {p}" for n, p in spaces] + [f"idx.vcf {n} {p}" for n, p in spaces]
    ans = drv.ask(lines)
    for i, (n, p) in enumerate(spaces):
        truth = colex_enumeration(n, p)
        m_enum = [tuple(map(int, x.split())) for x in ans[i].split(";")]
        m_vcf = [tuple(map(int, x.split())) for x in ans[len(spaces) + i].split(";")]
        g = np.zeros(p, dtype=np.int64)
        impl = []
        chk.breadcrumb("enumeration", {"n_alleles": n, "ploidy": p})
        for _ in range(len(truth)):
            impl.append(tuple(g.tolist()))
            try:
                J.increment_genotype(g)
            except Exception:
                break
        chk.count("enumeration")
        chk.case(lines[i], len(truth) >= 10, sample=None)
        case = {"n_alleles": n, "ploidy": p}
        if m_enum != truth or m_vcf != truth:
            chk.disagreement("model enumeration differs from the independent colex enumeration", case)
        if impl != m_enum:
            chk.disagreement("increment_genotype walk impl != model", case)
        if impl != truth:
            k = next((j for j in range(min(len(truth), len(impl))) if impl[j] != truth[j]), min(len(truth), len(impl)) - 1)
            chk.violation("enumerator does not visit genotypes in VCF order",
                          {**case, "position": k, "impl": impl[k], "vcf": truth[k]}, "C11/enumeration/order")
        try:
            idxs = [int(J.genotype_alleles_as_index(np.array(t, dtype=np.int64))) for t in truth]
        except Exception:
            idxs = [-1] * len(truth)
        if idxs != list(range(len(truth))):
            k = next(j for j in range(len(truth)) if idxs[j] != j)
            chk.violation("genotype_alleles_as_index is not the VCF position",
                          {**case, "genotype": truth[k], "vcf_position": k, "impl": idxs[k]}, "C11/index/order")
        # posterior_as_array places each probability at its VCF position
        probs = np.arange(1, len(truth) + 1, dtype=float)
        if idxs != list(range(len(truth))):
            continue   # posterior_as_array would write out of bounds; already reported above
        arr = posterior_as_array(np.array(truth, dtype=np.int64).reshape(len(truth), p), probs, len(truth))
        if arr.tolist() != probs.tolist():
            chk.violation("posterior_as_array does not follow the VCF order", case, "C11/posterior_as_array/order")
    chk.extra["exhaustive_spaces"] = len(spaces)
    # posterior_as_array on the integer types the traces are stored in (call-pedigree: int16, call: int32, relabelled: int64), spaces
    # with more genotypes than an int16 / fewer than an int32 can count: every probability sits at the VCF position of its genotype
    rb = C.rng(PROP + ":as_array")
    big_spaces = [(4, 30), (2, 300), (6, 15), (4, 40), (3, 70), (8, 9)]
    for (p_, n_) in big_spaces[: {"warm": 1, "quick": 6, "thorough": 6}[tier]]:
        n_gen = math.comb(n_ + p_ - 1, p_)
        for dt in (np.int16, np.int32, np.int64):
            obs = {tuple(sorted(rb.randrange(n_) for _ in range(p_))) for _ in range(12)}
            obs |= {tuple([n_ - 1] * p_), tuple([0] * (p_ - 1) + [n_ - 1]), tuple([0] * p_)}
            obs = sorted(obs)
            probs = np.array([(i + 1) / 100.0 for i in range(len(obs))])
            arr = posterior_as_array(np.array(obs, dtype=dt), probs, n_gen)
            chk.count("posterior_as_array:large-space"); chk.count(f"posterior_as_array:dtype={np.dtype(dt).name}")
            chk.case(("as_array", p_, n_, np.dtype(dt).name), n_gen > 32767)
            want = {sum(math.comb(a + i, i + 1) for i, a in enumerate(g)): float(pr) for g, pr in zip(obs, probs)}
            got = {int(i): float(arr[i]) for i in np.nonzero(arr)[0]}
            if len(arr) != n_gen or got != want:
                wrong = sorted(set(want.items()) ^ set(got.items()))[:6]
                chk.violation("posterior_as_array does not place every probability at the VCF position of its genotype",
                              {"ploidy": p_, "n_alleles": n_, "n_genotypes": n_gen, "dtype": np.dtype(dt).name, "length": int(len(arr)),
                               "first_differences(index, value)": wrong}, "C11/posterior_as_array/order")
    # a consumer that pairs the index with the enumerator: every G-length likelihood array (FORMAT/GL, the array path of call-exact)
    # over more than 1024 genotypes has entry i = genotype number i
    from .c04 import gl_large_spaces
    gl_large_spaces(chk, C.rng(PROP + ":gl"), tier, "C11/genotype_likelihoods/order")
    return chk.finish()
